#!/bin/bash
# Offline build of the overlay venv: the repository's own interpreter and
# packages (/venv: numpy, scipy, h5py, pandas, click, editable biom from /repo)
# plus the solver/contract wheels from /opt/veriftools/wheels.
set -e
HERE="$(cd "$(dirname "${BASH_SOURCE[0]}")" && pwd)"
cd "$HERE"
rm -rf .venv
/venv/bin/python -m venv .venv
PIP_NO_INDEX=1 .venv/bin/pip install -q --no-index --find-links /opt/veriftools/wheels \
    z3-solver cvc5 crosshair-tool icontract deal jsonschema
echo "import site; site.addsitedir('/venv/lib/python3.12/site-packages')" \
    > .venv/lib/python3.12/site-packages/_repo.pth
.venv/bin/python -c "import z3, cvc5, biom, numpy, scipy, h5py; print('overlay venv ok', z3.get_version_string())"
mkdir -p evidence replay
touch .venv/.ok
