#!/bin/bash
# Re-evaluate every kept seeded change against the quick check of its target property (serial: /repo is shared).
# usage: selftest/seeded_all.sh [extra property ids to run for every seed]
cd "$(dirname "$0")/.."
for d in seeded/C*_*; do
  n=$(basename $d); p=${n%%_*}
  .venv/bin/python selftest/seeded.py $d $p "$@" > $d/last_run.json 2>&1
  .venv/bin/python - "$d" "$p" <<'PY'
import json, sys, os
d, p = sys.argv[1:3]
r = json.load(open(os.path.join(d, 'last_run.json')))
notes = open(os.path.join(d, 'notes.md')).read() if os.path.exists(os.path.join(d, 'notes.md')) else ''
meta = {'property': p, 'breaks': p, 'valid_seed': r.get('valid_seed'),
        'suite_passed_with_patch': r.get('suite_passed'), 'demo_exit_with_patch': r.get('demo_with_patch_exit'),
        'demo_exit_without_patch': r.get('demo_without_patch_exit'),
        'caught_by_quick_checks': r.get('caught_by'),
        'first_obligations': {k: v['first'] for k, v in r.get('checks', {}).items()},
        'what_ran': ['git -C /repo apply %s/patch.diff' % d, 'pytest (repo suite)', 'demo.py (cwd=/repo)',
                     './check %s --tier quick' % p, 'git -C /repo checkout -- .', 'demo.py again'],
        'needs_to_manifest': next((l.strip() for l in notes.split('\n') if 'need' in l.lower()), '')[:400],
        'source': 'written by a fresh sub-agent that saw only the property text and a scratch worktree'}
json.dump(meta, open(os.path.join(d, 'meta.json'), 'w'), indent=1)
print(os.path.basename(d), 'valid' if meta['valid_seed'] else 'INVALID', 'caught by', meta['caught_by_quick_checks'] or 'NOTHING')
PY
  rm -f $d/last_run.json
done
