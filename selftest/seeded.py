"""Verify and evaluate seeded property-breaking changes.

usage: seeded.py <dir with patch.diff, demo.py[, notes.md]> <property id> [more property ids to run as well]
Applies the patch to /repo (git apply), runs the repository test suite, the demonstration (must fail), the quick
checks of the named properties (must report a VIOLATION), undoes the patch (git checkout -- .), runs the demonstration
again (must pass).  Prints a JSON record.
"""
import json, os, re, subprocess, sys, time

def sh(cmd, cwd=None, timeout=1800, env=None):
    p = subprocess.run(cmd, shell=True, cwd=cwd, capture_output=True, text=True, timeout=timeout, env=env)
    return p.returncode, (p.stdout or '') + (p.stderr or '')

def main():
    d = os.path.abspath(sys.argv[1])
    pids = sys.argv[2:]
    rec = {'dir': d, 'properties_run': pids}
    rc, out = sh('git -C /repo status --short --untracked-files=no')
    assert out.strip() == '', '/repo has uncommitted changes'
    rc, out = sh('git -C /repo apply %s/patch.diff' % d)
    rec['applies'] = rc == 0
    if rc:
        rec['apply_error'] = out[-500:]
        print(json.dumps(rec, indent=1)); return
    try:
        rc, out = sh('/venv/bin/python -m pytest -q -p no:cacheprovider --timeout=900 -x 2>&1 | tail -3', cwd='/repo')
        m = re.search(r'(\d+) passed', out)
        rec['suite_passed'] = int(m.group(1)) if m else 0
        rec['suite_failed'] = 'failed' in out
        rc, out = sh('/venv/bin/python %s/demo.py' % d, cwd='/repo', env=dict(os.environ, PYTHONPATH='/repo'))
        rec['demo_with_patch_exit'] = rc
        rec['demo_with_patch_tail'] = out.strip().split('\n')[-1][:300]
        rec['checks'] = {}
        for pid in pids:
            t0 = time.time()
            rc, out = sh('./check %s --tier quick' % pid, cwd='/verif')
            viol = [l for l in out.split('\n') if l.startswith('VIOLATION')]
            obl = [l.strip() for l in out.split('\n') if l.strip().startswith('obligation=')]
            rec['checks'][pid] = {'exit': rc, 'violations': len(viol), 'first': (obl[:3]), 'wall_s': round(time.time() - t0, 1),
                                  'errors': [l for l in out.split('\n') if l.startswith(('CHECKER-ERROR', 'UNDECIDED'))][:3]}
            if os.environ.get('SEEDED_DEDUCTIVE'):
                # what the deductive tier says on its own (no bounded witness to lean on)
                rc2, out2 = sh('./check %s --tier quick --only deductive' % pid, cwd='/verif')
                obl2 = [l.strip() for l in out2.split('\n') if l.strip().startswith('obligation=')]
                rec['checks'][pid]['deductive_alone'] = {
                    'exit': rc2, 'violations': len([l for l in out2.split('\n') if l.startswith('VIOLATION')]),
                    'first': obl2[:3],
                    'errors': [l for l in out2.split('\n') if l.startswith(('CHECKER-ERROR', 'UNDECIDED'))][:2]}
    finally:
        sh('git -C /repo checkout -- .')
    rc, out = sh('/venv/bin/python %s/demo.py' % d, cwd='/repo', env=dict(os.environ, PYTHONPATH='/repo'))
    rec['demo_without_patch_exit'] = rc
    rec['valid_seed'] = bool(rec.get('suite_passed', 0) >= 377 and not rec.get('suite_failed') and rec['demo_with_patch_exit'] != 0
                             and rec['demo_without_patch_exit'] == 0)
    rec['caught_by'] = [p for p, c in rec.get('checks', {}).items() if c['exit'] == 1 and c['violations'] > 0]
    print(json.dumps(rec, indent=1))

main()
