cd /verif
for d in "$@"; do
  n=$(basename $d); p=${n%%_*}
  SEEDED_DEDUCTIVE=1 .venv/bin/python selftest/seeded.py $d $p > $d/last_run.json 2>&1
  .venv/bin/python - "$d" "$p" <<'PY'
import json, sys, os
d, p = sys.argv[1:3]
txt=open(os.path.join(d,'last_run.json')).read()
r = json.loads(txt[txt.index('{'):])
notes = open(os.path.join(d, 'notes.md')).read() if os.path.exists(os.path.join(d, 'notes.md')) else ''
ck = r.get('checks', {}).get(p, {})
meta = {'property': p, 'breaks': p, 'valid_seed': r.get('valid_seed'),
        'suite_passed_with_patch': r.get('suite_passed'), 'demo_exit_with_patch': r.get('demo_with_patch_exit'),
        'demo_exit_without_patch': r.get('demo_without_patch_exit'),
        'caught_by_quick_checks': r.get('caught_by'),
        'first_obligations': {k: v['first'] for k, v in r.get('checks', {}).items()},
        'deductive_tier_alone': ck.get('deductive_alone'),
        'what_ran': ['git -C /repo apply %s/patch.diff' % d, 'pytest (repo suite)', 'demo.py (cwd=/repo)',
                     './check %s --tier quick' % p, './check %s --tier quick --only deductive' % p,
                     'git -C /repo checkout -- .', 'demo.py again'],
        'needs_to_manifest': next((l.strip() for l in notes.split('\n') if 'need' in l.lower()), '')[:400],
        'source': (json.load(open(os.path.join(d, 'meta.json'))).get('source') if os.path.exists(os.path.join(d, 'meta.json')) else None) or 'second round: written by a fresh sub-agent that saw only the property text, a list of method names and a scratch worktree'}
json.dump(meta, open(os.path.join(d, 'meta.json'), 'w'), indent=1)
da = ck.get('deductive_alone') or {}
print(os.path.basename(d), 'valid' if meta['valid_seed'] else 'INVALID', 'caught by', meta['caught_by_quick_checks'] or 'NOTHING',
      '| deductive alone: exit', da.get('exit'), 'violations', da.get('violations'), (da.get('first') or da.get('errors') or [''])[0][:110])
PY
  rm -f $d/last_run.json
done
