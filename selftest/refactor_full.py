"""End-to-end no-false-alarm test: each behaviour-preserving refactoring (selftest/refactorings/*.diff) is applied to /repo,
the quick check of a property that has the touched function under contract is run (both tiers), and the patch is undone.
Expected: exit 0 (or exit 3 for the edits that need a contract re-binding) and never a VIOLATION line."""
import json, os, subprocess, sys
HERE = os.path.dirname(os.path.dirname(os.path.abspath(__file__)))
PROP = {'refA_1': 'C20', 'refA_2': 'C20', 'refA_3': 'C20', 'refA_4': 'C20', 'refA_5': 'C08', 'refA_6': 'C08', 'refA_7': 'C13',
        'refA_8': 'C12', 'refB_1': 'C08', 'refB_2': 'C13', 'refB_3': 'C12', 'refB_4': 'C08', 'refB_5': 'C06', 'refB_6': 'C06',
        'refB_7': 'C06', 'refB_8': 'C06', 'refB_9': 'C08', 'refB_10': 'C19', 'refC_1': 'C15', 'refC_2': 'C15', 'refC_3': 'C15',
        'refC_4': 'C15', 'refC_5': 'C15', 'refC_6': 'C15', 'refC_7': 'C16', 'refC_8': 'C16', 'refC_9': 'C05', 'refC_10': 'C05',
        'refD_1': 'C17', 'refD_2': 'C18', 'refD_3': 'C18', 'refD_4': 'C19', 'refD_5': 'C19', 'refD_6': 'C19', 'refD_7': 'C05',
        'refD_8': 'C06', 'refD_9': 'C09', 'refD_10': 'C09', 'refD_11': 'C13', 'refD_12': 'C19'}
out = []
for name in sorted(PROP, key=lambda n: (n[:4], int(n.split('_')[1]))):
    if len(sys.argv) > 1 and sys.argv[1] not in name:
        continue
    assert subprocess.run('git -C /repo status --short --untracked-files=no', shell=True, capture_output=True, text=True).stdout.strip() == ''
    r = subprocess.run('git -C /repo apply %s/selftest/refactorings/%s.diff' % (HERE, name), shell=True, capture_output=True, text=True)
    if r.returncode:
        out.append((name, PROP[name], 'PATCH-FAILED', ''))
        continue
    try:
        r = subprocess.run('./check %s --tier quick' % PROP[name], shell=True, capture_output=True, text=True, cwd=HERE)
        viol = [l for l in r.stdout.split('\n') if l.startswith('VIOLATION')]
        err = [l for l in r.stdout.split('\n') if l.startswith('CHECKER-ERROR')]
        out.append((name, PROP[name], 'exit %d' % r.returncode, ('VIOLATION! ' + viol[0][:100]) if viol else (err[0][:110] if err else '')))
    finally:
        subprocess.run('git -C /repo checkout -- .', shell=True)
    print('%-8s %-4s %-7s %s' % out[-1], flush=True)
json.dump([dict(name=a, property=b, verdict=c, detail=d) for a, b, c, d in out],
          open(os.path.join(HERE, 'selftest', 'refactorings', 'result_full.json'), 'w'), indent=1)
print('exit 0: %d, exit 3 (re-bind): %d, violations: %d' % (sum(o[2] == 'exit 0' for o in out), sum(o[2] == 'exit 3' for o in out),
                                                          sum('VIOLATION' in o[3] for o in out)))
