"""No-false-alarm test of the deductive tier: behaviour-preserving refactorings (written by fresh sub-agents that saw
only the function names and a scratch worktree) are applied to a scratch copy of biom/ outside /repo and /verif, and the
contracts of the touched function are re-proved.  Expected: every obligation is still discharged.
usage: refactor_eval.py [name-substring]"""
import os, re, shutil, subprocess, sys, tempfile, json
from concurrent.futures import ThreadPoolExecutor
HERE = os.path.dirname(os.path.dirname(os.path.abspath(__file__)))
SRC = os.environ.get('VERIF_REPO', '/repo')
D = os.path.join(HERE, 'selftest', 'refactorings')
KEY = {'refA_1': 'err.py::errcheck', 'refA_2': 'ErrorProfile.state', 'refA_3': 'err.py::errstate', 'refA_4': 'err.py::seterr',
       'refA_5': '_remove_rows_csr', 'refA_6': '_make_filter_array_general', 'refA_7': '_transform.pyx::_transform',
       'refA_8': '_subsample_without_replacement',
       'refB_1': 'table.py::Table.filter', 'refB_2': 'table.py::Table.transform', 'refB_3': 'table.py::Table.subsample',
       'refB_4': 'table.py::Table.head', 'refB_5': 'table.py::Table.sort_order', 'refB_6': 'table.py::Table.sort',
       'refB_7': 'table.py::Table.transpose', 'refB_8': 'table.py::Table.update_ids', 'refB_9': 'table.py::Table.remove_empty',
       'refB_10': 'table.py::Table.sum',
       'refC_1': 'TableValidator._validate_json', 'refC_2': 'TableValidator._valid_sparse_data',
       'refC_3': 'TableValidator._valid_dense_data', 'refC_4': 'TableValidator._valid_rows', 'refC_5': 'TableValidator._valid_shape',
       'refC_6': 'TableValidator._valid_data', 'refC_7': 'table.py::Table.__eq__', 'refC_8': 'table.py::Table.descriptive_equality',
       'refC_9': 'table.py::Table.metadata', 'refC_10': 'table.py::Table.get_value_by_ids',
       'refD_1': 'table.py::Table.__init__', 'refD_2': 'table.py::Table.add_metadata', 'refD_3': 'table.py::Table.del_metadata',
       'refD_4': 'table.py::Table.nonzero_counts', 'refD_5': 'table.py::Table.min', 'refD_6': 'table.py::Table.max',
       'refD_7': 'table.py::Table.data', 'refD_8': 'table.py::Table.copy', 'refD_9': 'Table._union_id_order',
       'refD_10': 'Table._intersect_id_order', 'refD_11': 'table.py::Table.pa', 'refD_12': 'compute_counts_per_sample_stats'}


def one(name):
    tmp = tempfile.mkdtemp(prefix='pyvc_rf_')
    try:
        shutil.copytree(os.path.join(SRC, 'biom'), os.path.join(tmp, 'biom'),
                        ignore=shutil.ignore_patterns('*.so', '*.c', 'tests', '__pycache__'))
        r = subprocess.run(['patch', '-p1', '-s', '-d', tmp, '-i', os.path.join(D, name + '.diff')], capture_output=True, text=True)
        if r.returncode:
            return name, 'PATCH-FAILED', r.stdout[-200:]
        env = dict(os.environ, VERIF_REPO=tmp, BUDGET=os.environ.get('BUDGET', '10'), PYVC_PROCS='4')
        r = subprocess.run([sys.executable, '-m', 'pyvc.prove', KEY[name]], env=env, capture_output=True, text=True, cwd=HERE)
        bad = [l.strip() for l in r.stdout.split('\n') if l.strip().startswith(('FAIL', '???', 'ERROR'))]
        if r.returncode and not bad:
            bad = ['CRASH ' + r.stderr.strip().split('\n')[-1][:160]]
        return name, 'still-proved' if not bad else 'ALARM', '; '.join(b[:120] for b in bad[:3])
    finally:
        shutil.rmtree(tmp, ignore_errors=True)


if __name__ == '__main__':
    sel = sys.argv[1] if len(sys.argv) > 1 else ''
    names = sorted(n for n in KEY if sel in n)
    with ThreadPoolExecutor(4) as ex:
        res = list(ex.map(one, names))
    for n, s, why in res:
        print('%-8s %-28s %-12s %s' % (n, KEY[n].split('::')[-1], s, why))
    json.dump([dict(name=n, function=KEY[n], verdict=s, detail=why) for n, s, why in res],
              open(os.path.join(D, 'result.json'), 'w'), indent=1)
