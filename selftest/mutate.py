"""Apply a textual mutation to a scratch copy of /repo's biom package and run the
prover on one contract: a sound engine + strong contract must fail a named
obligation.  usage: [IN='def name'] mutate.py <contract-substring> <file> <old> <new>
(IN: the first occurrence of <old> after that text is replaced instead of the first one in the file)"""
import os, shutil, subprocess, sys, tempfile
key, rel, old, new = sys.argv[1:5]
tmp = tempfile.mkdtemp(prefix='pyvc_mut_')
try:
    shutil.copytree('/repo/biom', os.path.join(tmp, 'biom'), ignore=shutil.ignore_patterns('*.so', '*.c', 'tests', '__pycache__'))
    p = os.path.join(tmp, rel)
    s = open(p).read()
    assert s.count(old) >= 1, 'pattern not found'
    at = s.index(os.environ['IN']) if os.environ.get('IN') else 0
    open(p, 'w').write(s[:at] + s[at:].replace(old, new, 1))
    env = dict(os.environ, VERIF_REPO=tmp, BUDGET=os.environ.get('BUDGET', '5'))
    r = subprocess.run([sys.executable, '-m', 'pyvc.prove', key], env=env, capture_output=True, text=True, cwd='/verif')
    bad = [l for l in r.stdout.split('\n') if l.strip().startswith(('FAIL', '???', 'ERROR'))]
    print('\n'.join(bad) if bad else 'SURVIVED (no obligation failed)')
    if r.returncode: print(r.stderr[-1500:])
finally:
    shutil.rmtree(tmp)
