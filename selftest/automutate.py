"""Mutation self-test of the deductive tier (DESIGN.md 7 "seeded breakage").

For every function under a discharged contract, small textual mutants of its body are generated (comparison
operators, +-1 offsets, and/or, negated conditions, boolean constants, axis literals, deleted simple statements).
Each mutant lives in a scratch copy of biom/ outside /repo and /verif; the prover is run on that one contract
(z3 only, short budget).  A mutant is *killed* when a named obligation is not discharged or the engine refuses the
function; a *survivor* is listed for review: it is either an equivalent mutant or a hole in the contract.

usage: automutate.py [--max N] [--only <substring>] [--jobs J] [--repo DIR]
"""
import argparse
import ast
import json
import multiprocessing as mp
import os
import re
import shutil
import subprocess
import sys
import tempfile

HERE = os.path.dirname(os.path.dirname(os.path.abspath(__file__)))
sys.path.insert(0, HERE)

SWAPS = [(r'(?<![<>=!])<=(?!=)', '<'), (r'(?<![<>=!-])<(?![<=])', '<='), (r'(?<![<>=!])>=(?!=)', '>'),
         (r'(?<![<>=!-])>(?![>=])', '>='), (r'==', '!='), (r'!=', '=='), (r'\band\b', 'or'), (r'\bor\b', 'and'),
         (r'\bnot ', ''), (r'\bTrue\b', 'False'), (r'\bFalse\b', 'True'), (r'\+ 1\b', '+ 2'), (r'\+ 1\b', ''),
         (r'- 1\b', ''), (r'\+= ', '-= '), (r'-= ', '+= '), (r"'sample'", "'observation'"), (r"'observation'", "'sample'"),
         (r"'csr'", "'csc'"), (r"'csc'", "'csr'"), (r'\b0\b', '1'), (r'\b1\b', '0'), (r'\bis not None\b', 'is None'),
         (r'\bis None\b', 'is not None'), (r'\bnot in\b', 'in'), (r'(?<!not )\bin\b(?! range)', 'not in')]


def function_lines(path, qualname, is_pyx):
    """(first body line index, last line index) 0-based inclusive, of the function in the file"""
    src = open(path).read()
    if is_pyx:
        from pyvc import source
        os.environ.setdefault('VERIF_REPO', '/repo')
        tree = ast.parse(source.extract_pyx.__globals__['Extracted'] and _extract_text(path))
    else:
        tree = ast.parse(src)
    from pyvc.source import find_function
    fn = find_function(tree, qualname)
    if fn is None:
        return None
    body0 = fn.body[0]
    start = body0.lineno - 1
    if isinstance(body0, ast.Expr) and isinstance(getattr(body0, 'value', None), ast.Constant) and isinstance(body0.value.value, str):
        start = (fn.body[1].lineno - 1) if len(fn.body) > 1 else body0.end_lineno
    return start, fn.end_lineno - 1


def _extract_text(path):
    from pyvc import source
    rel = os.path.relpath(path, source.REPO)
    return source.extract_pyx(rel).source


def mutants_of(lines, lo, hi):
    out = []
    for i in range(lo, hi + 1):
        line = lines[i]
        code = line.split('#')[0]
        if not code.strip() or code.strip().startswith(('"""', "'''", 'cdef ', 'def ', 'raise ', 'return "', "return '")):
            continue
        if '"' in code and '%' in code:      # message formatting
            continue
        if re.search(r'cnp\.|Py_ssize_t|^\s*cdef\b', code):   # C declarations are dropped by the extractor
            continue
        for pat, rep in SWAPS:
            for m in re.finditer(pat, code):
                new = code[:m.start()] + rep + code[m.end():]
                if new != code:
                    out.append((i, new + line[len(code):], '%s -> %s' % (m.group(0), rep or '(deleted)')))
        st = code.strip()
        # delete a simple statement
        if re.match(r'^[\w\.\[\]\s,\-\+\*:]+(\s*[\+\-]?=\s*|\()', st) and not st.endswith((':', ',', '(', '\\')) \
                and not st.startswith(('if ', 'elif ', 'else', 'for ', 'while ', 'try', 'except', 'finally', 'with ', 'return', 'yield')) \
                and code.count('(') == code.count(')') and code.count('[') == code.count(']'):
            ind = len(code) - len(code.lstrip())
            out.append((i, ' ' * ind + 'pass', 'delete: ' + st[:50]))
    return out


def run_one(job):
    key, rel, qual, lineno, newline, what, repo = job
    tmp = tempfile.mkdtemp(prefix='pyvc_am_')
    try:
        shutil.copytree(os.path.join(repo, 'biom'), os.path.join(tmp, 'biom'),
                        ignore=shutil.ignore_patterns('*.so', '*.c', 'tests', '__pycache__'))
        p = os.path.join(tmp, rel)
        lines = open(p).read().split('\n')
        old = lines[lineno]
        lines[lineno] = newline
        open(p, 'w').write('\n'.join(lines))
        # must still be valid python / extractable
        try:
            if rel.endswith('.pyx'):
                os.environ['VERIF_REPO'] = tmp
            else:
                ast.parse('\n'.join(lines))
        except SyntaxError:
            return (key, lineno + 1, what, 'invalid', '')
        env = dict(os.environ, VERIF_REPO=tmp, BUDGET='3', PYVC_NO_PORTFOLIO='1', PYVC_PROCS='1')
        r = subprocess.run([sys.executable, '-m', 'pyvc.prove', key], env=env, capture_output=True, text=True,
                           cwd=HERE, timeout=600)
        bad = [l.strip() for l in r.stdout.split('\n') if l.strip().startswith(('FAIL', '???', 'ERROR'))]
        if r.returncode != 0 and not bad:
            bad = ['CRASH ' + (r.stderr.strip().split('\n') or [''])[-1][:120]]
        return (key, lineno + 1, what + '   | ' + old.strip()[:60], 'killed' if bad else 'SURVIVED', bad[0][:110] if bad else '')
    except subprocess.TimeoutExpired:
        return (key, lineno + 1, what, 'killed', 'timeout')
    finally:
        shutil.rmtree(tmp, ignore_errors=True)


def main():
    ap = argparse.ArgumentParser()
    ap.add_argument('--max', type=int, default=12, help='mutants per function (evenly spread)')
    ap.add_argument('--only', default='')
    ap.add_argument('--jobs', type=int, default=14)
    ap.add_argument('--repo', default=os.environ.get('VERIF_REPO', '/repo'))
    ap.add_argument('--out', default=os.path.join(HERE, 'selftest', 'automutate_result.json'))
    args = ap.parse_args()
    os.environ['VERIF_REPO'] = args.repo
    from pyvc import prove, source
    source.REPO = args.repo
    prove.load_contracts()
    jobs = []
    for key, c in sorted(prove.REGISTRY.items()):
        if c.inline or c.kind == 'assumed' or args.only not in key:
            continue
        path = os.path.join(args.repo, c.rel)
        try:
            rng = function_lines(path, c.qualname, c.rel.endswith('.pyx'))
        except Exception as e:
            print('skip', key, e)
            continue
        if rng is None:
            continue
        lines = open(path).read().split('\n')
        ms = mutants_of(lines, rng[0], rng[1])
        if len(ms) > args.max:
            step = len(ms) / float(args.max)
            ms = [ms[int(k * step)] for k in range(args.max)]
        for (i, newline, what) in ms:
            jobs.append((key, c.rel, c.qualname, i, newline, what, args.repo))
    print('%d mutants over %d functions' % (len(jobs), len(set(j[0] for j in jobs))))
    with mp.get_context('fork').Pool(args.jobs) as pool:
        res = pool.map(run_one, jobs, chunksize=1)
    by = {}
    for key, line, what, status, first in res:
        by.setdefault(key, []).append({'line': line, 'mutation': what, 'status': status, 'first_failed': first})
    killed = sum(1 for r in res if r[3] == 'killed')
    surv = [r for r in res if r[3] == 'SURVIVED']
    inval = sum(1 for r in res if r[3] == 'invalid')
    print('killed %d, survived %d, invalid %d' % (killed, len(surv), inval))
    for key, line, what, status, first in surv:
        print('  SURVIVED %-55s L%d  %s' % (key.split('::')[1], line, what))
    json.dump({'killed': killed, 'survived': len(surv), 'invalid': inval, 'by_function': by}, open(args.out, 'w'), indent=1)


if __name__ == '__main__':
    main()
