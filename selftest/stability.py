"""Stability report of the deductive tier: wall time, slowest queries, and how many queries needed anything but the
default solver configuration (should be 0: a query that needs the portfolio is an unstable one)."""
import os, sys, time
sys.path.insert(0, os.path.dirname(os.path.dirname(os.path.abspath(__file__))))
from pyvc import prove
prove.load_contracts()
keys = [k for k, c in prove.REGISTRY.items() if not c.inline and c.kind != 'assumed']
t0 = time.time()
res = prove.prove_contracts(keys, budget_s=10)
rows, bad = [], []
for k in keys:
    if res[k]['error']:
        bad.append((k, res[k]['error'][:100]))
    for o in res[k]['obligations']:
        rows.append((o['secs'], o['status'], o['solver'], o['inst'].split('::')[-1]))
        if o['status'] != 'proved':
            bad.append((o['inst'], o['status']))
rows.sort(reverse=True)
print('contracts %d, query instances %d, wall %.1f s' % (len(keys), len(rows), time.time() - t0))
for r in rows[:8]:
    print('  %.2f s %s %s %s' % r)
print('not proved / errors:', bad[:10])
print('queries that needed a non-default solver:', sum(1 for r in rows if r[2] not in ('z3-5.1.0', 'syntactic')))
sys.exit(1 if bad else 0)
