"""seeded/README.md: one line per kept seeded change, from its meta.json (written by selftest/seeded_eval_deductive.sh)."""
import glob, json, os, re
HERE = os.path.dirname(os.path.dirname(os.path.abspath(__file__)))
rows = []
for f in sorted(glob.glob(os.path.join(HERE, 'seeded', 'C*_*', 'meta.json'))):
    d = os.path.dirname(f)
    m = json.load(open(f))
    patch = open(os.path.join(d, 'patch.diff')).read()
    files = sorted(set(re.findall(r'^\+\+\+ b/(\S+)', patch, re.M)))
    funcs = sorted(set(x.strip().split('(')[0].replace('def ', '') for x in re.findall(r'^@@.*@@\s*(def \w+|class \w+)', patch, re.M)))
    da = m.get('deductive_tier_alone') or {}
    if da.get('exit') == 1 and da.get('first'):
        ded = 'obligation `%s`' % re.sub(r'^obligation=\S*::', '', da['first'][0].split(' ')[0])
    elif da.get('exit') == 3:
        ded = 'refuses the changed function (exit 3)'
    elif da.get('exit') == 0 and da.get('violations') == 0 and 'exit' in da:
        ded = 'no contract on the changed code'
    else:
        ded = 'n/a'
    fo = (m.get('first_obligations') or {}).get(m['property'], [])
    first = re.sub(r'^obligation=', '', fo[0].split(' class=')[0]) if fo else ''
    rows.append((os.path.basename(d), ', '.join(files), 'yes' if m.get('valid_seed') else 'NO',
                 ', '.join(m.get('caught_by_quick_checks') or []) or 'NOTHING', first[:70], ded))
with open(os.path.join(HERE, 'seeded', 'README.md'), 'w') as fh:
    fh.write('# Seeded property-breaking changes\n\nEvery directory holds `patch.diff` (apply with `git -C /repo apply`), `demo.py` (exit 1 with the change, 0 '
             'without), `notes.md` (what the author says it breaks and needs) and `meta.json` (what was run and observed).  `_1`, `_2`: first '
             'round (five fresh sub-agents, property text only); `_3`..: second round (three fresh sub-agents, property text + method names).  '
             'Regenerate with `selftest/seeded_eval_deductive.sh seeded/C*` and `selftest/seeded_table.py`.\n\n'
             '| change | files | valid | quick check that reports it | first obligation reported | deductive tier on its own |\n|---|---|---|---|---|---|\n')
    for r in rows:
        fh.write('| %s | %s | %s | %s | `%s` | %s |\n' % r)
    n = len(rows)
    fh.write('\n%d changes, %d valid, %d caught by the quick check of their property; deductive tier alone: %d named obligation, %d refusal, %d without a contract on the changed code.\n'
             % (n, sum(r[2] == 'yes' for r in rows), sum(r[3] != 'NOTHING' for r in rows),
                sum(r[5].startswith('obligation') for r in rows), sum(r[5].startswith('refuses') for r in rows),
                sum(r[5].startswith('no contract') for r in rows)))
print(open(os.path.join(HERE, 'seeded', 'README.md')).read()[-400:])
