"""Regenerates MANIFEST.json from props/registry.py (single source of truth)."""
import json, os, sys
sys.path.insert(0, os.path.dirname(os.path.abspath(__file__)))
from props.registry import CHECKS, NOT_APPLICABLE

BASE = json.load(open('/root/.vp/BASELINE.json'))['cmd'].replace('--junitxml=<file>', '').strip()
m = {
 "version": 1,
 "setup_cmd": "bash setup.sh",
 "hooks": {
  "guard": "BIOCORE_BIOM_FORMAT_VERIF",
  "enable": "no source hooks: contracts are sidecars in /verif/contracts, run-time wrappers live in the check process only",
  "baseline_off_cmd": BASE,
  "source_commits": [],
  "add_only": True
 },
 "engines": [
  {"name": "pyvc", "path": "pyvc/", "serves_properties": sorted(CHECKS),
   "kind_free_text": "contract-based deductive verification: AST->SMT verification-condition generator over the real /repo source (z3 5.1 / z3 4.8 / cvc5 portfolio) with sidecar contracts; the same contracts evaluated at run time over enumerated small Inv-states as the bounded stand-in"}
 ],
 "checks": [],
 "notes": "See DESIGN.md. Exit codes: 0 held, 1 violation (VIOLATION line), 3 checker broken/undecided.",
 "not_applicable": [{"property_id": k, "reason": v} for k, v in sorted(NOT_APPLICABLE.items())]
}
for pid in sorted(CHECKS):
    c = CHECKS[pid]
    m["checks"].append({
     "property_id": pid,
     "quick_cmd": "./check %s --tier quick" % pid,
     "thorough_cmd": "./check %s --tier thorough" % pid,
     "evidence_file": "evidence/%s.json" % pid,
     "replay_cmd_template": "./check %s --replay {path}" % pid,
     "engine": "pyvc",
     "level_claimed": {"category": c['level'], "text": c['text'], "design_ref": c.get('design_ref', 'DESIGN.md 8/' + pid)},
     "level_note": c['note'],
     "technique": c['technique'],
    })
json.dump(m, open('MANIFEST.json', 'w'), indent=1)
import jsonschema
jsonschema.validate(m, json.load(open('/root/.vp/MANIFEST.schema.json')))
print('MANIFEST.json ok: %d checks, %d not applicable' % (len(m['checks']), len(m['not_applicable'])))
