"""Contracts for the input converters behind Table(...) (C17): coo_arrays_to_sparse, dict_to_sparse (biom/table.py),
Tier A over an assumed contract of scipy.sparse.coo_matrix.

`dict_to_sparse` is the route of a coordinate dict {(row, col): value}: its loop fills three parallel lists, which
`coo_arrays_to_sparse` hands to scipy.  The statements proved: every key of the dict ends up in *its* cell, every cell
without a key is zero, the shape is the one asked for (or max index + 1 per axis), no stored zero survives, and the
layout is csr.

The dict with tuple keys is a Dict node whose key sort is a z3 datatype `IJ` (pair of integers); `(r, c)` in code and
specs converts to / from it.
"""
import ast

import z3

from pyvc import smt
from pyvc.prove import contract
from pyvc.world import ASSUMED, VArrT
from pyvc.values import (SV, VStr, VTuple, VFn, VBool, VInt, VReal, NONE, Obj, Dict, Arr, EngineError, fresh)
from pyvc.engine import Result, to_int, to_real
from pyvc.smt import I, B, R, Str
from contracts.table_methods import TableWorld, CELL

F = 'biom/table.py'

ASSUMED['sp.coo_matrix'] = (
    'scipy: coo_matrix((vals, (rows, cols)), shape=(m, n)) raises ValueError unless the three sequences have one length, '
    'every rows[k] is in [0, m) and every cols[k] in [0, n); otherwise it is an m x n matrix in which a cell that no '
    '(rows[k], cols[k]) names is zero and a cell named by exactly one k holds vals[k] (cells named several times hold '
    'the sum - not used); tocsr() keeps the cells')

IJ = z3.Datatype('IJ')
IJ.declare('ij', ('fst', I), ('snd', I))
IJ = IJ.create()


class VIJ(SV):
    """a tuple (int, int) used as a dict key"""
    kind = 'ij'

    def __init__(self, term):
        self.term = term

    def sv_unpack(self, eng, st, n):
        if n != 2:
            return [(st, None, eng.exc(st, 'ValueError'))]
        return [(st, [VInt(IJ.fst(self.term)), VInt(IJ.snd(self.term))], None)]

    def sv_index_pure(self, eng, st, idx):
        t = z3.simplify(to_int(idx))
        if z3.is_int_value(t) and t.as_long() in (0, 1):
            return VInt((IJ.fst if t.as_long() == 0 else IJ.snd)(self.term))
        raise EngineError('index into a coordinate pair')

    def sv_index(self, eng, st, idx, node):
        t = z3.simplify(to_int(idx))
        if z3.is_int_value(t) and t.as_long() in (0, 1):
            return [Result(st, VInt((IJ.fst if t.as_long() == 0 else IJ.snd)(self.term)))]
        raise EngineError('index into a coordinate pair')


def _ij_unwrap(eng, v):
    if v.kind == 'ij':
        return v.term
    if v.kind == 'tuple' and len(v.items) == 2:
        return IJ.ij(to_int(v.items[0]), to_int(v.items[1]))
    raise EngineError('cannot use %s as a coordinate key' % v.kind)


TableWorld.extra_sorts = dict(getattr(TableWorld, 'extra_sorts', {}), ij=(IJ, VIJ, _ij_unwrap))


def _seq3(st, v):
    """(vals, (rows, cols)) -> three Arr nodes, or None"""
    if v.kind != 'tuple' or len(v.items) != 2 or v.items[1].kind != 'tuple' or len(v.items[1].items) != 2:
        return None
    refs = [v.items[0], v.items[1].items[0], v.items[1].items[1]]
    if not all(r.kind == 'ref' and isinstance(st.node(r), Arr) for r in refs):
        return None
    return [st.node(r) for r in refs]


def _sc_builtin(self, eng, st, name, args, kwargs, node, starv=None, dstar=None):
    short = name.split('.')[-1]
    if short == 'coo_matrix' and len(args) == 1 and _seq3(st, args[0]) is not None and 'shape' in kwargs:
        self.used.add('sp.coo_matrix')
        vals, rows, cols = _seq3(st, args[0])
        sh = kwargs['shape']
        if sh.kind != 'tuple' or len(sh.items) != 2:
            raise EngineError('%s:%d: coo_matrix shape' % (eng.rel, node.lineno))
        m, n = to_int(sh.items[0]), to_int(sh.items[1])
        k, k2, i, j = fresh('k', I), fresh('k2', I), fresh('i', I), fresh('j', I)
        L = rows.n
        inrange = z3.And(vals.n == L, cols.n == L, m >= 0, n >= 0,
                         z3.ForAll([k], z3.Implies(z3.And(0 <= k, k < L),
                                                   z3.And(0 <= rows.a[k], rows.a[k] < m, 0 <= cols.a[k], cols.a[k] < n)),
                                   patterns=[rows.a[k]]))
        out = []
        yes, no = eng.fork(st, inrange)
        for s in no:
            out.append(eng.exc(s, 'ValueError'))
        for s in yes:
            s = s.copy()
            ref = self.make_sp(eng, s, 'coo', fmt=VStr('coo'), _shape=VTuple([VInt(m), VInt(n)]), sorted=VBool(False))
            cell = s.node(ref).fields['cell'].term
            va = vals.a
            rv = (lambda t: t) if vals.elem == 'real' else z3.ToReal
            if vals.elem not in ('real', 'int'):
                raise EngineError('coo_matrix values of kind %s' % vals.elem)
            s.assume(
                # a cell that no entry names is zero
                z3.ForAll([i, j], z3.Implies(
                    z3.ForAll([k], z3.Implies(z3.And(0 <= k, k < L), z3.Not(z3.And(rows.a[k] == i, cols.a[k] == j))),
                              patterns=[rows.a[k]]),
                    cell[i][j] == 0), patterns=[cell[i][j]]),
                # a cell named by exactly one entry holds that entry's value
                z3.ForAll([k], z3.Implies(
                    z3.And(0 <= k, k < L,
                           z3.ForAll([k2], z3.Implies(z3.And(0 <= k2, k2 < L, k2 != k),
                                                      z3.Not(z3.And(rows.a[k2] == rows.a[k], cols.a[k2] == cols.a[k]))),
                                     patterns=[rows.a[k2]])),
                    cell[rows.a[k]][cols.a[k]] == rv(va[k])), patterns=[rows.a[k]]),
                tag='fact/coo_matrix')
            out.append(Result(s, ref))
        return out
    if name == 'zip' and not args and not kwargs and starv is not None and starv.kind == 'arrT' and len(starv.kinds) == 3:
        # zip(*data) of a sequence of triples: nothing for an empty sequence, otherwise its three columns as tuples
        out = []
        yes, no = eng.fork(st, starv.n > 0)
        for s in no:
            out.append(Result(s, VTuple([])))
        for s in yes:
            s = s.copy()
            out.append(Result(s, VTuple([s.alloc(Arr(kd, a, starv.n, 'tuple')) for kd, a in zip(starv.kinds, starv.arrays)])))
        return out
    if name == 'operator.itemgetter' and len(args) == 1 and not kwargs:
        t = z3.simplify(to_int(args[0]))
        if z3.is_int_value(t) and t.as_long() in (0, 1):
            return [Result(st, VFn('builtin', name='itemgetter#%d' % t.as_long()))]
    if name == 'max' and len(args) == 1 and args[0].kind == 'dictkeys' and set(kwargs) == {'key'} \
            and kwargs['key'].kind == 'fn' and getattr(kwargs['key'], 'name', '').startswith('itemgetter#') \
            and st.node(args[0].ref).kkind == 'ij':
        # max(d.keys(), key=itemgetter(c)) of a dict with coordinate keys: a key whose component c bounds that of every
        # key; ValueError for an empty dict (Python's semantics of max with a key function)
        sel = IJ.fst if kwargs['key'].name.endswith('0') else IJ.snd
        st = st.copy()
        _, keys, nkeys = self.dict_order(eng, st, args[0].ref)
        n = st.node(args[0].ref)
        out = []
        yes, no = eng.fork(st, nkeys > 0)
        for s in no:
            out.append(eng.exc(s, 'ValueError'))
        for s in yes:
            s = s.copy()
            km, k = fresh('kmax', IJ), fresh('k', IJ)
            s.assume(n.dom[km], z3.ForAll([k], z3.Implies(n.dom[k], sel(k) <= sel(km)), patterns=[n.dom[k]]))
            out.append(Result(s, VIJ(km)))
        return out
    return _orig_builtin_sc(self, eng, st, name, args, kwargs, node, starv, dstar)


def _sc_make_input(self, eng, st, name, ty):
    if ty == 'Triples':
        # a list of [row, col, value] entries, held by value as three parallel columns
        n = fresh(name + '_len', I)
        st.assume(n >= 0)
        return VArrT(['int', 'int', 'real'], [fresh(name + '_r', z3.ArraySort(I, I)), fresh(name + '_c', z3.ArraySort(I, I)),
                                              fresh(name + '_v', z3.ArraySort(I, R))], n)
    return _orig_make_input_sc(self, eng, st, name, ty)


def _arrT_index_pure(self, eng, st, idx):
    return VTuple([eng.wrap(kd, a[to_int(idx)]) for kd, a in zip(self.kinds, self.arrays)])


VArrT.sv_index_pure = _arrT_index_pure
_orig_make_input_sc = TableWorld.make_input
TableWorld.make_input = _sc_make_input
_orig_builtin_sc = TableWorld.call_builtin
TableWorld.call_builtin = _sc_builtin

ROWS, COLS, VALS = 'data[1][0]', 'data[1][1]', 'data[0]'
contract(F, 'coo_arrays_to_sparse', tier='A', props=['C17'],
    types={'data': 'Pair[List[Real],Pair[List[Int],List[Int]]]', 'dtype': 'Val', 'shape': 'Opt[Pair[Int,Int]]'},
    returns='SP',
    ensures=[
        # a compressed-row matrix without stored zeros
        "result.fmt == 'csr' and not result.haszeros",
        # of the shape asked for, or (largest index + 1) per axis
        "implies(not isnone(shape), result.shape[0] == shape[0] and result.shape[1] == shape[1])",
        "implies(isnone(shape), all(%s[k] < result.shape[0] and %s[k] < result.shape[1] for k in range(len(%s))) "
        "        and any(%s[k] + 1 == result.shape[0] for k in range(len(%s))) "
        "        and any(%s[k] + 1 == result.shape[1] for k in range(len(%s))))" % (ROWS, COLS, ROWS, ROWS, ROWS, COLS, COLS),
        # every coordinate lies inside it
        "len(%s) == len(%s) and len(%s) == len(%s)" % (ROWS, COLS, VALS, ROWS),
        "all(0 <= %s[k] and %s[k] < result.shape[0] and 0 <= %s[k] and %s[k] < result.shape[1] for k in range(len(%s)))"
        % (ROWS, ROWS, COLS, COLS, ROWS),
        # a cell that no coordinate names is zero; a cell named once holds the value given for it
        "all(implies(all(not (%s[k] == i and %s[k] == j) for k in range(len(%s))), cell(result, i, j) == 0) "
        "    for i in range(result.shape[0]) for j in range(result.shape[1]))" % (ROWS, COLS, ROWS),
        "all(implies(all(implies(k2 != k, not (%s[k2] == %s[k] and %s[k2] == %s[k])) for k2 in range(len(%s))), "
        "            cell(result, %s[k], %s[k]) == %s[k]) for k in range(len(%s)))"
        % (ROWS, ROWS, COLS, COLS, ROWS, ROWS, COLS, VALS, ROWS),
    ],
    # refused only for: nothing to take a maximum of, sequences of different lengths, a negative index, an index
    # outside the shape that was asked for
    raises={'ValueError': [
        "(isnone(shape) and (len(%s) == 0 or len(%s) == 0)) or len(%s) != len(%s) or len(%s) != len(%s) "
        "or any(%s[k] < 0 for k in range(len(%s))) or any(%s[k] < 0 for k in range(len(%s))) "
        "or (not isnone(shape) and (shape[0] < 0 or shape[1] < 0 or any(%s[k] >= shape[0] for k in range(len(%s))) "
        "                           or any(%s[k] >= shape[1] for k in range(len(%s)))))"
        % (ROWS, COLS, ROWS, COLS, VALS, ROWS, ROWS, ROWS, COLS, COLS, ROWS, ROWS, COLS, COLS)]},
    modifies=[])


_IN = "all(0 <= key[0] and key[0] < result.shape[0] and 0 <= key[1] and key[1] < result.shape[1] for key in data)"
contract(F, 'dict_to_sparse', tier='A', props=['C17'],
    types={'data': 'Dict[ij,Real]', 'dtype': 'Val', 'shape': 'Opt[Pair[Int,Int]]'},
    locals={'rows': 'Arr[Int]', 'cols': 'Arr[Int]', 'vals': 'Arr[Real]'},
    returns='SP',
    ensures=[
        "result.fmt == 'csr' and not result.haszeros",
        # the shape asked for, or (largest coordinate + 1) per axis
        "implies(not isnone(shape), result.shape[0] == shape[0] and result.shape[1] == shape[1])",
        "implies(isnone(shape), any(key[0] + 1 == result.shape[0] for key in data) "
        "        and any(key[1] + 1 == result.shape[1] for key in data))",
        _IN,
        # every entry of the dict is the value of its cell, every other cell is zero
        "all(cell(result, key[0], key[1]) == data[key] for key in data)",
        "all(implies((i, j) not in data, cell(result, i, j) == 0) "
        "    for i in range(result.shape[0]) for j in range(result.shape[1]))",
    ],
    # refused only when there is nothing to take a maximum of, for a negative coordinate, or for a coordinate outside
    # the shape that was asked for
    raises={'ValueError': [
        "(isnone(shape) and len(data) == 0) or any(key[0] < 0 or key[1] < 0 for key in data) "
        "or (not isnone(shape) and (shape[0] < 0 or shape[1] < 0 "
        "                           or any(key[0] >= shape[0] or key[1] >= shape[1] for key in data)))"]},
    modifies=[],
    loops={0: dict(header='for (r, c), v in data.items()', invariant=[
        "len(rows) == __i0 and len(cols) == __i0 and len(vals) == __i0",
        "all(rows[k] == keyat(data, k)[0] and cols[k] == keyat(data, k)[1] and vals[k] == data[keyat(data, k)] "
        "    for k in range(0, __i0))",
    ])})


# the route of coordinate triples [[row, col, value], ...]
_T = "range(len(data))"
contract(F, 'list_list_to_sparse', tier='A', props=['C17'],
    types={'data': 'Triples', 'dtype': 'Val', 'shape': 'Opt[Pair[Int,Int]]'},
    returns='SP',
    ensures=[
        "result.fmt == 'csr' and not result.haszeros",
        "implies(not isnone(shape), result.shape[0] == shape[0] and result.shape[1] == shape[1])",
        "implies(isnone(shape), any(data[k][0] + 1 == result.shape[0] for k in %s) "
        "        and any(data[k][1] + 1 == result.shape[1] for k in %s))" % (_T, _T),
        "all(0 <= data[k][0] and data[k][0] < result.shape[0] and 0 <= data[k][1] and data[k][1] < result.shape[1] for k in %s)" % _T,
        # a cell that no triple names is zero; a cell named by one triple holds its value
        "all(implies(all(not (data[k][0] == i and data[k][1] == j) for k in %s), cell(result, i, j) == 0) "
        "    for i in range(result.shape[0]) for j in range(result.shape[1]))" % _T,
        "all(implies(all(implies(k2 != k, not (data[k2][0] == data[k][0] and data[k2][1] == data[k][1])) for k2 in %s), "
        "            cell(result, data[k][0], data[k][1]) == data[k][2]) for k in %s)" % (_T, _T),
    ],
    raises={'ValueError': [
        "len(data) == 0 or any(data[k][0] < 0 or data[k][1] < 0 for k in %s) "
        "or (not isnone(shape) and (shape[0] < 0 or shape[1] < 0 "
        "                           or any(data[k][0] >= shape[0] or data[k][1] >= shape[1] for k in %s)))" % (_T, _T)]},
    modifies=[])
