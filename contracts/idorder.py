"""Contracts for the merge helpers Table._union_id_order / _intersect_id_order (C09), Tier P.

The dict the helpers build is modelled with its insertion order (keys[i] / pos[k]); the value stored for a key is its
insertion position, so "the values are a bijection onto 0..len-1" is the well-formedness of that order.
"""
from pyvc.prove import contract

F = 'biom/table.py'
S = "at('loop0', all_ids)"

contract(F, 'Table._union_id_order', tier='P', props=['C09'],
    types={'self': 'Val', 'a': 'Arr[Str]', 'b': 'Arr[Str]'},
    locals={'new_order': 'ODict[Str,Int]'},
    returns='Dict[Str,Int]',
    ensures=[
        # exactly the union of the two id lists ...
        "all(a[t] in result for t in range(len(a))) and all(b[t] in result for t in range(len(b)))",
        "all(any(a[t] == k for t in range(len(a))) or any(b[t] == k for t in range(len(b))) for k in result)",
        # ... numbered 0 .. len-1 without gaps or repeats
        "all(0 <= result[k] and result[k] < len(result) and keyat(result, result[k]) == k for k in result)",
        "all(keyat(result, v) in result and result[keyat(result, v)] == v for v in range(len(result)))",
        # in order of first occurrence in a followed by b
        "all(implies(all(a[u] != a[t2] for u in range(0, t2)), result[a[t1]] < result[a[t2]]) "
        "    for t2 in range(len(a)) for t1 in range(0, t2))",
        "all(implies(all(a[u] != b[t2] for u in range(len(a))) and all(b[u] != b[t2] for u in range(0, t2)), "
        "            all(result[a[t1]] < result[b[t2]] for t1 in range(len(a)))) for t2 in range(len(b)))",
    ],
    modifies=[],
    loops={0: dict(header='for id_ in all_ids', lemmas=[
        # all_ids is a followed by b (stated with the triggers the postconditions need)
        {'fact': "len(all_ids) == len(a) + len(b)", 'name': 'concat-len'},
        {'fact': "all(all_ids[t] == a[t] for t in range(len(a)) if trig(a[t]))", 'name': 'concat-a'},
        {'fact': "all(all_ids[len(a) + t] == b[t] for t in range(len(b)) if trig(b[t]))", 'name': 'concat-b'},
    ], invariant=[
        "idx == len(new_order)",
        "all(%s[t] in new_order for t in range(0, __i0))" % S,
        "all(any(%s[t] == k for t in range(0, __i0)) for k in new_order)" % S,
        "all(new_order[k] == posof(new_order, k) for k in new_order)",
        "all(implies(all(%s[u] != %s[t2] for u in range(0, t2)), new_order[%s[t1]] < new_order[%s[t2]]) "
        "    for t2 in range(0, __i0) for t1 in range(0, t2))" % (S, S, S, S),
    ])})

contract(F, 'Table._intersect_id_order', tier='P', props=['C09'],
    types={'self': 'Val', 'a': 'Arr[Str]', 'b': 'Arr[Str]'},
    locals={'new_order': 'ODict[Str,Int]'},
    # ids of one axis of a table are pairwise distinct (representation invariant)
    requires=["all(implies(p < q, a[p] != a[q]) for p in range(len(a)) for q in range(len(a)))"],
    returns='Dict[Str,Int]',
    ensures=[
        # exactly the ids of a that also occur in b ...
        "all(implies(a[t] in b, a[t] in result) for t in range(len(a)))",
        "all(k in b and any(a[t] == k for t in range(len(a))) for k in result)",
        # ... numbered 0 .. len-1 without gaps or repeats, in the order of a
        "all(0 <= result[k] and result[k] < len(result) and keyat(result, result[k]) == k for k in result)",
        "all(keyat(result, v) in result and result[keyat(result, v)] == v for v in range(len(result)))",
        "all(implies(a[t1] in result and a[t2] in result, result[a[t1]] < result[a[t2]]) "
        "    for t2 in range(len(a)) for t1 in range(0, t2))",
    ],
    modifies=[],
    loops={0: dict(header='for id_ in a', invariant=[
        "idx == len(new_order)",
        "all(implies(a[t] in b, a[t] in new_order) for t in range(0, __i0))",
        "all(k in b and any(a[t] == k for t in range(0, __i0)) for k in new_order)",
        "all(new_order[k] == posof(new_order, k) for k in new_order)",
        "all(implies(a[t1] in new_order and a[t2] in new_order, new_order[a[t1]] < new_order[a[t2]]) "
        "    for t2 in range(0, __i0) for t1 in range(0, t2))",
    ])})
