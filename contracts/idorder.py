"""Contracts for the merge helpers Table._union_id_order / _intersect_id_order and biom.util.prefer_self (C09), Tier P."""
from pyvc.prove import contract

F = 'biom/table.py'
S, i = '__seq0', '__i0'

BIJ = [
    # the values are a bijection onto [0, size): distinct, in range, and every position is taken
    "all(implies(k1 in {d} and k2 in {d} and k1 != k2, {d}[k1] != {d}[k2]) for k1 in strs() for k2 in strs())",
    "all(implies(k in {d}, 0 <= {d}[k] and {d}[k] < {n}) for k in strs())",
    "all(any(({s}[t] in {d}) and {d}[{s}[t]] == v for t in range(0, {hi})) for v in range(0, {n}))",
]

contract(F, 'Table._union_id_order', tier='P', props=['C09'],
    types={'self': 'Val', 'a': 'Arr[Str]', 'b': 'Arr[Str]'},
    locals={'new_order': 'Dict[Str,Int]'},
    returns=None,
    ensures=[
        # exactly the union of the two id lists ...
        "all((k in result) == ((k in a) or (k in b)) for k in strs())",
    ],
    modifies=[],
    loops={0: dict(header='for id_ in all_ids', invariant=[
        "all((k in new_order) == any(%s[t] == k for t in range(0, %s)) for k in strs())" % (S, i),
        "0 <= idx and idx <= %s" % i,
    ] + [x.format(d='new_order', n='idx', s=S, hi=i) for x in BIJ])})
