"""Contracts for biom/_filter.pyx (C08; carried into C05, C07, C11, C12, C14)."""
from pyvc.prove import contract

F = 'biom/_filter.pyx'

# well-formed compressed matrix, row-major reading (CSR); two-variable monotonicity
WF = [
    "arr.shape[0] >= 0 and arr.shape[1] >= 0",
    "len(arr.indptr) == arr.shape[0] + 1",
    "arr.indptr[0] == 0",
    "all(arr.indptr[a] <= arr.indptr[b] for a in range(0, arr.shape[0] + 1) for b in range(a, arr.shape[0] + 1))",
    "arr.indptr[arr.shape[0]] <= len(arr.data)",
    "len(arr.data) == len(arr.indices)",
]

RANK = {
    'rank': dict(args=['int'], ret='int', axioms=[
        "rank(0) == 0",
        "all(rank(r + 1) == rank(r) + (1 if booleans[r] != 0 else 0) for r in ints() if r >= 0 if trig(booleans[r]))",
    ]),
    'knz': dict(args=['int'], ret='int', axioms=[
        "knz(0) == 0",
        "all(knz(r + 1) == knz(r) + ((old(arr.indptr)[r + 1] - old(arr.indptr)[r]) if booleans[r] != 0 else 0)"
        "    for r in ints() if r >= 0 if trig(booleans[r]))",
    ]),
}

OI = "at('loop0', indptr)"      # contents at function entry (loop 0 is entered before any write)
OD = "at('loop0', data)"
OX = "at('loop0', indices)"

# entries of a kept row r, addressed by their *new* absolute position p
KEPT_ENTRIES = ("all(implies(booleans[r] != 0 and knz(r) <= p and p < knz(r + 1),"
                "            {d}[p] == {od}[p + ({oi}[r] - knz(r))] and {x}[p] == {ox}[p + ({oi}[r] - knz(r))])"
                "    for r in range(0, {hi}) for p in ints() if trig(booleans[r], {d}[p]) if trig(booleans[r], {x}[p]))")

contract(F, '_remove_rows_csr', tier='P', props=['C08', 'C05', 'C07'],
    types={'arr': 'CS', 'booleans': 'Arr[Int]'},
    requires=WF + ["len(booleans) == arr.shape[0]"],
    ghost=RANK,
    ensures=[
        "arr.shape[0] == rank(old(arr.shape[0])) and arr.shape[1] == old(arr.shape[1])",
        "len(arr.indptr) == rank(old(arr.shape[0])) + 1",
        "arr.indptr[0] == 0",
        "len(arr.data) == knz(old(arr.shape[0])) and len(arr.indices) == knz(old(arr.shape[0]))",
        # every kept row r lands at position rank(r) with its entries, in order, unchanged
        "all(implies(booleans[r] != 0, arr.indptr[rank(r)] == knz(r) and arr.indptr[rank(r) + 1] == knz(r + 1))"
        "    for r in range(old(arr.shape[0])) if trig(booleans[r]))",
        KEPT_ENTRIES.format(d='arr.data', x='arr.indices', od='old(arr.data)', ox='old(arr.indices)',
                            oi='old(arr.indptr)', hi='old(arr.shape[0])'),
        "0 <= rank(old(arr.shape[0])) and rank(old(arr.shape[0])) <= old(arr.shape[0])",
    ],
    modifies=['arr.indptr[*]', 'arr.indices[*]', 'arr.data[*]', 'arr.indptr', 'arr.indices', 'arr.data', 'arr._shape'],
    loops={
        0: dict(header='for row in range(m)', invariant=[
            "offset_rows == row - rank(row)",
            "nnz == knz(row)",
            "offset == %s[row] - knz(row)" % OI,
            "0 <= rank(row) and rank(row) <= row and 0 <= knz(row) and knz(row) <= %s[row]" % OI,
            "implies(offset_rows == 0, offset == 0)",
            "implies(rank(row) == 0, knz(row) == 0)",
            "len(indptr) == m + 1 and len(data) == len(%s) and len(indices) == len(%s)" % (OD, OX),
            "all(indptr[k] == %s[k] for k in range(row, m + 1))" % OI,
            "indptr[0] == 0",
            "all(implies(booleans[r] != 0, indptr[rank(r)] == knz(r) and indptr[rank(r) + 1] == knz(r + 1)"
            "        and rank(r) < rank(row) and knz(r + 1) <= knz(row) and 0 <= rank(r) and 0 <= knz(r) and knz(r) <= knz(r + 1))"
            "    for r in range(0, row) if trig(booleans[r]))",
            "implies(rank(row) > 0, indptr[rank(row)] == knz(row))",
            KEPT_ENTRIES.format(d='data', x='indices', od=OD, ox=OX, oi=OI, hi='row'),
            "all(implies(k >= %s[row], data[k] == %s[k] and indices[k] == %s[k]) for k in ints())" % (OI, OD, OX),
        ]),
        1: dict(header='for j in range(start, end)', invariant=[
            "all(implies(start - offset <= p and p < j - offset, data[p] == %s[p + offset] and indices[p] == %s[p + offset])"
            "    for p in ints() if trig(data[p]) if trig(indices[p]))" % (OD, OX),
            "all(implies(k >= j, data[k] == %s[k] and indices[k] == %s[k]) for k in ints())" % (OD, OX),
            "all(implies(k < start - offset, data[k] == at('loop1', data)[k] and indices[k] == at('loop1', indices)[k]) for k in ints())",
            "len(data) == len(%s) and len(indices) == len(%s)" % (OD, OX),
        ]),
    })

# ---------------------------------------------------------------------------
# _make_filter_array_general: the predicate is called once per id, in order, with
# the true dense vector.  `cell(i, j)` is the view of the compressed matrix
# (DESIGN.md 4.1), given to the kernel as a ghost function characterised by
# (R1) every stored entry is its cell, (R2) a cell without stored entry is 0
# (Skolemised with the witness position `wit(i, j)`).
# ---------------------------------------------------------------------------
IN_SLICE = "arr.indptr[{i}] <= {p} and {p} < arr.indptr[{i} + 1]"
CELL = {
    'cell': dict(args=['int', 'int'], ret='real', axioms=[
        "all(implies(0 <= i and i < len(ids) and %s, cell(i, arr.indices[p]) == arr.data[p])"
        "    for i in ints() for p in ints() if trig(cell(i, arr.indices[p])) if trig(arr.indptr[i], arr.data[p]))"
        % IN_SLICE.format(i='i', p='p'),
        "all(implies(0 <= i and i < len(ids),"
        "            cell(i, j) == 0 or (%s and arr.indices[wit(i, j)] == j))"
        "    for i in ints() for j in ints() if trig(cell(i, j)))" % IN_SLICE.format(i='i', p='wit(i, j)'),
    ]),
    'wit': dict(args=['int', 'int'], ret='int', axioms=[]),
}

contract(F, '_make_filter_array_general', tier='P', props=['C08'],
    types={'arr': 'CS', 'ids': 'Arr[Str]', 'metadata': 'Tup[Val]', 'func': 'Callback[Arr[Real],Str,Val]->Val',
           'axis': 'Int', 'invert': 'Int'},
    returns='Arr[Int]',
    requires=[
        "0 <= axis and axis <= 1",
        "invert == 0 or invert == 1",
        "arr.shape[0] >= 0 and arr.shape[1] >= 0",
        # the layout matches the axis: the slices are the vectors of `axis`
        "len(arr.indptr) >= len(ids) + 1",
        "len(metadata) >= len(ids)",
        "all(arr.indptr[a] <= arr.indptr[b] for a in range(0, len(ids) + 1) for b in range(a, len(ids) + 1))",
        "arr.indptr[0] >= 0 and arr.indptr[len(ids)] <= len(arr.data) and len(arr.data) == len(arr.indices)",
        # indices in range of the minor dimension, strictly increasing within each slice
        "all(implies(0 <= i and i < len(ids) and %s, 0 <= arr.indices[p] and arr.indices[p] < arr.shape[1 - axis])"
        "    for i in ints() for p in ints() if trig(arr.indptr[i], arr.indices[p]))" % IN_SLICE.format(i='i', p='p'),
        "all(implies(0 <= i and i < len(ids) and arr.indptr[i] <= p and p < q and q < arr.indptr[i + 1],"
        "            arr.indices[p] < arr.indices[q])"
        "    for i in ints() for p in ints() for q in ints() if trig(arr.indptr[i], arr.indices[p], arr.indices[q]))",
    ],
    ghost=CELL,
    ensures=[
        "len(result) == len(ids)",
        "ncalls(func) == len(ids)",
        # once per id, in order, with the complete true vector, its id and its metadata
        "all(len(callarg(func, i, 0)) == arr.shape[1 - axis] for i in range(len(ids)))",
        "all(callarg(func, i, 0)[j] == cell(i, j) for i in range(len(ids)) for j in range(arr.shape[1 - axis]))",
        "all(callarg(func, i, 1) == ids[i] and callarg(func, i, 2) == metadata[i] for i in range(len(ids)))",
        "all(result[i] == (1 if (bool(callret(func, i)) != (invert != 0)) else 0) for i in range(len(ids)))",
    ],
    modifies=[],
    loops={
        0: dict(header='for i in range(len(ids))', invariant=[
            "ncalls(func) == i and len(bools) == len(ids) and len(row_or_col) == n and n == arr.shape[1 - axis]",
            "all(len(callarg(func, k, 0)) == n for k in range(0, i))",
            "all(callarg(func, k, 0)[j] == cell(k, j) for k in range(0, i) for j in range(n))",
            "all(callarg(func, k, 1) == ids[k] and callarg(func, k, 2) == metadata[k] for k in range(0, i))",
            "all(bools[k] == (1 if (bool(callret(func, k)) != (invert != 0)) else 0) for k in range(0, i))",
        ]),
        1: dict(header='for j in range(n)', invariant=[
            "arr.indptr[i] <= start and start <= end and end == arr.indptr[i + 1] and len(row_or_col) == n",
            "all(implies(arr.indptr[i] <= p and p < start, arr.indices[p] < j) for p in ints() if trig(arr.indices[p]))",
            "all(implies(start <= p and p < end, arr.indices[p] >= j) for p in ints() if trig(arr.indices[p]))",
            "all(row_or_col[q] == cell(i, q) for q in range(0, j))",
        ]),
    })

# ---------------------------------------------------------------------------
