"""Contracts for biom/_subsample.pyx (C12), Tier P modulo the listed numpy axioms.

Ghost machinery: psum(A, e) = A[0] + ... + A[e-1] (global definitional axioms); for the sorted draw array p of one
slice, c(x) = number of draws below x, characterised by 0 <= c(x) <= n, p[j] < x for j < c(x), p[j] >= x for
c(x) <= j < n (such a split point exists because p is strictly increasing).
"""
import ast

import z3

from pyvc import smt
from pyvc.prove import contract, world_for
from pyvc.world import World, ASSUMED, CallLog
from pyvc.values import (SV, VRef, VStr, VTuple, VFn, VBool, VInt, VReal, NONE, Obj, Dict, Arr, EngineError, fresh)
from pyvc.engine import Result, to_int, to_real
from pyvc.smt import I, B, R, Str

F = 'biom/_subsample.pyx'
AI = z3.ArraySort(I, I)
AR = z3.ArraySort(I, R)
psum_i = z3.Function('psum_i', AI, I, I)
psum_r = z3.Function('psum_r', AR, I, R)

ASSUMED.update({
    'np.ceil': 'numpy.ceil(a): elementwise; for non-negative integer-valued entries it is the identity; the result is a new array',
    'ndarray.astype(int64)': 'a.astype(numpy.int64) of an array holding integral values yields those integers (new array)',
    'ndarray.sum': 'a.sum() is the sum of the elements (ghost prefix sums psum)',
    'ndarray.sort': 'a.sort() sorts in place: the result is ascending and a permutation of the old contents; for pairwise '
                    'distinct entries this is strictly increasing and keeps every range bound',
    'rng.choice': 'Generator.choice(N, n, replace=False, shuffle=False) returns n pairwise distinct integers in [0, N) '
                  '(it needs 0 <= n <= N)',
    'rng.multinomial': 'Generator.multinomial(n, p) returns len(p) non-negative integers summing to n that are 0 wherever p is 0 '
                       '(p must be defined: no division by a zero total)',
    'array/scalar': 'elementwise division of an array by a scalar',
})


class SubsampleWorld(World):

    def make_object(self, eng, st, name, cls):
        if cls == 'RNG':
            # the generator's methods are external functions with ghost call logs (arguments and results by value)
            return st.alloc(Obj('RNG', {
                'multinomial': self.make_callback(eng, st, name + '_multinomial', 'Callback[Int,Arr[Real]]->Arr[Int]=len1'),
                'choice': self.make_callback(eng, st, name + '_choice', 'Callback[Int,Int]->Arr[Int]')}))
        raise EngineError('no object model for class %s' % cls)

    def call_writes(self, eng, st, call):
        out = super().call_writes(eng, st, call)
        f = call.func
        if isinstance(f, ast.Attribute):
            try:
                recv = eng.sev(f.value, st)
            except EngineError:
                return out
            if recv.kind == 'ref' and isinstance(st.node(recv), Obj) and st.node(recv).cls == 'RNG':
                out.extend(v.log for v in st.node(recv).fields.values())
        return out

    def make_input(self, eng, st, name, ty):
        if ty == 'CSdata':
            # a compressed matrix of which the kernels only read .data and .indptr
            f = {'data': eng.make_input(st, name + '_data', 'Arr[Real]'),
                 'indptr': eng.make_input(st, name + '_indptr', 'Arr[Int]')}
            return st.alloc(Obj('CSdata', f))
        return super().make_input(eng, st, name, ty)

    def has_method(self, cls, name):
        return cls == 'RNG' or super().has_method(cls, name)

    def globals_for(self, eng, st, c):
        a, b = fresh('A', AI), fresh('B', AR)
        e = fresh('e', I)
        st.assume(z3.ForAll([a], psum_i(a, 0) == 0, patterns=[psum_i(a, 0)]),
                  z3.ForAll([a, e], z3.Implies(e >= 0, psum_i(a, e + 1) == psum_i(a, e) + a[e]),
                            patterns=[psum_i(a, e + 1), z3.MultiPattern(psum_i(a, e), a[e])]),
                  z3.ForAll([b], psum_r(b, 0) == 0, patterns=[psum_r(b, 0)]),
                  z3.ForAll([b, e], z3.Implies(e >= 0, psum_r(b, e + 1) == psum_r(b, e) + b[e]),
                            patterns=[psum_r(b, e + 1), z3.MultiPattern(psum_r(b, e), b[e])]))
        return {}

    def global_name(self, eng, st, n):
        if n == 'np':
            from pyvc.values import VMod
            return VMod('np')
        return super().global_name(eng, st, n)

    def spec_call(self, eng, st, n, e, bound):
        if n == 'psum':
            a = eng.as_arr(st, eng.sev(e.args[0], st, bound))
            k = to_int(eng.sev(e.args[1], st, bound))
            return VInt(psum_i(a[1], k)) if a[0] == 'int' else VReal(psum_r(a[1], k))
        if n == 'is_int':
            return VBool(z3.IsInt(to_real(eng.sev(e.args[0], st, bound))))
        return super().spec_call(eng, st, n, e, bound)

    def call_builtin(self, eng, st, name, args, kwargs, node, starv=None, dstar=None):
        if name in ('np.ceil', 'numpy.ceil'):
            self.used.add('np.ceil')
            src = st.node(args[0])
            st = st.copy()
            out = fresh('ceil', AR)
            k = fresh('k', I)
            st.assume(z3.ForAll([k], z3.And(out[k] >= src.a[k], out[k] < src.a[k] + 1, z3.IsInt(out[k])), patterns=[out[k]]))
            return [Result(st, st.alloc(Arr('real', out, src.n, 'ndarray')))]
        return super().call_builtin(eng, st, name, args, kwargs, node, starv, dstar)

    def arr_method(self, eng, st, recv, n, name, args, kwargs, node):
        line = node.lineno
        if name == 'astype':
            self.used.add('ndarray.astype(int64)')
            if n.elem != 'real':
                raise EngineError('astype of a non-float array')
            st = st.copy()
            out = fresh('asint', AI)
            k = fresh('k', I)
            # truncation towards zero; exact for integral values
            st.assume(z3.ForAll([k], z3.Implies(z3.IsInt(n.a[k]), z3.ToReal(out[k]) == n.a[k]), patterns=[out[k]]))
            return [Result(st, st.alloc(Arr('int', out, n.n, 'ndarray')))]
        if name == 'sum':
            self.used.add('ndarray.sum')
            if n.elem == 'int':
                return [Result(st, VInt(psum_i(n.a, n.n)))]
            return [Result(st, VReal(psum_r(n.a, n.n)))]
        if name == 'sort':
            self.used.add('ndarray.sort')
            # needs: pairwise distinct entries (as delivered by rng.choice without replacement) - recorded on the node
            if not getattr(n, 'distinct_in', None):
                raise EngineError('%s:%d: sort() of an array not known to hold distinct values' % (eng.rel, line))
            lo, hi = n.distinct_in
            st = st.copy()
            out = fresh('sorted', AI)
            i, j = fresh('i', I), fresh('j', I)
            st.assume(z3.ForAll([i, j], z3.Implies(z3.And(0 <= i, i < j, j < n.n), out[i] < out[j]),
                                patterns=[z3.MultiPattern(out[i], out[j])]),
                      z3.ForAll([i], z3.Implies(z3.And(0 <= i, i < n.n), z3.And(lo <= out[i], out[i] < hi)), patterns=[out[i]]))
            new = n.replace(a=out)
            st.setnode(recv, new)
            return [Result(st, NONE)]
        return super().arr_method(eng, st, recv, n, name, args, kwargs, node)

    def obj_method(self, eng, st, recv, n, name, args, kwargs, node, starv=None, dstar=None):
        if n.cls != 'RNG':
            return super().obj_method(eng, st, recv, n, name, args, kwargs, node, starv, dstar)
        line = node.lineno
        if name == 'choice':
            self.used.add('rng.choice')
            N, k = to_int(args[0]), to_int(args[1])
            if not (kwargs.get('replace') is not None and z3.is_false(z3.simplify(eng.truth(st, kwargs['replace'])))):
                raise EngineError('%s:%d: rng.choice with replacement is not modelled' % (eng.rel, line))
            eng.oblige(st, 'call-pre/rng.choice.0<=n<=N', z3.And(0 <= k, k <= N), line)
            (r,) = self.call_callback(eng, st, n.fields['choice'], args[:2], {}, node)
            st2, ref = r.st, r.val
            nd = st2.node(ref)
            out = nd.a
            i, j = fresh('i', I), fresh('j', I)
            st2.assume(nd.n == k,
                       z3.ForAll([i], z3.Implies(z3.And(0 <= i, i < k), z3.And(0 <= out[i], out[i] < N)), patterns=[out[i]]),
                       z3.ForAll([i, j], z3.Implies(z3.And(0 <= i, i < j, j < k), out[i] != out[j]),
                                 patterns=[z3.MultiPattern(out[i], out[j])]))
            st2.node(ref).distinct_in = (z3.IntVal(0), N)
            return [Result(st2, ref)]
        if name == 'multinomial':
            self.used.add('rng.multinomial')
            k = to_int(args[0])
            p = st.node(args[1])
            eng.oblige(st, 'call-pre/rng.multinomial.n>=0', k >= 0, line)
            (r,) = self.call_callback(eng, st, n.fields['multinomial'], args[:2], {}, node)
            st2, ref = r.st, r.val
            out = st2.node(ref).a
            i = fresh('i', I)
            st2.assume(z3.ForAll([i], z3.Implies(z3.And(0 <= i, i < p.n), z3.And(out[i] >= 0, z3.Implies(p.a[i] == 0, out[i] == 0))),
                                 patterns=[out[i]]),
                       psum_i(out, p.n) == k)
            return [Result(st2, ref)]
        raise EngineError('%s:%d: rng.%s has no assumed contract' % (eng.rel, line, name))

    def obj_attr(self, eng, st, base, n, attr):
        return super().obj_attr(eng, st, base, n, attr)


def _arr_scalar_binop(self, op, a, b, st=None):
    """array / scalar (elementwise) for the with-replacement kernel"""
    if st is not None and a.kind == 'ref' and isinstance(st.node(a), Arr) and b.kind in ('int', 'real') \
            and isinstance(op, ast.Div):
        n = st.node(a)
        out = fresh('quot', AR)
        k = fresh('k', I)
        d = to_real(b)
        src = (lambda k: z3.ToReal(n.a[k])) if n.elem == 'int' else (lambda k: n.a[k])
        st.assume(z3.ForAll([k], out[k] * d == src(k), patterns=[out[k]]))
        return st.alloc(Arr('real', out, n.n, 'ndarray'))
    return _orig_binop(self, op, a, b, st)


from pyvc.engine import Engine   # noqa: E402
_orig_binop = Engine.binop
Engine.binop = _arr_scalar_binop

world_for(F, SubsampleWorld)

M = "len(indptr) - 1"
WF = [
    "len(indptr) >= 1 and indptr[0] >= 0",
    "all(indptr[a] <= indptr[b] for a in range(0, len(indptr)) for b in range(a, len(indptr)))",
    "indptr[%s] <= len(data)" % M,
    # counts: non-negative integers
    "all(implies(indptr[0] <= q and q < indptr[%s], data[q] >= 0 and is_int(data[q])) for q in ints() if trig(data[q]))" % M,
]

contract(F, 'subsample', tier='P', props=['C12'],
    types={'arr': 'CSdata', 'n': 'Int', 'with_replacement': 'Bool', 'rng': 'Obj:RNG'},
    requires=["False"], ensures=[], modifies=[], kind='assumed')      # re-declared below once both kernels have contracts

OI = "old(indptr)"
OD = "old(data)"
TOT = "(psum(%s, %s[{i} + 1]) - psum(%s, %s[{i}]))" % (OD, OI, OD, OI)      # total of slice i at entry
MULT = "rng.multinomial"

contract(F, '_subsample_with_replacement', tier='P', props=['C12'],
    types={'data': 'Arr[Real]', 'indptr': 'Arr[Int]', 'n': 'Int', 'rng': 'Obj:RNG'},
    requires=WF + [
        "n >= 0",
        "all(implies(0 <= q and q < len(data), data[q] >= 0 and is_int(data[q])) for q in ints() if trig(data[q]))",
        # every vector has counts (what Table.subsample guarantees by filtering first): its probabilities are defined
        "all(%s > 0 for i in range(0, %s))" % (TOT.format(i='i').replace('old(indptr)', 'indptr').replace('old(data)', 'data'), M),
    ],
    ensures=[
        "ncalls(%s) == %s" % (MULT, M),
        # slice i is replaced by the i-th multinomial draw of n over (counts / slice total) ...
        "all(callarg(%s, i, 0) == n and len(callarg(%s, i, 1)) == %s[i + 1] - %s[i] for i in range(0, %s))" % (MULT, MULT, OI, OI, M),
        "all(callarg(%s, i, 1)[t] * %s == %s[%s[i] + t] for i in range(0, %s) for t in range(%s[i + 1] - %s[i]))"
        % (MULT, TOT.format(i='i'), OD, OI, M, OI, OI),
        "all(data[%s[i] + t] == callret(%s, i)[t] for i in range(0, %s) for t in range(%s[i + 1] - %s[i]))" % (OI, MULT, M, OI, OI),
        # ... which (numpy axiom) sums to n and is zero wherever the count was zero
        "all(psum(callret(%s, i), %s[i + 1] - %s[i]) == n for i in range(0, %s))" % (MULT, OI, OI, M),
        "all(implies(%s[%s[i] + t] == 0, data[%s[i] + t] == 0) for i in range(0, %s) for t in range(%s[i + 1] - %s[i]))"
        % (OD, OI, OI, M, OI, OI),
        "len(data) == len(%s)" % OD,
        "all(implies(q < %s[0] or q >= %s[%s], data[q] == %s[q]) for q in ints())" % (OI, OI, M, OD),
    ],
    modifies=['data[*]'],
    after_assign={
        # prefix sums of ceil(data) are those of data (counts are integral)
        'data_ceil': [dict(name='ceil-is-identity', var='e', base='0', upto='len(data)',
                           stmt='psum(data_ceil, e) == psum(data, e)')],
    },
    loops={0: dict(header='for i in range(indptr.shape[0] - 1)', invariant=[
        "ncalls(%s) == i and len(data) == len(%s)" % (MULT, OD),
        "all(callarg(%s, k, 0) == n and len(callarg(%s, k, 1)) == %s[k + 1] - %s[k] for k in range(0, i))" % (MULT, MULT, OI, OI),
        "all(callarg(%s, k, 1)[t] * %s == %s[%s[k] + t] for k in range(0, i) for t in range(%s[k + 1] - %s[k]))"
        % (MULT, TOT.format(i='k'), OD, OI, OI, OI),
        "all(data[%s[k] + t] == callret(%s, k)[t] for k in range(0, i) for t in range(%s[k + 1] - %s[k]))" % (OI, MULT, OI, OI),
        "all(psum(callret(%s, k), %s[k + 1] - %s[k]) == n for k in range(0, i))" % (MULT, OI, OI),
        "all(implies(%s[%s[k] + t] == 0, data[%s[k] + t] == 0) for k in range(0, i) for t in range(%s[k + 1] - %s[k]))"
        % (OD, OI, OI, OI, OI),
        "all(implies(q < %s[0] or q >= %s[i], data[q] == %s[q]) for q in ints())" % (OI, OI, OD),
        "all(data_ceil[q] == %s[q] for q in range(0, len(data)))" % OD,
    ])})
