"""Contracts for biom/_subsample.pyx (C12), Tier P modulo the listed numpy axioms.

Ghost machinery: psum(A, e) = A[0] + ... + A[e-1] (global definitional axioms); for the sorted draw array p of one
slice, c(x) = number of draws below x, characterised by 0 <= c(x) <= n, p[j] < x for j < c(x), p[j] >= x for
c(x) <= j < n (such a split point exists because p is strictly increasing).
"""
import ast

import z3

from pyvc import smt
from pyvc.prove import contract, world_for
from pyvc.world import World, ASSUMED, CallLog
from pyvc.values import (SV, VRef, VStr, VTuple, VFn, VBool, VInt, VReal, NONE, Obj, Dict, Arr, EngineError, fresh)
from pyvc.engine import Result, to_int, to_real
from pyvc.smt import I, B, R, Str

F = 'biom/_subsample.pyx'
AI = z3.ArraySort(I, I)
AR = z3.ArraySort(I, R)
psum_i = z3.Function('psum_i', AI, I, I)
psum_r = z3.Function('psum_r', AR, I, R)
integral = z3.Function('integral', R, B)   # "x is an integer": kept uninterpreted (no mixed int/real reasoning)
rdiv = z3.Function('rdiv', R, R, R)     # real division kept uninterpreted (no nonlinear arithmetic in the queries)

ASSUMED.update({
    'np.ceil': 'numpy.ceil(a): elementwise; for non-negative integer-valued entries it is the identity; the result is a new array',
    'ndarray.astype(int64)': 'a.astype(numpy.int64) of an array holding integral values yields those integers (new array)',
    'ndarray.sum': 'a.sum() is the sum of the elements (ghost prefix sums psum); the sum of a slice a[lo:hi] is psum(a, hi) - psum(a, lo)',
    'ndarray.sort': 'a.sort() sorts in place: the result is ascending and a permutation of the old contents; for pairwise '
                    'distinct entries this is strictly increasing and keeps every range bound',
    'rng.choice': 'Generator.choice(N, n, replace=False, shuffle=False) returns n pairwise distinct integers in [0, N) '
                  '(it needs 0 <= n <= N)',
    'rng.multinomial': 'Generator.multinomial(n, p) returns len(p) non-negative integers summing to n that are 0 wherever p is 0 '
                       '(p must be defined: no division by a zero total)',
    'array/scalar': 'elementwise division of an array by a scalar; real division x/d is an uninterpreted function rdiv with '
                    'the single axiom  d != 0  =>  (x/d == 0  <=>  x == 0)',
})


class SubsampleWorld(World):

    def make_object(self, eng, st, name, cls):
        if cls == 'RNG':
            # the generator's methods are external functions with ghost call logs (arguments and results by value)
            return st.alloc(Obj('RNG', {
                '_log_multinomial': self.make_callback(eng, st, name + '_multinomial', 'Callback[Int,Arr[Real]]->Arr[Int]=len1'),
                '_log_choice': self.make_callback(eng, st, name + '_choice', 'Callback[Int,Int]->Arr[Int]')}))
        raise EngineError('no object model for class %s' % cls)

    def call_writes(self, eng, st, call):
        out = super().call_writes(eng, st, call)
        f = call.func
        if isinstance(f, ast.Attribute):
            try:
                recv = eng.sev(f.value, st)
            except EngineError:
                return out
            if recv.kind == 'ref' and isinstance(st.node(recv), Obj) and st.node(recv).cls == 'RNG':
                out.extend(v.log for v in st.node(recv).fields.values())
        return out

    def make_input(self, eng, st, name, ty):
        if ty == 'CSdata':
            # a compressed matrix of which the kernels only read .data and .indptr
            f = {'data': eng.make_input(st, name + '_data', 'Arr[Real]'),
                 'indptr': eng.make_input(st, name + '_indptr', 'Arr[Int]')}
            return st.alloc(Obj('CSdata', f))
        return super().make_input(eng, st, name, ty)

    def has_method(self, cls, name):
        return cls == 'RNG' or super().has_method(cls, name)

    def globals_for(self, eng, st, c):
        a, b = fresh('A', AI), fresh('B', AR)
        e = fresh('e', I)
        st.assume(z3.ForAll([a], psum_i(a, 0) == 0, patterns=[psum_i(a, 0)]),
                  z3.ForAll([a, e], z3.Implies(e >= 0, psum_i(a, e + 1) == psum_i(a, e) + a[e]),
                            patterns=[z3.MultiPattern(psum_i(a, e), a[e])]),
                  z3.ForAll([b], psum_r(b, 0) == 0, patterns=[psum_r(b, 0)]),
                  z3.ForAll([b, e], z3.Implies(e >= 0, psum_r(b, e + 1) == psum_r(b, e) + b[e]),
                            patterns=[z3.MultiPattern(psum_r(b, e), b[e])]))
        x, d = fresh('x', R), fresh('d', R)
        st.assume(z3.ForAll([x, d], z3.Implies(d != 0, (rdiv(x, d) == 0) == (x == 0)), patterns=[rdiv(x, d)]))
        return {}

    def global_name(self, eng, st, n):
        if n == 'np':
            from pyvc.values import VMod
            return VMod('np')
        return super().global_name(eng, st, n)

    def spec_call(self, eng, st, n, e, bound):
        if n == 'psum':
            a = eng.as_arr(st, eng.sev(e.args[0], st, bound))
            k = to_int(eng.sev(e.args[1], st, bound))
            return VInt(psum_i(a[1], k)) if a[0] == 'int' else VReal(psum_r(a[1], k))
        if n == 'rdiv':
            return VReal(rdiv(to_real(eng.sev(e.args[0], st, bound)), to_real(eng.sev(e.args[1], st, bound))))
        if n == 'is_int':
            return VBool(integral(to_real(eng.sev(e.args[0], st, bound))))
        return super().spec_call(eng, st, n, e, bound)

    def call_builtin(self, eng, st, name, args, kwargs, node, starv=None, dstar=None):
        if name in ('np.ceil', 'numpy.ceil'):
            self.used.add('np.ceil')
            src = st.node(args[0])
            st = st.copy()
            out = fresh('ceil', AR)
            k = fresh('k', I)
            st.assume(z3.ForAll([k], z3.And(out[k] >= src.a[k], out[k] < src.a[k] + 1, integral(out[k]),
                                            z3.Implies(integral(src.a[k]), out[k] == src.a[k])), patterns=[out[k]]))
            return [Result(st, st.alloc(Arr('real', out, src.n, 'ndarray')))]
        return super().call_builtin(eng, st, name, args, kwargs, node, starv, dstar)

    def arr_method(self, eng, st, recv, n, name, args, kwargs, node):
        line = node.lineno
        if name == 'astype':
            self.used.add('ndarray.astype(int64)')
            if n.elem != 'real':
                raise EngineError('astype of a non-float array')
            st = st.copy()
            out = fresh('asint', AI)
            k = fresh('k', I)
            # truncation towards zero; exact for integral values
            st.assume(z3.ForAll([k], z3.Implies(integral(n.a[k]), z3.ToReal(out[k]) == n.a[k]), patterns=[out[k]]))
            return [Result(st, st.alloc(Arr('int', out, n.n, 'ndarray')))]
        if name == 'sum':
            self.used.add('ndarray.sum')
            ps = psum_i if n.elem == 'int' else psum_r
            mkv = VInt if n.elem == 'int' else VReal
            prov = getattr(n, 'slice_of', None)
            if prov is not None:
                # the sum of a slice is a difference of prefix sums of the array it was taken from
                src, lo, ln = prov
                return [Result(st, mkv(ps(src, lo + ln) - ps(src, lo)))]
            return [Result(st, mkv(ps(n.a, n.n)))]
        if name == 'sort':
            self.used.add('ndarray.sort')
            # needs: pairwise distinct entries (as delivered by rng.choice without replacement) - recorded on the node
            if not getattr(n, 'distinct_in', None):
                raise EngineError('%s:%d: sort() of an array not known to hold distinct values' % (eng.rel, line))
            lo, hi = n.distinct_in
            st = st.copy()
            out = fresh('sorted', AI)
            i, j = fresh('i', I), fresh('j', I)
            st.assume(z3.ForAll([i, j], z3.Implies(z3.And(0 <= i, i < j, j < n.n), out[i] < out[j]),
                                patterns=[z3.MultiPattern(out[i], out[j])]),
                      z3.ForAll([i], z3.Implies(z3.And(0 <= i, i < n.n), z3.And(lo <= out[i], out[i] < hi)), patterns=[out[i]]))
            new = n.replace(a=out)
            st.setnode(recv, new)
            return [Result(st, NONE)]
        return super().arr_method(eng, st, recv, n, name, args, kwargs, node)

    def obj_method(self, eng, st, recv, n, name, args, kwargs, node, starv=None, dstar=None):
        if n.cls != 'RNG':
            return super().obj_method(eng, st, recv, n, name, args, kwargs, node, starv, dstar)
        line = node.lineno
        if name == 'choice':
            self.used.add('rng.choice')
            N, k = to_int(args[0]), to_int(args[1])
            if not (kwargs.get('replace') is not None and z3.is_false(z3.simplify(eng.truth(st, kwargs['replace'])))):
                raise EngineError('%s:%d: rng.choice with replacement is not modelled' % (eng.rel, line))
            eng.oblige(st, 'call-pre/rng.choice.0<=n<=N', z3.And(0 <= k, k <= N), line)
            (r,) = self.call_callback(eng, st, n.fields['_log_choice'], args[:2], {}, node)
            st2, ref = r.st, r.val
            nd = st2.node(ref)
            out = nd.a
            i, j = fresh('i', I), fresh('j', I)
            st2.assume(nd.n == k,
                       z3.ForAll([i], z3.Implies(z3.And(0 <= i, i < k), z3.And(0 <= out[i], out[i] < N)), patterns=[out[i]]),
                       z3.ForAll([i, j], z3.Implies(z3.And(0 <= i, i < j, j < k), out[i] != out[j]),
                                 patterns=[z3.MultiPattern(out[i], out[j])]))
            st2.node(ref).distinct_in = (z3.IntVal(0), N)
            return [Result(st2, ref)]
        if name == 'multinomial':
            self.used.add('rng.multinomial')
            k = to_int(args[0])
            p = st.node(args[1])
            eng.oblige(st, 'call-pre/rng.multinomial.n>=0', k >= 0, line)
            (r,) = self.call_callback(eng, st, n.fields['_log_multinomial'], args[:2], {}, node)
            st2, ref = r.st, r.val
            out = st2.node(ref).a
            i = fresh('i', I)
            st2.assume(z3.ForAll([i], z3.Implies(z3.And(0 <= i, i < p.n), z3.And(out[i] >= 0, z3.Implies(p.a[i] == 0, out[i] == 0))),
                                 patterns=[out[i]]),
                       psum_i(out, st2.node(ref).n) == k)
            return [Result(st2, ref)]
        raise EngineError('%s:%d: rng.%s has no assumed contract' % (eng.rel, line, name))

    def obj_attr(self, eng, st, base, n, attr):
        return super().obj_attr(eng, st, base, n, attr)


def _arr_scalar_binop(self, op, a, b, st=None):
    """array / scalar (elementwise) for the with-replacement kernel"""
    if st is not None and a.kind == 'ref' and isinstance(st.node(a), Arr) and b.kind in ('int', 'real') \
            and isinstance(op, ast.Div):
        n = st.node(a)
        out = fresh('quot', AR)
        k = fresh('k', I)
        d = to_real(b)
        src = (lambda k: z3.ToReal(n.a[k])) if n.elem == 'int' else (lambda k: n.a[k])
        st.assume(z3.ForAll([k], out[k] == rdiv(src(k), d), patterns=[out[k]]))
        return st.alloc(Arr('real', out, n.n, 'ndarray'))
    return _orig_binop(self, op, a, b, st)


from pyvc.engine import Engine   # noqa: E402
_orig_binop = Engine.binop
Engine.binop = _arr_scalar_binop

world_for(F, SubsampleWorld)

M = "len(indptr) - 1"
WF = [
    "len(indptr) >= 1 and indptr[0] >= 0",
    "all(indptr[a] <= indptr[b] for a in range(0, len(indptr)) for b in range(a, len(indptr)))",
    "indptr[%s] <= len(data)" % M,
    # counts: non-negative integers
    "all(implies(indptr[0] <= q and q < indptr[%s], data[q] >= 0 and is_int(data[q])) for q in ints() if trig(data[q]))" % M,
]

contract(F, 'subsample', tier='P', props=['C12'],
    types={'arr': 'CSdata', 'n': 'Int', 'with_replacement': 'Bool', 'rng': 'Obj:RNG'},
    requires=["False"], ensures=[], modifies=[], kind='assumed')      # re-declared below once both kernels have contracts

OI = "old(indptr)"
OD = "old(data)"
TOT = "(psum(%s, %s[{i} + 1]) - psum(%s, %s[{i}]))" % (OD, OI, OD, OI)      # total of slice i at entry
MULT = "rng._log_multinomial"
INSL = "%s[k] <= q and q < %s[k + 1]" % (OI, OI)
# the k-th draw is made over (count / slice total), it replaces slice k, and zero counts stay zero
PVALS = ("all(implies(%s, callarg(%s, k, 1)[q - %s[k]] == rdiv(%s[q], %s)) for k in range(0, {hi}) for q in ints() "
         "if trig(indptr[k], %s[q]))" % (INSL, MULT, OI, OD, TOT.format(i='k'), OD))
DRAWN = ("all(implies(%s, {d}[q] == callret(%s, k)[q - %s[k]]) for k in range(0, {hi}) for q in ints() "
         "if trig(indptr[k], {d}[q]))" % (INSL, MULT, OI))
ZERO = ("all(implies(%s and %s[q] == 0, {d}[q] == 0) for k in range(0, {hi}) for q in ints() if trig(indptr[k], {d}[q]))"
        % (INSL, OD))

contract(F, '_subsample_with_replacement', tier='P', props=['C12'],
    types={'data': 'Arr[Real]', 'indptr': 'Arr[Int]', 'n': 'Int', 'rng': 'Obj:RNG'},
    requires=WF + [
        "n >= 0",
        "all(implies(0 <= q and q < len(data), data[q] >= 0 and is_int(data[q])) for q in ints() if trig(data[q]))",
        # every vector has counts (what Table.subsample guarantees by filtering first): its probabilities are defined
        "all(%s > 0 for i in range(0, %s))" % (TOT.format(i='i').replace('old(indptr)', 'indptr').replace('old(data)', 'data'), M),
    ],
    ensures=[
        "ncalls(%s) == %s" % (MULT, M),
        # slice i is replaced by the i-th multinomial draw of n over (counts / slice total) ...
        "all(callarg(%s, i, 0) == n and len(callarg(%s, i, 1)) == %s[i + 1] - %s[i] for i in range(0, %s))" % (MULT, MULT, OI, OI, M),
        PVALS.format(hi=M), DRAWN.format(hi=M, d='data'),
        # ... which (numpy axiom) sums to n and is zero wherever the count was zero
        "all(len(callret(%s, i)) == %s[i + 1] - %s[i] and psum(callret(%s, i), len(callret(%s, i))) == n for i in range(0, %s))"
        % (MULT, OI, OI, MULT, MULT, M),
        ZERO.format(hi=M, d='data'),
        "len(data) == len(%s)" % OD,
        "all(implies(q < %s[0] or q >= %s[%s], data[q] == %s[q]) for q in ints())" % (OI, OI, M, OD),
    ],
    modifies=['data[*]'],
    after_assign={
        # prefix sums of ceil(data) are those of data (counts are integral)
        'data_ceil': [dict(name='ceil-is-identity', var='e', base='0', upto='len(data)',
                           stmt='psum(data_ceil, e) == psum(data, e)', mention=['data_ceil[e]', 'data[e]'])],
        # the total and the probability vector of the current slice
        'counts_sum': ["counts_sum == %s and counts_sum > 0" % TOT.format(i='i')],
        'pvals': ["len(pvals) == indptr[i + 1] - indptr[i]"],
    },
    after_assign_extra=None,
    loops={0: dict(header='for i in range(indptr.shape[0] - 1)', invariant=[
        "ncalls(%s) == i and len(data) == len(%s)" % (MULT, OD),
        "all(callarg(%s, k, 0) == n and len(callarg(%s, k, 1)) == %s[k + 1] - %s[k] for k in range(0, i))" % (MULT, MULT, OI, OI),
        PVALS.format(hi='i'), DRAWN.format(hi='i', d='data'),
        "all(len(callret(%s, k)) == %s[k + 1] - %s[k] and psum(callret(%s, k), len(callret(%s, k))) == n for k in range(0, i))"
        % (MULT, OI, OI, MULT, MULT),
        ZERO.format(hi='i', d='data'),
        "all(implies(q < %s[0] or q >= %s[i], data[q] == %s[q]) for q in ints())" % (OI, OI, OD),
        "all(data_ceil[q] == %s[q] for q in range(0, len(data)))" % OD,
    ])})


# ---------------------------------------------------------------------------
# without replacement
# ---------------------------------------------------------------------------
P = "psum(intdata, {e})"
CH = "rng._log_choice"
C_GHOST = {'c': dict(args=['int'], ret='int', requires=[
    # a split point exists for every x because the draws are strictly increasing (proved where c is introduced)
    "all(implies(0 <= i and i < j and j < n, permuted[i] < permuted[j]) for i in ints() for j in ints() "
    "if trig(permuted[i], permuted[j]))", "len(permuted) == n"], axioms=[
    # c(x) = number of (sorted, distinct) draws below x
    "all(0 <= c(x) and c(x) <= n for x in ints() if trig(c(x)))",
    "all(implies(0 <= j and j < c(x), permuted[j] < x) for x in ints() for j in ints() if trig(c(x), permuted[j]))",
    "all(implies(c(x) <= j and j < n, permuted[j] >= x) for x in ints() for j in ints() if trig(c(x), permuted[j]))",
])}
SLICE_UNTOUCHED = "all(implies(q < start or q >= start + el, data[q] == at('loop1', data)[q]) for q in ints())"
WRITTEN = ("all(implies(start <= q and q < start + el, data[q] == real(c(%s) - c(%s))) for q in ints() if trig(data[q]))"
           % (P.format(e='q - start + 1'), P.format(e='q - start')))

PE = "psum(intdata, {e})"
NEWSUM = "(psum(data, %s[{k} + 1]) - psum(data, %s[{k}]))" % (OI, OI)
ENOUGH_SUM = ("all(implies(%s >= n, %s == n) for k in range(0, {hi}) if trig(indptr[k]))"
              % (TOT.format(i='k'), NEWSUM.format(k='k')))
ENOUGH_BOUNDS = ("all(implies(%s and %s >= n, 0 <= data[q] and data[q] <= %s[q] and is_int(data[q])) "
                 "for k in range(0, {hi}) for q in ints() if trig(indptr[k], data[q]))" % (INSL, TOT.format(i='k'), OD))
WHEN = "counts_sum >= n"

contract(F, '_subsample_without_replacement', tier='P', props=['C12'],
    types={'data': 'Arr[Real]', 'indptr': 'Arr[Int]', 'n': 'Int', 'rng': 'Obj:RNG'},
    requires=WF + ["n >= 1"],
    ensures=[
        "len(data) == len(%s)" % OD,
        # nothing outside the slices is written
        "all(implies(q < %s[0] or q >= %s[%s], data[q] == %s[q]) for q in ints())" % (OI, OI, M, OD),
        # a vector with fewer than n counts is zeroed (and later dropped by Table.subsample)
        "all(implies(%s and %s < n, data[q] == 0) for k in range(0, %s) for q in ints() if trig(indptr[k], data[q]))"
        % (INSL, TOT.format(i='k'), M),
        # a vector with at least n counts sums to exactly n afterwards ...
        ENOUGH_SUM.format(hi=M),
        # ... and every entry is a non-negative integer not exceeding the original count
        ENOUGH_BOUNDS.format(hi=M),
    ],
    modifies=['data[*]'],
    after_assign={
        'intdata': [
            # the integer copy of the slice holds the (non-negative) counts of the vector
            "len(intdata) == end - start and all(implies(0 <= e and e < end - start, intdata[e] >= 0 and "
            "real(intdata[e]) == %s[start + e]) for e in ints() if trig(intdata[e]))" % OD,
            dict(name='slice-total', var='e', base='0', upto='end - start',
                 stmt="real(psum(intdata, e)) == psum(%s, start + e) - psum(%s, start)" % (OD, OD),
                 mention=['intdata[e]', '%s[start + e]' % OD])],
        'counts_sum': ["real(counts_sum) == %s" % TOT.format(i='i')],
    },
    loops={
        0: dict(header='for i in range(indptr.shape[0] - 1)', invariant=[
            "len(data) == len(%s)" % OD,
            "all(implies(q < %s[0] or q >= %s[i], data[q] == %s[q]) for q in ints())" % (OI, OI, OD),
            "all(implies(%s and %s < n, data[q] == 0) for k in range(0, i) for q in ints() if trig(indptr[k], data[q]))"
            % (INSL, TOT.format(i='k')),
            ENOUGH_SUM.format(hi='i'), ENOUGH_BOUNDS.format(hi='i'),
        ], body_end=[
            # the prefix sums below the current slice are those at the start of the iteration (only the slice is written)
            dict(name='prefix-unchanged', var='h', base='0', upto='start',
                 stmt="psum(data, h) == psum(at('loop0-iter', data), h)", mention=['data[h]', "at('loop0-iter', data)[h]"]),
            dict(when=WHEN, fact="permuted[0] >= 0 and permuted[n - 1] < counts_sum and c(0) == 0 and c(counts_sum) == n "
                                 "and c(%s) == n" % PE.format(e='el + 1')),
            dict(when=WHEN, name='P-monotone-tail', var='e', base='el + 1', upto='length',
                 stmt="%s >= %s" % (PE.format(e='e'), PE.format(e='el + 1')), mention=['intdata[e]']),
            dict(when=WHEN, fact="all(implies(start <= q and q < end, data[q] == real(c(%s) - c(%s))) "
                                 "for q in ints() if trig(data[q]))" % (PE.format(e='q - start + 1'), PE.format(e='q - start'))),
            dict(when=WHEN, name='telescope', var='e', base='0', upto='length',
                 stmt="psum(data, start + e) - psum(data, start) == real(c(%s) - c(0))" % PE.format(e='e'),
                 mention=['data[start + e]', 'intdata[e]']),
            dict(when=WHEN, fact="psum(data, end) - psum(data, start) == n"),
            dict(when=WHEN, assume="all(is_int(real(c(%s) - c(%s))) for q in ints() if trig(data[q]))"
                 % (PE.format(e='q - start + 1'), PE.format(e='q - start')),
                 why='integral(x) holds for every integer x (instance for the differences of draw counts)'),
            dict(when=WHEN, fact="all(implies(start <= q and q < end, 0 <= data[q] and data[q] <= %s[q] and is_int(data[q])) "
                                 "for q in ints() if trig(data[q]))" % OD),
        ]),
        1: dict(header='for idx in range(n)', ghost=C_GHOST,
                hide=['loop0/inv2', 'loop0/inv3', 'loop0/inv4', 'lemma/gaps', 'lemma/count-monotone', 'lemma/count-gap', 'lemma/count-le-width'], lemmas=[
            dict(name='count-monotone', fact="all(implies(a <= b, implies(c(b) < n, permuted[c(b)] >= b) and c(a) <= c(b)) "
                 "for a in ints() for b in ints() if trig(c(a), c(b)))"),
            # strictly increasing integers are at least one apart ...
            dict(name='gaps', var='k', base='0', upto='n - 1',
                 stmt="all(implies(0 <= j and j <= k, permuted[k] - permuted[j] >= k - j) for j in ints() if trig(permuted[j]))",
                 mention=['permuted[k]', 'permuted[k + 1]']),
            # ... hence at most b - a draws lie in [a, b)
            dict(name='count-gap', fact="all(implies(a <= b and c(b) - c(a) >= 1, permuted[c(b) - 1] - permuted[c(a)] >= c(b) - 1 - c(a)) "
                 "for a in ints() for b in ints() if trig(c(a), c(b)))"),
            dict(name='count-le-width', fact="all(implies(a <= b, 0 <= c(b) - c(a) and c(b) - c(a) <= b - a) "
                 "for a in ints() for b in ints() if trig(c(a), c(b)))"),
        ], invariant=[
            "0 <= el and el < length and length == end - start and len(data) == len(%s)" % OD,
            "count_el + count_rem == %s" % P.format(e='el + 1'),
            "implies(idx == 0, count_el == 0 and el == 0 and el_cnt == 0)",
            "implies(idx >= 1, count_el == permuted[idx - 1] and %s <= permuted[idx - 1] and permuted[idx - 1] < %s)"
            % (P.format(e='el'), P.format(e='el + 1')),
            "%s <= count_el" % P.format(e='el'),
            "el_cnt == idx - c(%s)" % P.format(e='el'),
            WRITTEN, SLICE_UNTOUCHED,
        ]),
        2: dict(header='while perm_count_el - count_el >= count_rem', decreases='length - el',
                # the draw-count ghost plays no role for the bookkeeping invariants 0-3
                hide_for={j: ['ghost/c', 'loop1/inv6', 'loop2/inv5', 'loop1/inv7', 'loop2/inv6', 'loop1/inv5', 'loop2/inv4',
                              'lemma/slice-total', 'loop0/inv1'] for j in (0, 1, 2, 3)}, invariant=[
            "0 <= el and el < length and len(data) == len(%s)" % OD,
            "count_el + count_rem == %s" % P.format(e='el + 1'),
            "%s <= count_el and count_el <= perm_count_el" % P.format(e='el'),
            # (the conjunct about intdata[el] names the term that unfolds the prefix sum at el)
            "implies(idx >= 1, permuted[idx - 1] < %s) and intdata[el] >= 0" % P.format(e='el + 1'),
            "el_cnt == idx - c(%s)" % P.format(e='el'),
            WRITTEN, SLICE_UNTOUCHED,
        ]),
    })


# ---------------------------------------------------------------------------
# the dispatcher: what Table.subsample relies on, stated on the matrix object
# ---------------------------------------------------------------------------
import re as _re
from pyvc.prove import REGISTRY as _REG


def _on_arr(expr):
    expr = _re.sub(r'\bindptr\b', 'arr.indptr', expr)
    return _re.sub(r'(?<![\w.])data\b', 'arr.data', expr)


_wr = _REG[F + '::_subsample_with_replacement']
_wor = _REG[F + '::_subsample_without_replacement']
del _REG[F + '::subsample']
contract(F, 'subsample', tier='P', props=['C12'],
    types={'arr': 'CSdata', 'n': 'Int', 'with_replacement': 'Bool', 'rng': 'Obj:RNG'},
    requires=[_on_arr(r) for r in WF] + [
        "implies(with_replacement, %s)" % ' and '.join('(%s)' % _on_arr(r) for r in _wr.requires[len(WF):]),
        "implies(not with_replacement, n >= 1)"],
    ensures=["implies(with_replacement, %s)" % _on_arr(e) for e in _wr.ensures] +
            ["implies(not with_replacement, %s)" % _on_arr(e) for e in _wor.ensures] +
            ["arr.indptr is oldref(arr.indptr) and arr.data is oldref(arr.data)"],
    modifies=['arr.data[*]'])
