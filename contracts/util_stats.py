"""Contract for biom.util.compute_counts_per_sample_stats (C19), Tier A over an assumed contract of Table.iter."""
import ast

import z3

from pyvc import smt
from pyvc.prove import contract, world_for
from pyvc.world import ASSUMED
from pyvc.values import (SV, VStr, VTuple, VFn, VBool, VInt, VReal, NONE, Obj, Dict, Arr, EngineError, fresh)
from pyvc.engine import Result, to_int, to_real, is_num
from pyvc.smt import I, B, R, Str
from contracts.table_methods import TableWorld, VVec, colnz, rownz, colsum, rowsum, WF_T

F = 'biom/util.py'
ASSUMED['Table.iter'] = ('Table.iter(dense=True, axis="sample") yields, in id order, one triple per sample: the dense vector of '
                         'the sample, its id, its metadata entry (the generator itself is not verified)')
ASSUMED['numpy-stats'] = ('numpy.min / max of a non-empty list of numbers is one of its elements and bounds all of them; '
                          'numpy.median / mean are uninterpreted functions of the list')
median_f = z3.Function('np_median', z3.ArraySort(I, R), I, R)
mean_f = z3.Function('np_mean', z3.ArraySort(I, R), I, R)


class VIterTriples(SV):
    kind = 'itertriples'

    def __init__(self, table):
        self.table = table

    def sv_iter(self, eng, st, s):
        t = st.node(self.table)
        sp = t.fields['_data']
        ids = st.node(t.fields['_sample_ids'])
        sh = st.node(sp).fields['_shape'].items

        def elem(st2, k):
            md = t.fields['_sample_metadata']
            mdv = NONE
            if md.kind == 'opt':
                from pyvc.values import VOpt, VVal
                inner = st2.node(md.val)
                mdv = VOpt(md.is_none, VVal(inner.a[k]))
            return VTuple([VVec(sp, z3.BoolVal(True), k, True), VStr(ids.a[k]), mdv])
        return z3.IntVal(0), sh[1].term, elem


class StatsWorld(TableWorld):

    def obj_method(self, eng, st, recv, n, name, args, kwargs, node, starv=None, dstar=None):
        if n.cls == 'Table' and name == 'iter' and not args and not kwargs:
            self.used.add('Table.iter')
            return [Result(st, VIterTriples(recv))]
        return super().obj_method(eng, st, recv, n, name, args, kwargs, node, starv, dstar)

    def has_method(self, cls, name):
        return (cls == 'Table' and name == 'iter') or super().has_method(cls, name)

    def compare_objects(self, eng, st, op, a, b):
        if isinstance(op, ast.NotEq) and a.kind == 'vec' and a.part is None and a.dense and b.kind == 'int' \
                and z3.is_int_value(z3.simplify(b.term)) and z3.simplify(b.term).as_long() == 0:
            return Result(st, VVec(a.sp, a.ax, a.k, a.dense, part='nzmask'))
        return super().compare_objects(eng, st, op, a, b)

    def call_method(self, eng, st, recv, name, args, kwargs, node, starv=None, dstar=None):
        if recv.kind == 'vec' and recv.part == 'nzmask' and name == 'sum' and not args:
            self.used.add('vector-ghosts')
            cell, m, n, _ = recv.parts(st)
            return [Result(st, VInt(z3.If(recv.ax, colnz(cell, m, recv.k), rownz(cell, n, recv.k))))]
        return super().call_method(eng, st, recv, name, args, kwargs, node, starv, dstar)

    def global_name(self, eng, st, n):
        if n in ('min', 'max', 'median', 'mean'):
            return VFn('builtin', name='numpy.' + n)
        return super().global_name(eng, st, n)

    def call_builtin(self, eng, st, name, args, kwargs, node, starv=None, dstar=None):
        if name in ('numpy.min', 'numpy.max', 'numpy.median', 'numpy.mean') and len(args) == 1 \
                and args[0].kind == 'ref' and isinstance(st.node(args[0]), Arr) and st.node(args[0]).elem == 'real':
            self.used.add('numpy-stats')
            n = st.node(args[0])
            short = name.split('.')[1]
            if short in ('median', 'mean'):
                return [Result(st, VReal((median_f if short == 'median' else mean_f)(n.a, n.n)))]
            out = []
            yes, no = eng.fork(st, n.n > 0)
            for s in no:
                out.append(eng.exc(s, 'ValueError'))
            for s in yes:
                s = s.copy()
                m, w, k = fresh(short, R), fresh('argm', I), fresh('k', I)
                s.assume(0 <= w, w < n.n, n.a[w] == m,
                         z3.ForAll([k], z3.Implies(z3.And(0 <= k, k < n.n), (n.a[k] <= m) if short == 'max' else (n.a[k] >= m)),
                                   patterns=[n.a[k]]))
                out.append(Result(s, VReal(m)))
            return out
        return super().call_builtin(eng, st, name, args, kwargs, node, starv, dstar)


world_for(F, StatsWorld)

_V = "(vecnz(table._data.cell, table._data.shape[0], table._data.shape[1], 'sample', k) if binary_counts else colsum(table._data, k))"
contract(F, 'compute_counts_per_sample_stats', tier='A', props=['C19'],
    types={'table': 'Obj:Table', 'binary_counts': 'Bool'},
    locals={'sample_counts': 'ODict[Str,Real]'},
    requires=["len(table._sample_ids) == table._data.shape[1] and len(table._observation_ids) == table._data.shape[0]",
              "all(implies(p < q, table._sample_ids[p] != table._sample_ids[q]) for p in range(len(table._sample_ids)) "
              "    for q in range(len(table._sample_ids)))"],
    returns='Val',
    ensures=[
        # the per-sample figure of every sample: its sum, or (binary) the number of its non-zero cells - keyed by its id
        "all(table._sample_ids[k] in result[4] and result[4][table._sample_ids[k]] == %s for k in range(len(table._sample_ids)))" % _V,
        "all(any(table._sample_ids[k] == key for k in range(len(table._sample_ids))) for key in result[4])",
        # minimum and maximum are figures of samples and bound all of them
        "implies(len(table._sample_ids) > 0, all(result[0] <= %s and %s <= result[1] for k in range(len(table._sample_ids))))" % (_V, _V),
        "implies(len(table._sample_ids) > 0, any(result[0] == %s for k in range(len(table._sample_ids))) "
        "        and any(result[1] == %s for k in range(len(table._sample_ids))))" % (_V, _V),
        "implies(len(table._sample_ids) == 0, result[0] == 0 and result[1] == 0 and result[2] == 0 and result[3] == 0)",
    ],
    modifies=[],
    loops={0: dict(header="for count_vector, sample_id, metadata in table.iter()", invariant=[
        "all(table._sample_ids[k] in sample_counts and sample_counts[table._sample_ids[k]] == %s for k in range(0, __i0))" % _V,
        "all(any(table._sample_ids[k] == key for k in range(0, __i0)) for key in sample_counts)",
        "len(sample_counts) == __i0",
    ])})

# the default metadata policy of merge (C09): the receiver's entry wins, the other one fills in
contract(F, 'prefer_self', tier='P', props=['C09'],
    types={'x': 'Val', 'y': 'Val'}, returns='Val',
    ensures=["implies(not isnone(x), result == x)", "implies(isnone(x), result == y)"],
    modifies=[])
