"""Tier A: skeletons of Table methods in biom/table.py, proved against ASSUMED
contracts of scipy / numpy and of the compiled kernels (whose own contracts are
proved at array level in filter_kernels.py / transform_kernel.py).

The scipy matrix is modelled at view level (DESIGN.md 4.1): an object `SP` with
  fmt ('csr' | 'csc' | ...), shape, ghost cell : Int x Int -> Real, sorted
  (indices sorted within slices), haszeros (explicitly stored zeros present),
  nstored (stored entries), dtype.
What these proofs decide: which layout / axis number / object each kernel and
library call receives, what is installed on which axis afterwards, aliasing
versus copying (inplace pattern), and the arithmetic of small accessors.  The
content of the kernels' results is *not* re-derived here.
"""
import ast

import z3

from pyvc import smt
from pyvc.prove import contract, world_for
from pyvc.world import World, ASSUMED, VArrVal
from pyvc.values import (SV, VRef, VStr, VTuple, VFn, VVal, VBool, VInt, VReal, VCls, VExc, VOpt, NONE, Obj, Dict, Arr,
                         EngineError, fresh)
from pyvc.engine import Result, to_int, to_real, is_num
from pyvc.smt import I, B, R, Str

F = 'biom/table.py'

ASSUMED.update({
    'sp.tocsr/tocsc': 'scipy: m.tocsr() / m.tocsc() return m itself when the format already matches, otherwise a fresh '
                      'matrix of the requested format with the same shape and cells, sorted indices, no new stored zeros',
    'sp.copy/astype': 'scipy: m.copy() and m.astype(float) return a fresh matrix with the same format, shape, cells, '
                      'index order and stored entries (dtype float64 for astype)',
    'sp.eliminate_zeros': 'scipy: m.eliminate_zeros() removes explicitly stored zeros in place; cells unchanged',
    'sp.sort_indices': 'scipy: m.sort_indices() sorts the indices within each slice in place; cells unchanged',
    'sp.sum': 'scipy/numpy: np.squeeze(np.asarray(m.sum(axis=a))) is the grand total for a=None, the 1-D array of column '
              'sums for a=0 and of row sums for a=1 (a 0-d result for a single vector is turned back by reshape(1))',
    'sp.nnz': 'scipy: m.nnz counts stored entries (explicit zeros included); m.count_nonzero() counts non-zero cells; '
              '(a != b).nnz is the number of cells in which a and b differ',
    'kernel._filter': 'view-level restatement of the _filter kernel (array-level contracts proved in '
                      'contracts/filter_kernels.py): returns (matrix in the layout of `axis`, ids, metadata) for the kept '
                      'vectors; works in place on the matrix when its layout already matches',
    'kernel._transform': 'view-level restatement of the _transform kernel (array-level contract proved): rewrites the '
                         'stored values of the matrix in place, needs the layout that matches `axis`',
    'kernel.subsample': 'view-level restatement of the subsample kernels: rarefy each *slice* of the compressed matrix '
                        'handed over, in place',
    'errcheck': 'biom.err.errcheck(table) (all functions of biom/err.py are proved under C20) has no effect on the table',
    'deepcopy': 'copy.deepcopy returns a fresh structure sharing nothing mutable with its argument',
    'np.asarray': 'numpy.asarray returns its argument when it already is an array',
    'Table.__init__': 'the Table constructor (input forms checked by the bounded tier of C17 / C05) called with a scipy '
                      'matrix stores a fresh float64 CSR matrix with the same cells, the given id arrays, casts metadata and '
                      'builds both id->index dicts',
})


class VGhost(SV):
    kind = 'ghost'

    def __init__(self, term):
        self.term = term


CELL = z3.ArraySort(I, z3.ArraySort(I, R))
rowsum = z3.Function('rowsum', CELL, I, I, R)      # (cells, ncols, i)
colsum = z3.Function('colsum', CELL, I, I, R)      # (cells, nrows, j)
total = z3.Function('total', CELL, I, I, R)
nnz_true = z3.Function('nnz_true', CELL, I, I, I)
ndiff = z3.Function('ndiff', CELL, CELL, I, I, I)


class TableWorld(World):

    # ---- inputs ----------------------------------------------------------------
    def make_input(self, eng, st, name, ty):
        if ty == 'SP':
            return self.make_sp(eng, st, name)
        if ty == 'Ghost':
            return VGhost(fresh(name, CELL))
        return super().make_input(eng, st, name, ty)

    def make_sp(self, eng, st, name, **over):
        m, n = fresh(name + '_m', I), fresh(name + '_n', I)
        st.assume(m >= 0, n >= 0)
        cell = fresh(name + '_cell', CELL)
        nst = fresh(name + '_nstored', I)
        hz = fresh(name + '_haszeros', B)
        st.assume(nst >= nnz_true(cell, m, n), hz == (nst > nnz_true(cell, m, n)), nnz_true(cell, m, n) >= 0)
        f = {'fmt': VStr(fresh(name + '_fmt', Str)), '_shape': VTuple([VInt(m), VInt(n)]), 'cell': VGhost(cell),
             'sorted': VBool(fresh(name + '_sorted', B)), 'haszeros': VBool(hz), 'nstored': VInt(nst),
             'dtype': VStr(fresh(name + '_dtype', Str))}
        f.update(over)
        return st.alloc(Obj('SP', f))

    def make_object(self, eng, st, name, cls):
        if cls == 'Table':
            f = {'_data': self.make_sp(eng, st, name + '_data'),
                 '_sample_ids': eng.make_input(st, name + '_sids', 'Arr[Str]'),
                 '_observation_ids': eng.make_input(st, name + '_oids', 'Arr[Str]'),
                 '_sample_metadata': eng.make_input(st, name + '_smd', 'Opt[Tup[Val]]'),
                 '_observation_metadata': eng.make_input(st, name + '_omd', 'Opt[Tup[Val]]'),
                 '_sample_index': eng.make_input(st, name + '_sidx', 'Dict[Str,Int]'),
                 '_obs_index': eng.make_input(st, name + '_oidx', 'Dict[Str,Int]'),
                 'type': eng.make_input(st, name + '_type', 'Val'),
                 'table_id': eng.make_input(st, name + '_tid', 'Val')}
            return st.alloc(Obj('Table', f))
        raise EngineError('no object model for class %s' % cls)

    def globals_for(self, eng, st, c):
        a, b = fresh('a', CELL), fresh('b', CELL)
        m, n = fresh('m', I), fresh('n', I)
        # equal matrices have the same number of non-zero cells; a matrix does not differ from itself
        st.assume(z3.ForAll([a, b, m, n], z3.Implies(ndiff(a, b, m, n) == 0, nnz_true(a, m, n) == nnz_true(b, m, n)),
                            patterns=[ndiff(a, b, m, n)]),
                  z3.ForAll([a, m, n], ndiff(a, a, m, n) == 0, patterns=[ndiff(a, a, m, n)]))
        return {}

    def may_inline(self, fv):
        # loop-free accessors of Table are executed in place (still the real code)
        return fv.qualname in ('Table.shape', 'Table.matrix_data', 'Table.dtype', 'Table.metadata')

    def has_method(self, cls, name):
        if cls in ('SP', 'SPDIFF', 'RNG'):
            return True       # library objects: methods carry assumed contracts
        return super().has_method(cls, name)

    def obj_attr(self, eng, st, base, n, attr):
        if n.cls == 'Table' and attr == '__class__':
            return VCls('Table', 'Table')
        if n.cls in ('SP', 'SPDIFF') and attr == 'nnz':
            self.used.add('sp.nnz')
            return n.fields['nstored']
        if n.cls == 'SP' and attr == 'T':
            raise EngineError('.T of a view-level matrix')
        return super().obj_attr(eng, st, base, n, attr)

    # ---- records of kernel / library calls (ghost) ----------------------------------
    def record(self, st, name, args, ret=None, pre=None):
        st = st.copy()
        st.marks = dict(st.marks)
        st.marks['kcalls'] = list(st.marks.get('kcalls', [])) + [(name, list(args), ret, pre or {})]
        return st

    def _kcalls(self, st, name):
        return [c for c in st.marks.get('kcalls', []) if c[0] == name]

    def spec_call(self, eng, st, n, e, bound):
        if n == 'kcount':
            return VInt(len(self._kcalls(st, e.args[0].value)))
        if n in ('karg', 'kret', 'kpre'):
            calls = self._kcalls(st, e.args[0].value)
            which = e.args[1].value if n != 'kret' and len(e.args) > (3 if n == 'kpre' else 2) else 0
            if not calls:
                # no such call on this path: an unconstrained value (the contract guards it with kcount)
                return VBool(fresh('nocall', B)) if n == 'kpre' else VInt(fresh('nocall', I))
            c = calls[-1] if n != 'karg' or len(e.args) < 3 else calls[e.args[2].value]
            if n == 'karg':
                return c[1][e.args[1].value]
            if n == 'kret':
                return c[2]
            return c[3][(e.args[1].value, e.args[2].value)]
        if n == 'cell':
            m = eng.sev(e.args[0], st, bound)
            i, j = to_int(eng.sev(e.args[1], st, bound)), to_int(eng.sev(e.args[2], st, bound))
            return VReal(st.node(m).fields['cell'].term[i][j])
        if n == 'samecells':
            a, b = eng.sev(e.args[0], st, bound), eng.sev(e.args[1], st, bound)
            ta = st.node(a).fields['cell'].term if a.kind == 'ref' else a.term
            tb = st.node(b).fields['cell'].term if b.kind == 'ref' else b.term
            return VBool(ta == tb)
        if n in ('rowsum', 'colsum'):
            m = st.node(eng.sev(e.args[0], st, bound))
            k = to_int(eng.sev(e.args[1], st, bound))
            sh = m.fields['_shape'].items
            if n == 'rowsum':
                return VReal(rowsum(m.fields['cell'].term, sh[1].term, k))
            return VReal(colsum(m.fields['cell'].term, sh[0].term, k))
        if n in ('total', 'nnz_true'):
            m = st.node(eng.sev(e.args[0], st, bound))
            sh = m.fields['_shape'].items
            fn = total if n == 'total' else nnz_true
            t = fn(m.fields['cell'].term, sh[0].term, sh[1].term)
            return VReal(t) if n == 'total' else VInt(t)
        if n == 'ndiff':
            a, b = st.node(eng.sev(e.args[0], st, bound)), st.node(eng.sev(e.args[1], st, bound))
            sh = a.fields['_shape'].items
            return VInt(ndiff(a.fields['cell'].term, b.fields['cell'].term, sh[0].term, sh[1].term))
        if n == 'same_seq':
            a, b = eng.sev(e.args[0], st, bound), eng.sev(e.args[1], st, bound)
            return VBool(eng.equal(st, a, b))
        return super().spec_call(eng, st, n, e, bound)

    # ---- scipy matrix methods (assumed contracts) -------------------------------------
    def obj_method(self, eng, st, recv, n, name, args, kwargs, node, starv=None, dstar=None):
        if n.cls == 'SP':
            return self.sp_method(eng, st, recv, n, name, args, kwargs, node)
        if n.cls == 'RNG':
            return self.rng_method(eng, st, recv, n, name, args, kwargs, node)
        return super().obj_method(eng, st, recv, n, name, args, kwargs, node, starv, dstar)

    def sp_clone(self, st, n, **over):
        f = dict(n.fields)
        f.update(over)
        return st.alloc(Obj('SP', f))

    def sp_method(self, eng, st, recv, n, name, args, kwargs, node):
        if name in ('tocsr', 'tocsc'):
            self.used.add('sp.tocsr/tocsc')
            want = name[2:]
            out = []
            yes, no = eng.fork(st, n.fields['fmt'].term == smt.str_lit(want))
            for s in yes:
                out.append(Result(s, recv))
            for s in no:
                s = s.copy()
                out.append(Result(s, self.sp_clone(s, n, fmt=VStr(want), sorted=VBool(True))))
            return out
        if name == 'copy':
            self.used.add('sp.copy/astype')
            st = st.copy()
            return [Result(st, self.sp_clone(st, n))]
        if name == 'astype':
            self.used.add('sp.copy/astype')
            st = st.copy()
            return [Result(st, self.sp_clone(st, n, dtype=VStr('float64')))]
        if name == 'getformat':
            return [Result(st, n.fields['fmt'])]
        if name == 'eliminate_zeros':
            self.used.add('sp.eliminate_zeros')
            st = st.copy()
            sh = n.fields['_shape'].items
            st.setnode(recv, n.replace(haszeros=VBool(False),
                                       nstored=VInt(nnz_true(n.fields['cell'].term, sh[0].term, sh[1].term))))
            return [Result(st, NONE)]
        if name == 'sort_indices':
            self.used.add('sp.sort_indices')
            st = st.copy()
            st.setnode(recv, n.replace(sorted=VBool(True)))
            return [Result(st, NONE)]
        if name == 'count_nonzero':
            self.used.add('sp.nnz')
            sh = n.fields['_shape'].items
            return [Result(st, VInt(nnz_true(n.fields['cell'].term, sh[0].term, sh[1].term)))]
        if name == 'sum':
            self.used.add('sp.sum')
            ax = kwargs.get('axis', args[0] if args else NONE)
            sh = n.fields['_shape'].items
            cell = n.fields['cell'].term
            out = []
            for s, a in eng.norm_opt(st, ax):
                if a.kind == 'none':
                    out.append(Result(s, VReal(total(cell, sh[0].term, sh[1].term))))
                    continue
                t = to_int(a)
                y0, rest = eng.fork(s, t == 0)
                for s0 in y0:
                    s0 = s0.copy()
                    arr = fresh('colsums', z3.ArraySort(I, R))
                    j = fresh('j', I)
                    s0.assume(z3.ForAll([j], arr[j] == colsum(cell, sh[0].term, j), patterns=[arr[j]]))
                    out.append(Result(s0, s0.alloc(Arr('real', arr, sh[1].term, 'ndarray'))))
                for s1 in rest:
                    y1, bad = eng.fork(s1, t == 1)
                    for s2 in y1:
                        s2 = s2.copy()
                        arr = fresh('rowsums', z3.ArraySort(I, R))
                        i = fresh('i', I)
                        s2.assume(z3.ForAll([i], arr[i] == rowsum(cell, sh[1].term, i), patterns=[arr[i]]))
                        out.append(Result(s2, s2.alloc(Arr('real', arr, sh[0].term, 'ndarray'))))
                    for s2 in bad:
                        out.append(eng.exc(s2, 'ValueError'))
            return out
        raise EngineError('%s:%d: scipy matrix method %s has no assumed contract' % (eng.rel, node.lineno, name))

    def rng_method(self, eng, st, recv, n, name, args, kwargs, node):
        if name == 'shuffle':
            st = st.copy()
            eng.havoc_node(st, args[0])
            return [Result(self.record(st, 'rng.shuffle', args), NONE)]
        raise EngineError('rng method %s' % name)

    def arr_method(self, eng, st, recv, n, name, args, kwargs, node):
        if name == 'reshape':
            return [Result(st, recv)]
        return super().arr_method(eng, st, recv, n, name, args, kwargs, node)

    def compare_objects(self, eng, st, op, a, b):
        """(a != b) on scipy matrices: a matrix whose nnz is the number of differing cells;
        t == u on tables: Table.__eq__"""
        if isinstance(op, (ast.Eq, ast.NotEq)) and a.kind == 'ref' and b.kind == 'ref':
            na, nb = st.node(a), st.node(b)
            if isinstance(na, Obj) and na.cls == 'Table':
                dunder = '__eq__' if isinstance(op, ast.Eq) else '__ne__'
                cnode = [m for m in self.module_classes['Table'].body
                         if isinstance(m, ast.FunctionDef) and m.name == dunder][0]
                fv = VFn('def', rel=self.rel, qualname='Table.' + dunder, node=cnode, self_val=a)
                return eng.call_def(st, fv, [b], {}, ast.Compare(left=ast.Name(id='a'), ops=[op], comparators=[], lineno=0))
        if isinstance(op, ast.NotEq) and a.kind == 'ref' and b.kind == 'ref':
            na, nb = st.node(a), st.node(b)
            if isinstance(na, Obj) and isinstance(nb, Obj) and na.cls == 'SP' and nb.cls == 'SP':
                self.used.add('sp.nnz')
                sh = na.fields['_shape'].items
                d = ndiff(na.fields['cell'].term, nb.fields['cell'].term, sh[0].term, sh[1].term)
                st = st.copy()
                i, j = fresh('i', I), fresh('j', I)
                ca, cb = na.fields['cell'].term, nb.fields['cell'].term
                st.assume(d >= 0)
                return Result(st, st.alloc(Obj('SPDIFF', {'nstored': VInt(d)})))
        return None

    # ---- builtins: kernels, numpy, copy ------------------------------------------------
    def call_builtin(self, eng, st, name, args, kwargs, node, starv=None, dstar=None):
        line = getattr(node, 'lineno', 0)
        short = name.split('.')[-1]
        if name.endswith('_filter._filter'):
            return self.k_filter(eng, st, args, kwargs, node)
        if name.endswith('_transform._transform'):
            return self.k_transform(eng, st, args, kwargs, node)
        if name.endswith('_subsample.subsample'):
            return self.k_subsample(eng, st, args, kwargs, node)
        if name == 'biom.err.errcheck':
            self.used.add('errcheck')
            return [Result(self.record(st, 'errcheck', args), NONE)]
        if name == 'copy.deepcopy':
            self.used.add('deepcopy')
            st = st.copy()
            return [Result(st, eng.fresh_copy(st, args[0]))]
        if name in ('np.asarray', 'numpy.asarray', 'np.squeeze', 'numpy.squeeze'):
            self.used.add('np.asarray')
            return [Result(st, args[0])]
        if name in ('np.random.default_rng',):
            st = st.copy()
            return [Result(st, st.alloc(Obj('RNG', {})))]
        if name == 'scipy.sparse.isspmatrix':
            v = args[0]
            return [Result(st, VBool(v.kind == 'ref' and isinstance(st.node(v), Obj) and st.node(v).cls == 'SP'))]
        return super().call_builtin(eng, st, name, args, kwargs, node, starv, dstar)

    def global_name(self, eng, st, n):
        if n == 'np':
            from pyvc.values import VMod
            return VMod('np')
        return super().global_name(eng, st, n)

    def _sp_pre(self, st, ref, pos):
        n = st.node(ref)
        return {(pos, k): n.fields[k] for k in ('fmt', 'sorted', 'haszeros')}

    def k_filter(self, eng, st, args, kwargs, node):
        """_filter(arr, ids, metadata, index, ids_to_keep, axis, invert) -> (arr', ids', metadata')"""
        self.used.add('kernel._filter')
        line = node.lineno
        arr, ids, md, index, keep, axis = args[:6]
        n = st.node(arr)
        ax = to_int(axis)
        sh = n.fields['_shape'].items
        # requires of the kernel (from the proved array-level contracts)
        eng.oblige(st, 'call-pre/_filter.axis-is-0-or-1', z3.Or(ax == 0, ax == 1), line)
        eng.oblige(st, 'call-pre/_filter.ids-match-axis-length',
                   eng.length(st, ids).term == z3.If(ax == 0, sh[0].term, sh[1].term), line)
        # sorted indices are needed by the predicate path whenever the layout is used as it is
        eng.oblige(st, 'call-pre/_filter.indices-sorted-when-layout-kept',
                   z3.Implies(n.fields['fmt'].term == z3.If(ax == 0, smt.str_lit('csr'), smt.str_lit('csc')),
                              n.fields['sorted'].term), line)
        pre = self._sp_pre(st, arr, 0)
        st_before = st
        st = st.copy()
        k = fresh('nkept', I)
        st.assume(k >= 0, k <= z3.If(ax == 0, sh[0].term, sh[1].term))
        newshape = VTuple([VInt(z3.If(ax == 0, k, sh[0].term)), VInt(z3.If(ax == 0, sh[1].term, k))])
        fmt = VStr(z3.If(ax == 0, smt.str_lit('csr'), smt.str_lit('csc')))
        same = n.fields['fmt'].term == fmt.term
        # in place when the layout matches, otherwise on a converted copy: the returned matrix is fresh in the
        # model, and the argument matrix is havoced when it may have been compacted in place
        cell2 = fresh('kept_cells', CELL)
        nst = fresh('kept_nstored', I)
        hz = fresh('kept_haszeros', B)
        st.assume(nst >= 0)
        ret_m = st.alloc(Obj('SP', {'fmt': fmt, '_shape': newshape, 'cell': VGhost(cell2), 'sorted': VBool(True),
                                    'haszeros': VBool(hz), 'nstored': VInt(nst), 'dtype': n.fields['dtype']}))
        # the argument object: unchanged if converted, equal to the result if worked on in place
        n2 = st.node(arr)
        st.setnode(arr, n2.replace(_shape=VTuple([VInt(z3.If(same, newshape.items[0].term, sh[0].term)),
                                                   VInt(z3.If(same, newshape.items[1].term, sh[1].term))]),
                                   cell=VGhost(z3.If(same, cell2, n.fields['cell'].term)),
                                   nstored=VInt(z3.If(same, nst, n.fields['nstored'].term)),
                                   haszeros=VBool(z3.If(same, hz, n.fields['haszeros'].term))))
        ids_n = st.node(ids)
        ret_ids = st.alloc(Arr('str', fresh('kept_ids', ids_n.a.sort()), k, 'ndarray'))
        out = []
        for s, mdv in eng.norm_opt(st, md):
            if mdv.kind == 'none':
                ret_md = NONE
            else:
                s = s.copy()
                mn = s.node(mdv)
                ret_md = s.alloc(Arr(mn.elem, fresh('kept_md', mn.a.sort()), k, 'tuple'))
            ret = VTuple([ret_m, ret_ids, ret_md])
            out.append(Result(self.record(s, '_filter', args, ret, pre), ret))
        # unknown id in an id collection: raised before anything is written
        ex = st_before.copy()
        out.append(eng.exc(self.record(ex, '_filter-raised', args, None, pre), 'KeyError'))
        return out

    def k_transform(self, eng, st, args, kwargs, node):
        """_transform(arr, ids, metadata, function, axis)"""
        self.used.add('kernel._transform')
        line = node.lineno
        arr, ids, md, f, axis = args[:5]
        n = st.node(arr)
        ax = to_int(axis)
        sh = n.fields['_shape'].items
        eng.oblige(st, 'call-pre/_transform.axis-is-0-or-1', z3.Or(ax == 0, ax == 1), line)
        eng.oblige(st, 'call-pre/_transform.layout-matches-axis',
                   n.fields['fmt'].term == z3.If(ax == 0, smt.str_lit('csr'), smt.str_lit('csc')), line)
        eng.oblige(st, 'call-pre/_transform.ids-cover-axis',
                   eng.length(st, ids).term >= z3.If(ax == 0, sh[0].term, sh[1].term), line)
        pre = self._sp_pre(st, arr, 0)
        st = st.copy()
        n2 = st.node(arr)
        cell2 = fresh('transformed_cells', CELL)
        hz = fresh('transformed_haszeros', B)
        st.setnode(arr, n2.replace(cell=VGhost(cell2), haszeros=VBool(hz)))
        return [Result(self.record(st, '_transform', args, NONE, pre), NONE)]

    def k_subsample(self, eng, st, args, kwargs, node):
        """subsample(arr, n, with_replacement, rng)"""
        self.used.add('kernel.subsample')
        arr = args[0]
        pre = self._sp_pre(st, arr, 0)
        st = st.copy()
        n2 = st.node(arr)
        cell2 = fresh('subsampled_cells', CELL)
        hz = fresh('subsampled_haszeros', B)
        st.setnode(arr, n2.replace(cell=VGhost(cell2), haszeros=VBool(hz)))
        return [Result(self.record(st, 'subsample', args, NONE, pre), NONE)]

    def construct(self, eng, st, cls, args, kwargs, node):
        if cls.name == 'Table':
            # Table(...): a new object initialised by Table.__init__, whose contract (proved for scipy-matrix input,
            # see the end of this file) is what callers get
            data = args[0]
            if not (data.kind == 'ref' and isinstance(st.node(data), Obj) and st.node(data).cls == 'SP'):
                raise EngineError('%s:%d: Table(...) with non-scipy data is outside the Tier-A model' % (eng.rel, node.lineno))
            st = st.copy()
            t = self.make_object(eng, st, 'newtable', 'Table')
            init = [m for m in self.module_classes['Table'].body if isinstance(m, ast.FunctionDef) and m.name == '__init__'][0]
            fv = VFn('def', rel=self.rel, qualname='Table.__init__', node=init, self_val=t)
            out = []
            for r in eng.call_def(st, fv, list(args), dict(kwargs), node):
                if r.exc is not None:
                    out.append(r)
                else:
                    out.append(Result(self.record(r.st, 'Table', args, t), t))
            return out
        if cls.name in ('UnknownAxisError', 'UnknownIDError', 'TableException', 'DisjointIDError'):
            return [Result(st, VExc(cls, list(args)))]
        return super().construct(eng, st, cls, args, kwargs, node)


world_for(F, TableWorld)


def _fresh_copy(self, st, v):
    """deepcopy / fresh structure: new heap nodes with equal contents"""
    if v.kind == 'opt':
        return VOpt(v.is_none, _fresh_copy(self, st, v.val))
    if v.kind == 'ref':
        n = st.node(v)
        if isinstance(n, Arr):
            return st.alloc(n.replace())
        if isinstance(n, Dict):
            return st.alloc(n.replace())
    return v


from pyvc.exec import Exec   # noqa: E402
Exec.fresh_copy = _fresh_copy

# ---------------------------------------------------------------------------
# contracts
# ---------------------------------------------------------------------------
AX = "axis == 'sample' or axis == 'observation'"

contract(F, 'Table._axis_to_num', inline_at_calls=True, tier='P', props=['C05', 'C08', 'C13'],
    types={'self': 'Obj:Table', 'axis': 'Str'},
    ensures=["(axis == 'sample' and result == 1) or (axis == 'observation' and result == 0)"],
    raises={'UnknownAxisError': ["not (%s)" % AX]}, modifies=[])

contract(F, 'Table._invert_axis', inline_at_calls=True, tier='P', props=['C12'],
    types={'self': 'Obj:Table', 'axis': 'Str'},
    requires=[AX],
    ensures=["result == ('observation' if axis == 'sample' else 'sample')"], modifies=[])

contract(F, 'Table._get_sparse_data', inline_at_calls=True, tier='A', props=['C12', 'C13', 'C19'],
    types={'self': 'Obj:Table', 'axis': 'Str'},
    returns='SP',
    ensures=["result.fmt == ('csc' if axis == 'sample' else 'csr')",
             "samecells(result, self._data) and result.shape == self._data.shape",
             # no new stored zeros; the table's own matrix object is handed out only if its layout already matches
             "implies(not old(self._data.haszeros), not result.haszeros)",
             "(result is self._data) == (old(self._data.fmt) == ('csc' if axis == 'sample' else 'csr'))"],
    raises={'UnknownAxisError': ["not (%s)" % AX]}, modifies=[])

contract(F, 'Table._index', inline_at_calls=True, tier='P', props=['C05'],
    types={'self': 'Obj:Table', 'axis': 'Str'},
    ensures=["(axis == 'sample' and result is self._sample_index) or (axis == 'observation' and result is self._obs_index)"],
    raises={'UnknownAxisError': ["not (%s)" % AX]}, modifies=[])

contract(F, 'Table.ids', inline_at_calls=True, tier='P', props=['C05'],
    types={'self': 'Obj:Table', 'axis': 'Str'},
    ensures=["(axis == 'sample' and result is self._sample_ids) or (axis == 'observation' and result is self._observation_ids)"],
    raises={'UnknownAxisError': ["not (%s)" % AX]}, modifies=[])

contract(F, 'Table.index', inline_at_calls=True, tier='P', props=['C05'],
    types={'self': 'Obj:Table', 'id': 'Str', 'axis': 'Str'},
    returns='Int',
    ensures=["id in (self._sample_index if axis == 'sample' else self._obs_index)",
             "result == (self._sample_index if axis == 'sample' else self._obs_index)[id]"],
    raises={'UnknownAxisError': ["not (%s)" % AX],
            # an unknown id is reported as unknown
            'UnknownIDError': [AX, "id not in (self._sample_index if axis == 'sample' else self._obs_index)"]},
    modifies=[])

contract(F, 'Table.exists', inline_at_calls=True, tier='P', props=['C05'],
    types={'self': 'Obj:Table', 'id': 'Str', 'axis': 'Str'},
    ensures=["result == (id in (self._sample_index if axis == 'sample' else self._obs_index))"],
    raises={'UnknownAxisError': ["not (%s)" % AX]}, modifies=[])

contract(F, 'Table.length', inline_at_calls=True, tier='P', props=['C05'],
    types={'self': 'Obj:Table', 'axis': 'Str'},
    ensures=["result == (self._data.shape[1] if axis == 'sample' else self._data.shape[0])"],
    raises={'UnknownAxisError': ["not (%s)" % AX]}, modifies=[])

contract(F, 'Table.nnz', tier='A', props=['C05', 'C16', 'C19'],
    types={'self': 'Obj:Table'}, returns='Int',
    ensures=["result == nnz_true(self._data)",            # the number of non-zero cells, whatever was stored
             "samecells(self._data, old(self._data.cell)) and not self._data.haszeros"],
    modifies=['self._data.*'])

contract(F, 'Table.sum', tier='A', props=['C19', 'C05'],
    types={'self': 'Obj:Table', 'axis': 'Str'},
    returns='Arr[Real]|Real',       # per-axis totals, or the grand total
    ensures=[
        # 'sample' -> one total per sample (column sums), 'observation' -> row sums, 'whole' -> grand total
        "implies(old(axis) == 'sample', len(result) == self._data.shape[1] and all(result[j] == colsum(self._data, j) for j in range(self._data.shape[1])))",
        "implies(old(axis) == 'observation', len(result) == self._data.shape[0] and all(result[i] == rowsum(self._data, i) for i in range(self._data.shape[0])))",
        "implies(old(axis) == 'whole', result == total(self._data))",
        "old(axis) == 'sample' or old(axis) == 'observation' or old(axis) == 'whole'"],
    raises={'UnknownAxisError': ["not (old(axis) == 'sample' or old(axis) == 'observation' or old(axis) == 'whole')"]},
    modifies=[])

contract(F, 'Table._data_equality', tier='A', props=['C16'],
    types={'self': 'Obj:Table', 'other': 'SP'}, returns='Bool',
    requires=["self._data.fmt == 'csr' or self._data.fmt == 'csc'"],
    ensures=[
        # equal iff same shape, dtype and not a single differing cell - stored zeros and layout play no role
        "result == (self._data.shape == other.shape and self._data.dtype == other.dtype and ndiff(self._data, other) == 0)",
        "samecells(self._data, old(self._data.cell))"],
    assumes=["ndiff(a, b) == 0 implies nnz_true(a) == nnz_true(b) (equal matrices have the same number of non-zero cells)"],
    modifies=['self._data', 'self._data.*'])

contract(F, 'Table.transform', tier='A', props=['C13', 'C07'],
    types={'self': 'Obj:Table', 'f': 'Val', 'axis': 'Str', 'inplace': 'Bool'},
    requires=["self._data.fmt == 'csr' or self._data.fmt == 'csc'",
              "len(self._sample_ids) == self._data.shape[1] and len(self._observation_ids) == self._data.shape[0]"],
    ensures=[
        # inplace returns the receiver; otherwise a new table and the receiver keeps its matrix object and cells
        "(result is self) == inplace",
    ],
    internal=[
        "kcount('_transform') == 1",
        # the kernel gets the table's vectors of `axis`: layout, ids and metadata of that axis, without stored zeros
        "kpre('_transform', 0, 'fmt') == ('csc' if old(axis) == 'sample' else 'csr')",
        "not kpre('_transform', 0, 'haszeros')",
        "implies(old(axis) == 'sample', karg('_transform', 1) is result._sample_ids and same_seq(karg('_transform', 2), result._sample_metadata))",
        "implies(old(axis) == 'observation', karg('_transform', 1) is result._observation_ids and same_seq(karg('_transform', 2), result._observation_metadata))",
        "karg('_transform', 4) == (1 if old(axis) == 'sample' else 0)",
        # the transformed matrix is what the returned table holds, zeros eliminated
        "result._data is karg('_transform', 0) and not result._data.haszeros",
        "implies(not inplace, self._data is oldref(self._data) and samecells(self._data, old(self._data.cell)) "
        "        and karg('_transform', 0) is not self._data)",
    ],
    raises={'UnknownAxisError': ["not (%s)" % AX.replace("axis ==", "old(axis) ==")]},
    returns='Alias[self]|Obj:Table',
    modifies=[("inplace", 'self._data'), ("inplace", 'self._data.*')])

contract(F, 'Table.copy', tier='A', props=['C07', 'C06'],
    types={'self': 'Obj:Table'},
    returns='Obj:Table',
    ensures=["result is not self", "result._data is not self._data", "samecells(result._data, self._data)",
             "result._data.shape == self._data.shape", "result._data.fmt == 'csr'",
             "implies(not self._data.haszeros, not result._data.haszeros)",
             "result._sample_ids is not self._sample_ids and same_seq(result._sample_ids, self._sample_ids)",
             "result._observation_ids is not self._observation_ids and same_seq(result._observation_ids, self._observation_ids)",
             # metadata entry by entry - or absent, when no entry holds anything (the constructor's rule)
             "isnone(result._sample_metadata) or same_seq(result._sample_metadata, self._sample_metadata)",
             "isnone(result._observation_metadata) or same_seq(result._observation_metadata, self._observation_metadata)",
             "implies(isnone(self._sample_metadata), isnone(result._sample_metadata))",
             "implies(isnone(self._observation_metadata), isnone(result._observation_metadata))",
             # ... and it is dropped only then
             "implies(isnone(result._sample_metadata) and not isnone(self._sample_metadata), all_empty(self._sample_metadata))",
             "implies(isnone(result._observation_metadata) and not isnone(self._observation_metadata), all_empty(self._observation_metadata))"],
    modifies=[])


# ---------------------------------------------------------------------------
# id -> index dicts
# ---------------------------------------------------------------------------
def _spec_is_index_of(self, eng, st, n, e, bound):
    if n == 'is_index_of':
        dv, av = eng.sev(e.args[0], st, bound), eng.sev(e.args[1], st, bound)
        dv = dv.val if dv.kind == 'opt' else dv
        d = eng.as_dict(st, dv)
        a = eng.as_arr(st, av)
        if d is None or a is None:
            return VBool(fresh('not_a_lookup', B))
        j, k = fresh('j', I), fresh('k', Str)
        return VBool(z3.And(
            z3.ForAll([j], z3.Implies(z3.And(0 <= j, j < a[2]), d[2][a[1][j]]), patterns=[a[1][j]]),
            z3.ForAll([k], z3.Implies(d[2][k], z3.And(0 <= d[3][k], d[3][k] < a[2], a[1][d[3][k]] == k)), patterns=[d[2][k]])))
    return _orig_spec_call_t(self, eng, st, n, e, bound)


_orig_spec_call_t = TableWorld.spec_call
TableWorld.spec_call = _spec_is_index_of

ASSUMED['index_list'] = ('biom.util.index_list(ids) = {id: position} (a dict comprehension over enumerate): every id is a '
                         'key and every key maps to a position holding that id')


def _call_builtin_index_list(self, eng, st, name, args, kwargs, node, starv=None, dstar=None):
    if name == 'biom.util.index_list':
        self.used.add('index_list')
        st = st.copy()
        a = st.node(args[0])
        d = st.alloc(Dict('str', 'int', fresh('il_dom', z3.ArraySort(Str, B)), fresh('il_val', z3.ArraySort(Str, I))))
        dn = st.node(d)
        j, k = fresh('j', I), fresh('k', Str)
        st.assume(z3.ForAll([j], z3.Implies(z3.And(0 <= j, j < a.n), dn.dom[a.a[j]]), patterns=[a.a[j]]),
                  z3.ForAll([k], z3.Implies(dn.dom[k], z3.And(0 <= dn.val[k], dn.val[k] < a.n, a.a[dn.val[k]] == k)),
                            patterns=[dn.dom[k]]))
        return [Result(st, d)]
    return _orig_call_builtin_t(self, eng, st, name, args, kwargs, node, starv, dstar)


_orig_call_builtin_t = TableWorld.call_builtin
TableWorld.call_builtin = _call_builtin_index_list

contract(F, 'Table._index_ids', inline_at_calls=True, tier='A', props=['C05'],
    types={'self': 'Obj:Table', 'observation_index': 'Opt[Dict[Str,Int]]', 'sample_index': 'Opt[Dict[Str,Int]]'},
    ensures=[
        # a lookup that is not handed in is rebuilt from the current ids; one that is handed in is installed as it is
        "implies(isnone(sample_index), is_index_of(self._sample_index, self._sample_ids))",
        "implies(not isnone(sample_index), self._sample_index is sample_index)",
        "implies(isnone(observation_index), is_index_of(self._obs_index, self._observation_ids))",
        "implies(not isnone(observation_index), self._obs_index is observation_index)"],
    modifies=['self._sample_index', 'self._obs_index'])

# in place: the matrix, and ids / metadata / both lookups of the filtered axis (the other lookup is replaced by a copy)
TMOD = [("inplace", 'self._data'), ("inplace", 'self._data.*'),
        ("inplace and axis == 'sample'", 'self._sample_ids'), ("inplace", 'self._sample_metadata'),
        ("inplace and axis == 'observation'", 'self._observation_ids'),
        ("inplace", 'self._observation_metadata'),
        ("inplace", 'self._sample_index'), ("inplace", 'self._obs_index')]
OAX = AX.replace("axis ==", "old(axis) ==")
WF_T = ["self._data.fmt == 'csr' or self._data.fmt == 'csc'",
        "len(self._sample_ids) == self._data.shape[1] and len(self._observation_ids) == self._data.shape[0]"]

ASSUMED['Table._cast_metadata'] = (
    'Table._cast_metadata replaces each metadata tuple by a tuple of defaultdicts with the same items (equal entry by '
    'entry), or by None when no entry holds anything; it touches nothing else (its body - nested closures over '
    'collections.defaultdict - is outside the verified subset; the bounded tier evaluates it)')
contract(F, 'Table.filter', tier='A', props=['C08', 'C05', 'C07', 'C20'],
    types={'self': 'Obj:Table', 'ids_to_keep': 'Val', 'axis': 'Str', 'invert': 'Bool', 'inplace': 'Bool'},
    requires=WF_T,
    returns='Alias[self]|Obj:Table',
    ensures=[
        "(result is self) == inplace",
        "implies(inplace and old(axis) == 'sample', self._observation_ids is oldref(self._observation_ids))",
        "implies(inplace and old(axis) == 'observation', self._sample_ids is oldref(self._sample_ids))",
        # a non-in-place filter leaves the receiver alone
        "implies(not inplace, self._data is oldref(self._data) and samecells(self._data, old(self._data.cell)) "
        "        and self._sample_ids is oldref(self._sample_ids) and self._observation_ids is oldref(self._observation_ids)"
        "        and self._data.shape == old(self._data.shape))",
        # the metadata of the other axis is re-cast, not changed: entry by entry what it was (or absent when nothing is in it)
        "implies(old(axis) == 'sample', isnone(result._observation_metadata) "
        "        or same_seq(result._observation_metadata, old(self._observation_metadata)))",
        "implies(old(axis) == 'observation', isnone(result._sample_metadata) "
        "        or same_seq(result._sample_metadata, old(self._sample_metadata)))",
        # both lookups describe the ids of the result
        "implies(old(axis) == 'sample', is_index_of(result._sample_index, result._sample_ids) "
        "        and same_dict(result._obs_index, old(self._obs_index)))",
        "implies(old(axis) == 'observation', is_index_of(result._obs_index, result._observation_ids) "
        "        and same_dict(result._sample_index, old(self._sample_index)))",
        "result._data.fmt == ('csc' if old(axis) == 'sample' else 'csr')",
        "len(result._sample_ids) == result._data.shape[1] and len(result._observation_ids) == result._data.shape[0]",
    ],
    internal=[
        "kcount('_filter') >= 1",
        # the kernel works on the vectors of `axis` of the table being filtered, with the receiver's lookup for that axis
        "karg('_filter', 5) == (1 if old(axis) == 'sample' else 0)",
        "implies(old(axis) == 'sample', karg('_filter', 3) is oldref(self._sample_index))",
        "implies(old(axis) == 'observation', karg('_filter', 3) is oldref(self._obs_index))",
        # what the kernel returns is installed on that axis, the other axis keeps its ids
        "result._data is kret('_filter')[0]",
        "implies(old(axis) == 'sample', result._sample_ids is kret('_filter')[1] "
        "        and (isnone(result._sample_metadata) or same_seq(result._sample_metadata, kret('_filter')[2]))"
        "        and is_index_of(result._sample_index, result._sample_ids)"
        "        and same_dict(result._obs_index, old(self._obs_index)) and result._obs_index is not oldref(self._obs_index))",
        "implies(old(axis) == 'observation', result._observation_ids is kret('_filter')[1] "
        "        and (isnone(result._observation_metadata) or same_seq(result._observation_metadata, kret('_filter')[2]))"
        "        and is_index_of(result._obs_index, result._observation_ids)"
        "        and same_dict(result._sample_index, old(self._sample_index)) and result._sample_index is not oldref(self._sample_index))",
        # the result is validated
        "kcount('errcheck') >= 1 and karg('errcheck', 0) is result",
    ],
    raises={'UnknownAxisError': ["not (%s)" % OAX],
            # an unknown id: nothing is installed, the table keeps its content
            'KeyError': [OAX, "self._sample_ids is oldref(self._sample_ids) and self._observation_ids is oldref(self._observation_ids)",
                         "self._data is oldref(self._data) and samecells(self._data, old(self._data.cell))"
                         " and self._data.shape == old(self._data.shape)"]},
    modifies=TMOD)

contract(F, 'Table.subsample', tier='A', props=['C12', 'C07'],
    types={'self': 'Obj:Table', 'n': 'Int', 'axis': 'Str', 'by_id': 'Bool', 'with_replacement': 'Bool', 'seed': 'Val'},
    requires=WF_T + [AX],
    returns='Obj:Table',
    ensures=[
        "result is not self",
        "n >= 0 and not (with_replacement and by_id)",
    ],
    internal=[
        # counts are drawn from the vectors of the requested axis: the kernel rarefies the slices of what it is handed
        "implies(not by_id, kcount('subsample') == 1 and kpre('subsample', 0, 'fmt') == ('csc' if axis == 'sample' else 'csr')"
        "        and karg('subsample', 1) == n and karg('subsample', 2) == with_replacement"
        "        and karg('subsample', 0) is not self._data)",
        "implies(by_id, kcount('subsample') == 0 and kcount('rng.shuffle') == 1)",
        # the copy is filtered on the requested axis (kept ids / emptied vectors), then on the other axis
        "implies(by_id, ccount('Table.filter') == 2 and carg('Table.filter', 0, 'axis') == axis "
        "        and carg('Table.filter', 0, 'self') is result and carg('Table.filter', 0, 'inplace'))",
        "implies(not by_id and not with_replacement, ccount('Table.filter') == 2 and carg('Table.filter', 0, 'axis') == axis)",
        "implies(not by_id and with_replacement, ccount('Table.filter') == 3 and carg('Table.filter', 0, 'axis') == axis "
        "        and carg('Table.filter', 1, 'axis') == axis)",
        "carg('Table.filter', ccount_last('Table.filter'), 'axis') == ('observation' if axis == 'sample' else 'sample')",
    ],
    raises={'ValueError': ["n < 0 or (with_replacement and by_id)"]},
    modifies=[])

contract(F, 'Table.head', tier='A', props=['C08'],
    types={'self': 'Obj:Table', 'n': 'Int', 'm': 'Int'},
    requires=WF_T,
    returns='Obj:Table',
    ensures=["result is not self", "n > 0 and m > 0",
             "self._data is oldref(self._data) and samecells(self._data, old(self._data.cell))"],
    internal=[
        # the leading n observation ids are kept first (on a copy), then the leading m sample ids of that result
        "ccount('Table.filter') == 2",
        "carg('Table.filter', 0, 'axis') == 'observation' and carg('Table.filter', 0, 'self') is self "
        "and not carg('Table.filter', 0, 'inplace') and not carg('Table.filter', 0, 'invert')",
        "len(carg('Table.filter', 0, 'ids_to_keep')) == min(n, len(self._observation_ids))",
        "carg('Table.filter', 1, 'axis') == 'sample' and carg('Table.filter', 1, 'self') is result "
        "and not carg('Table.filter', 1, 'invert')",
        "len(carg('Table.filter', 1, 'ids_to_keep')) == min(m, len(self._sample_ids))",
        "all(carg('Table.filter', 0, 'ids_to_keep')[k] == self._observation_ids[k] for k in range(min(n, len(self._observation_ids))))",
        "all(carg('Table.filter', 1, 'ids_to_keep')[k] == self._sample_ids[k] for k in range(min(m, len(self._sample_ids))))",
    ],
    raises={'IndexError': ["n <= 0 or m <= 0"],
            # imprecision of the model: that the table's own leading ids are known to filter is not expressible here
            'KeyError': ["n > 0 and m > 0"]},
    modifies=[])


# ---------------------------------------------------------------------------
# equality (C16), emptiness / density (C05, C19), transpose (C06)
# ---------------------------------------------------------------------------
ASSUMED['np.array_equal'] = ('numpy.array_equal(a, b): same length and equal elements for two arrays / tuples; '
                             'None equals only None')
ASSUMED['sp.transpose'] = 'scipy: m.transpose(copy=True) is a fresh matrix with cells swapped (cell(j, i) = m.cell(i, j))'


def _tw_builtin_eq(self, eng, st, name, args, kwargs, node, starv=None, dstar=None):
    if name in ('np.array_equal', 'numpy.array_equal'):
        self.used.add('np.array_equal')
        return [Result(st, VBool(eng.equal(st, args[0], args[1])))]
    return _orig_call_builtin_eq(self, eng, st, name, args, kwargs, node, starv, dstar)


_orig_call_builtin_eq = TableWorld.call_builtin
TableWorld.call_builtin = _tw_builtin_eq


def _tw_isinstance(self, eng, st, v, cls, node):
    if cls.kind == 'cls' and cls.name == 'Table':
        return [Result(st, VBool(v.kind == 'ref' and isinstance(st.node(v), Obj) and st.node(v).cls == 'Table'))]
    return None


TableWorld.isinstance_hook = _tw_isinstance

SAME_CONTENT = ("self.type == other.type and same_seq(self._observation_ids, other._observation_ids) "
                "and same_seq(self._sample_ids, other._sample_ids) "
                "and same_seq(self._observation_metadata, other._observation_metadata) "
                "and same_seq(self._sample_metadata, other._sample_metadata) "
                "and self._data.shape == other._data.shape and self._data.dtype == other._data.dtype "
                "and ndiff(self._data, other._data) == 0")
EQ_REQ = ["self._data.fmt == 'csr' or self._data.fmt == 'csc'"]

contract(F, 'Table.__eq__', tier='A', props=['C16'],
    types={'self': 'Obj:Table', 'other': 'Obj:Table'}, requires=EQ_REQ, returns='Bool',
    # equal iff type, ids in order, metadata and every cell agree: nothing about layout, index order, stored zeros
    ensures=["result == (%s)" % SAME_CONTENT,
             "samecells(self._data, old(self._data.cell)) and samecells(other._data, old(other._data.cell))"],
    modifies=['self._data', 'self._data.*'])

contract(F, 'Table.__ne__', tier='A', props=['C16'],
    types={'self': 'Obj:Table', 'other': 'Obj:Table'}, requires=EQ_REQ, returns='Bool',
    ensures=["result == (not (%s))" % SAME_CONTENT],
    modifies=['self._data', 'self._data.*'])

contract(F, 'Table.descriptive_equality', tier='A', props=['C16'],
    types={'self': 'Obj:Table', 'other': 'Obj:Table'}, requires=EQ_REQ, returns='Str',
    ensures=["(result == 'Tables appear equal') == (%s)" % SAME_CONTENT],
    modifies=['self._data', 'self._data.*'])

contract(F, 'Table.is_empty', tier='P', props=['C05'],
    types={'self': 'Obj:Table'}, returns='Bool',
    ensures=["result == (len(self._sample_ids) == 0 or len(self._observation_ids) == 0)"], modifies=[])

contract(F, 'Table.get_table_density', tier='A', props=['C19', 'C05'],
    types={'self': 'Obj:Table'}, returns='Real',
    ensures=["implies(len(self._sample_ids) > 0 and len(self._observation_ids) > 0, "
             "        result * (len(self._sample_ids) * len(self._observation_ids)) == nnz_true(self._data))",
             "implies(len(self._sample_ids) == 0 or len(self._observation_ids) == 0, result == 0)"],
    modifies=['self._data.*'])


# ---------------------------------------------------------------------------
# C06: transpose and sort_order (permute / relabel only)
# ---------------------------------------------------------------------------
ASSUMED['sp.fancy'] = ('scipy: m[:, idx] / m[idx, :] with an integer index array is a fresh matrix gathering those columns / '
                       'rows in that order (every index must lie inside the axis); numpy: a[idx] gathers likewise')
ASSUMED['np.array'] = 'numpy.array(seq[, dtype=int]) of a list / tuple / array is an array with the same elements in order'


def _tw_sp_method_c06(self, eng, st, recv, n, name, args, kwargs, node):
    if name == 'transpose':
        self.used.add('sp.transpose')
        st = st.copy()
        sh = n.fields['_shape'].items
        cell = n.fields['cell'].term
        ct = fresh('cellT', CELL)
        i, j = fresh('i', I), fresh('j', I)
        st.assume(z3.ForAll([i, j], ct[i][j] == cell[j][i], patterns=[ct[i][j]]))
        fmt = z3.If(n.fields['fmt'].term == smt.str_lit('csr'), smt.str_lit('csc'),
                    z3.If(n.fields['fmt'].term == smt.str_lit('csc'), smt.str_lit('csr'), n.fields['fmt'].term))
        return [Result(st, self.sp_clone(st, n, cell=VGhost(ct), _shape=VTuple([sh[1], sh[0]]), fmt=VStr(fmt)))]
    return _orig_sp_method(self, eng, st, recv, n, name, args, kwargs, node)


_orig_sp_method = TableWorld.sp_method
TableWorld.sp_method = _tw_sp_method_c06


def _tw_obj_index(self, eng, st, base, n, idx, node):
    """m[:, fancy] and m[fancy, :] on the view-level matrix"""
    if n.cls == 'SP' and idx.kind == 'tuple' and len(idx.items) == 2:
        a, b = idx.items
        full = lambda v: v.kind == 'slice' and v.lo is None and v.hi is None
        pick = b if full(a) else (a if full(b) else None)
        if pick is None or not (pick.kind == 'ref' and isinstance(st.node(pick), Arr) and st.node(pick).elem == 'int'):
            raise EngineError('%s:%d: matrix indexing form is not modelled' % (eng.rel, node.lineno))
        self.used.add('sp.fancy')
        cols = full(a)
        f = st.node(pick)
        sh = n.fields['_shape'].items
        limit = sh[1].term if cols else sh[0].term
        k = fresh('k', I)
        eng.oblige(st, 'call-pre/fancy-index-in-range',
                   z3.ForAll([k], z3.Implies(z3.And(0 <= k, k < f.n), z3.And(0 <= f.a[k], f.a[k] < limit))), node.lineno)
        st = st.copy()
        cell = n.fields['cell'].term
        c2 = fresh('gathered', CELL)
        i, j = fresh('i', I), fresh('j', I)
        if cols:
            st.assume(z3.ForAll([i, j], c2[i][j] == cell[i][f.a[j]], patterns=[c2[i][j]]))
            shape = VTuple([sh[0], VInt(f.n)])
        else:
            st.assume(z3.ForAll([i, j], c2[i][j] == cell[f.a[i]][j], patterns=[c2[i][j]]))
            shape = VTuple([VInt(f.n), sh[1]])
        return [Result(st, self.sp_clone(st, n, cell=VGhost(c2), _shape=shape, sorted=VBool(fresh('gsorted', B))))]
    return None


TableWorld.obj_index = _tw_obj_index


def _tw_builtin_c06(self, eng, st, name, args, kwargs, node, starv=None, dstar=None):
    if name in ('np.array', 'numpy.array'):
        self.used.add('np.array')
        out = []
        for s2, v in eng.norm_opt(st, args[0]):
            if v.kind == 'ref' and isinstance(s2.node(v), Arr):
                s2 = s2.copy()
                n0 = s2.node(v)
                out.append(Result(s2, s2.alloc(Arr(n0.elem, n0.a, n0.n, 'ndarray'))))
            else:
                raise EngineError('%s:%d: np.array of %s' % (eng.rel, node.lineno, v.kind))
        return out
    return _orig_builtin_c06(self, eng, st, name, args, kwargs, node, starv, dstar)


_orig_builtin_c06 = TableWorld.call_builtin
TableWorld.call_builtin = _tw_builtin_c06

contract(F, 'Table.transpose', tier='A', props=['C06', 'C07'],
    types={'self': 'Obj:Table'},
    requires=WF_T,
    returns='Obj:Table',
    ensures=[
        "result is not self and result._data is not self._data",
        # ids and metadata change places, every value keeps its pair of ids
        "same_seq(result._observation_ids, self._sample_ids) and same_seq(result._sample_ids, self._observation_ids)",
        # metadata: entry by entry, or absent when no entry holds anything (the constructor's rule)
        "(isnone(result._observation_metadata) or same_seq(result._observation_metadata, self._sample_metadata)) "
        "and (isnone(result._sample_metadata) or same_seq(result._sample_metadata, self._observation_metadata))",
        "implies(isnone(self._sample_metadata), isnone(result._observation_metadata)) "
        "and implies(isnone(self._observation_metadata), isnone(result._sample_metadata))",
        # ... and it is dropped only then
        "implies(isnone(result._observation_metadata) and not isnone(self._sample_metadata), all_empty(self._sample_metadata))",
        "implies(isnone(result._sample_metadata) and not isnone(self._observation_metadata), all_empty(self._observation_metadata))",
        "result._data.shape[0] == self._data.shape[1] and result._data.shape[1] == self._data.shape[0]",
        "all(cell(result._data, j, i) == cell(self._data, i, j) for i in range(self._data.shape[0]) for j in range(self._data.shape[1]))",
        "samecells(self._data, old(self._data.cell))",
    ],
    modifies=[("self._data.fmt == 'lil'", 'self._data')])


IDX = "(self._sample_index if axis == 'sample' else self._obs_index)"
contract(F, 'Table.sort_order', tier='A', props=['C06', 'C07'],
    types={'self': 'Obj:Table', 'order': 'Arr[Str]', 'axis': 'Str'},
    requires=WF_T + ["is_index_of(self._sample_index, self._sample_ids) and is_index_of(self._obs_index, self._observation_ids)",
                     "isnone(self._sample_metadata) or len(self._sample_metadata) == len(self._sample_ids)",
                     "isnone(self._observation_metadata) or len(self._observation_metadata) == len(self._observation_ids)"],
    returns='Obj:Table',
    ensures=[
        "result is not self and result._data is not self._data and samecells(self._data, old(self._data.cell))",
        # the ids of the axis are exactly the requested order; the other axis is untouched
        "implies(axis == 'sample', same_seq(result._sample_ids, order) and same_seq(result._observation_ids, self._observation_ids)"
        "        and (isnone(result._observation_metadata) or same_seq(result._observation_metadata, self._observation_metadata)))",
        "implies(axis == 'observation', same_seq(result._observation_ids, order) and same_seq(result._sample_ids, self._sample_ids)"
        "        and (isnone(result._sample_metadata) or same_seq(result._sample_metadata, self._sample_metadata)))",
        # every value and every metadata entry travels with its id
        "implies(axis == 'sample', result._data.shape[0] == self._data.shape[0] and result._data.shape[1] == len(order) and "
        "        all(cell(result._data, i, k) == cell(self._data, i, self._sample_index[order[k]]) "
        "            for i in range(self._data.shape[0]) for k in range(len(order))))",
        "implies(axis == 'observation', result._data.shape[1] == self._data.shape[1] and result._data.shape[0] == len(order) and "
        "        all(cell(result._data, k, j) == cell(self._data, self._obs_index[order[k]], j) "
        "            for k in range(len(order)) for j in range(self._data.shape[1])))",
        # metadata present in the result travels with its id (it is absent when no entry holds anything)
        "implies(axis == 'sample' and not isnone(result._sample_metadata), not isnone(self._sample_metadata) and "
        "        all(result._sample_metadata[k] == self._sample_metadata[self._sample_index[order[k]]] for k in range(len(order))))",
        "implies(axis == 'observation' and not isnone(result._observation_metadata), not isnone(self._observation_metadata) and "
        "        all(result._observation_metadata[k] == self._observation_metadata[self._obs_index[order[k]]] for k in range(len(order))))",
        "implies(axis == 'sample' and isnone(self._sample_metadata), isnone(result._sample_metadata))",
        # metadata is dropped only when no entry (of the ids asked for) holds anything
        "implies(axis == 'sample' and isnone(result._sample_metadata) and not isnone(self._sample_metadata), "
        "        all(entry_empty(self._sample_metadata[self._sample_index[order[k]]]) for k in range(len(order))))",
        "implies(axis == 'observation' and isnone(result._observation_metadata) and not isnone(self._observation_metadata), "
        "        all(entry_empty(self._observation_metadata[self._obs_index[order[k]]]) for k in range(len(order))))",
        "implies(axis == 'sample' and isnone(result._observation_metadata) and not isnone(self._observation_metadata), all_empty(self._observation_metadata))",
        "implies(axis == 'observation' and isnone(result._sample_metadata) and not isnone(self._sample_metadata), all_empty(self._sample_metadata))",
        "all(order[k] in %s for k in range(len(order)))" % IDX,
    ],
    raises={'UnknownAxisError': ["not (%s)" % AX],
            # an id that the table does not have is reported as unknown
            'UnknownIDError': [AX, "any(order[k] not in %s for k in range(len(order)))" % IDX]},
    modifies=[])


# pa / norm / rankdata are transforms with a fixed function (its arithmetic is evaluated by the bounded tier)
for _name, _types, _ax in (('pa', {'self': 'Obj:Table', 'inplace': 'Bool'}, "'sample'"),
                           ('norm', {'self': 'Obj:Table', 'axis': 'Str', 'inplace': 'Bool'}, 'axis'),
                           ('rankdata', {'self': 'Obj:Table', 'axis': 'Str', 'inplace': 'Bool', 'method': 'Str'}, 'axis')):
    contract(F, 'Table.' + _name, tier='A', props=['C13', 'C07'],
        types=_types, requires=WF_T,
        returns='Alias[self]|Obj:Table',
        ensures=["(result is self) == inplace"],
        internal=["ccount('Table.transform') == 1 and carg('Table.transform', 0, 'self') is self",
                  "carg('Table.transform', 0, 'axis') == %s and carg('Table.transform', 0, 'inplace') == inplace" % _ax],
        raises={'UnknownAxisError': ["not (%s)" % AX.replace('axis', _ax)]} if _ax == 'axis' else {},
        modifies=[("inplace", 'self._data'), ("inplace", 'self._data.*')])


# sort: the caller's function sees the ids of the axis once; what it returns is the new order, and every value
# and metadata entry travels with its id (sort_order's contract carries that part)
_ORD = "callret(sort_f, 0)"
contract(F, 'Table.sort', tier='A', props=['C06', 'C07'],
    types={'self': 'Obj:Table', 'sort_f': 'Callback[Arr[Str]]->Arr[Str]', 'axis': 'Str'},
    requires=WF_T + ["is_index_of(self._sample_index, self._sample_ids) and is_index_of(self._obs_index, self._observation_ids)",
                     "isnone(self._sample_metadata) or len(self._sample_metadata) == len(self._sample_ids)",
                     "isnone(self._observation_metadata) or len(self._observation_metadata) == len(self._observation_ids)"],
    returns='Obj:Table',
    ensures=[
        "ncalls(sort_f) == 1",
        "implies(axis == 'sample', same_seq(callarg(sort_f, 0, 0), self._sample_ids))",
        "implies(axis == 'observation', same_seq(callarg(sort_f, 0, 0), self._observation_ids))",
        "result is not self and result._data is not self._data and samecells(self._data, old(self._data.cell))",
        "implies(axis == 'sample', same_seq(result._sample_ids, %s) and same_seq(result._observation_ids, self._observation_ids)"
        "        and (isnone(result._observation_metadata) or same_seq(result._observation_metadata, self._observation_metadata)))" % _ORD,
        "implies(axis == 'observation', same_seq(result._observation_ids, %s) and same_seq(result._sample_ids, self._sample_ids)"
        "        and (isnone(result._sample_metadata) or same_seq(result._sample_metadata, self._sample_metadata)))" % _ORD,
        "implies(axis == 'sample', result._data.shape[0] == self._data.shape[0] and result._data.shape[1] == len(%s) and "
        "        all(cell(result._data, i, k) == cell(self._data, i, self._sample_index[%s[k]]) "
        "            for i in range(self._data.shape[0]) for k in range(len(%s))))" % (_ORD, _ORD, _ORD),
        "implies(axis == 'observation', result._data.shape[1] == self._data.shape[1] and result._data.shape[0] == len(%s) and "
        "        all(cell(result._data, k, j) == cell(self._data, self._obs_index[%s[k]], j) "
        "            for k in range(len(%s)) for j in range(self._data.shape[1])))" % (_ORD, _ORD, _ORD),
        "implies(axis == 'sample' and not isnone(result._sample_metadata), not isnone(self._sample_metadata) and "
        "        all(result._sample_metadata[k] == self._sample_metadata[self._sample_index[%s[k]]] for k in range(len(%s))))" % (_ORD, _ORD),
        "implies(axis == 'observation' and not isnone(result._observation_metadata), not isnone(self._observation_metadata) and "
        "        all(result._observation_metadata[k] == self._observation_metadata[self._obs_index[%s[k]]] for k in range(len(%s))))" % (_ORD, _ORD),
        # metadata is dropped only when no entry (of the ids asked for) holds anything
        "implies(axis == 'sample' and isnone(result._sample_metadata) and not isnone(self._sample_metadata), "
        "        all(entry_empty(self._sample_metadata[self._sample_index[%s[k]]]) for k in range(len(%s))))" % (_ORD, _ORD),
        "implies(axis == 'observation' and isnone(result._observation_metadata) and not isnone(self._observation_metadata), "
        "        all(entry_empty(self._observation_metadata[self._obs_index[%s[k]]]) for k in range(len(%s))))" % (_ORD, _ORD),
        "implies(axis == 'sample' and isnone(result._observation_metadata) and not isnone(self._observation_metadata), all_empty(self._observation_metadata))",
        "implies(axis == 'observation' and isnone(result._sample_metadata) and not isnone(self._sample_metadata), all_empty(self._sample_metadata))",
    ],
    raises={'UnknownAxisError': ["not (%s)" % AX], 'UnknownIDError': [AX], '*': []},
    modifies=[])


# ---- element / vector accessors (C05: every accessor answers from the cells of the same matrix) ------------------
ASSUMED['sp.getitem/getrow/getcol'] = (
    'm[i, j] of a csr / csc matrix is the value of cell (i, j) (0 where nothing is stored); negative indices count '
    'from the end; an index outside [-dim, dim) raises IndexError; m.getrow(i) / m.getcol(j) is a new 1 x n / m x 1 '
    'matrix holding that row / column, with the same index rules')


def _norm_index(eng, st, i, dim):
    """[(state, normalised index term)] for the in-range cases, [state] for IndexError"""
    ok, bad = [], []
    y, n = eng.fork(st, z3.And(0 <= i, i < dim))
    ok.extend((s, i) for s in y)
    for s in n:
        y2, n2 = eng.fork(s, z3.And(-dim <= i, i < 0))
        ok.extend((s2, i + dim) for s2 in y2)
        bad.extend(n2)
    return ok, bad


def _tw_obj_index_elem(self, eng, st, base, n, idx, node):
    if (n.cls == 'SP' and idx.kind == 'tuple' and len(idx.items) == 2
            and all(x.kind in ('int', 'bool') for x in idx.items)):
        self.used.add('sp.getitem/getrow/getcol')
        sh = n.fields['_shape'].items
        cell = n.fields['cell'].term
        out = []
        oki, badi = _norm_index(eng, st, to_int(idx.items[0]), sh[0].term)
        out.extend(eng.exc(s, 'IndexError') for s in badi)
        for s, i in oki:
            okj, badj = _norm_index(eng, s, to_int(idx.items[1]), sh[1].term)
            out.extend(eng.exc(s2, 'IndexError') for s2 in badj)
            out.extend(Result(s2, VReal(cell[i][j])) for s2, j in okj)
        return out
    return _prev_obj_index_elem(self, eng, st, base, n, idx, node)


_prev_obj_index_elem = TableWorld.obj_index
TableWorld.obj_index = _tw_obj_index_elem


def _tw_sp_method_vec(self, eng, st, recv, n, name, args, kwargs, node):
    if name in ('getrow', 'getcol'):
        self.used.add('sp.getitem/getrow/getcol')
        sh = n.fields['_shape'].items
        cell = n.fields['cell'].term
        row = name == 'getrow'
        ok, bad = _norm_index(eng, st, to_int(args[0]), sh[0].term if row else sh[1].term)
        out = [eng.exc(s, 'IndexError') for s in bad]
        for s, i in ok:
            s = s.copy()
            c2 = fresh('vec', CELL)
            a, b = fresh('a', I), fresh('b', I)
            if row:
                s.assume(z3.ForAll([a, b], c2[a][b] == cell[i][b], patterns=[c2[a][b]]))
                shape = VTuple([VInt(1), sh[1]])
            else:
                s.assume(z3.ForAll([a, b], c2[a][b] == cell[a][i], patterns=[c2[a][b]]))
                shape = VTuple([sh[0], VInt(1)])
            out.append(Result(s, self.make_sp(eng, s, 'vec', cell=VGhost(c2), _shape=shape,
                                              fmt=VStr('csr' if row else 'csc'))))
        return out
    return _prev_sp_method_vec(self, eng, st, recv, n, name, args, kwargs, node)


_prev_sp_method_vec = TableWorld.sp_method
TableWorld.sp_method = _tw_sp_method_vec

contract(F, 'Table.metadata', inline_at_calls=True, tier='P', props=['C05'],
    types={'self': 'Obj:Table', 'id': 'Opt[Str]', 'axis': 'Str'},
    requires=["isnone(self._sample_metadata) or len(self._sample_metadata) == len(self._sample_ids)",
              "isnone(self._observation_metadata) or len(self._observation_metadata) == len(self._observation_ids)",
              "is_index_of(self._sample_index, self._sample_ids) and is_index_of(self._obs_index, self._observation_ids)"],
    returns='Val',
    ensures=[
        # without an id: the metadata of the requested axis, the object itself
        "implies(isnone(id) and axis == 'sample', result is self._sample_metadata)",
        "implies(isnone(id) and axis == 'observation', result is self._observation_metadata)",
        # with an id: the entry at the position the index of *that axis* gives for it, None without metadata
        "implies(not isnone(id) and axis == 'sample' and not isnone(self._sample_metadata), "
        "        result == self._sample_metadata[self._sample_index[some(id)]])",
        "implies(not isnone(id) and axis == 'observation' and not isnone(self._observation_metadata), "
        "        result == self._observation_metadata[self._obs_index[some(id)]])",
        "implies(not isnone(id) and axis == 'sample' and isnone(self._sample_metadata), isnone(result))",
        "implies(not isnone(id) and axis == 'observation' and isnone(self._observation_metadata), isnone(result))",
    ],
    raises={'UnknownAxisError': ["not (%s)" % AX],
            'UnknownIDError': [AX, "not isnone(id)", "some(id) not in %s" % IDX]},
    modifies=[])

for _nm, _row in (('_get_row', True), ('_get_col', False)):
    _p = 'row_idx' if _row else 'col_idx'
    _dim = 'self._data.shape[%d]' % (0 if _row else 1)
    contract(F, 'Table.' + _nm, tier='A', props=['C05'],
        types={'self': 'Obj:Table', _p: 'Int'}, requires=WF_T,
        returns='SP',
        ensures=[
            "samecells(self._data, old(self._data.cell)) and self._data.shape == old(self._data.shape)",
            "self._data.fmt == '%s'" % ('csr' if _row else 'csc'),
            "result.shape[%d] == 1 and result.shape[%d] == self._data.shape[%d]" % ((0, 1, 1) if _row else (1, 0, 0)),
            # the vector of exactly that position (negative positions count from the end)
            ("all(cell(result, 0, j) == cell(self._data, {p} if {p} >= 0 else {p} + {d}, j) for j in range(self._data.shape[1]))"
             if _row else
             "all(cell(result, i, 0) == cell(self._data, i, {p} if {p} >= 0 else {p} + {d}) for i in range(self._data.shape[0]))")
            .format(p=_p, d=_dim),
        ],
        raises={'IndexError': ["not (-{d} <= {p} and {p} < {d})".format(p=_p, d='old(%s)' % _dim),
                               "samecells(self._data, old(self._data.cell)) and self._data.shape == old(self._data.shape)"]},
        modifies=['self._data', 'self._data.*'])

contract(F, 'Table.__getitem__', inline_at_calls=True, tier='A', props=['C05'],
    types={'self': 'Obj:Table', 'args': 'Pair[Int,Int]'}, requires=WF_T,
    returns='Real',
    ensures=["result == cell(self._data, args[0] if args[0] >= 0 else args[0] + self._data.shape[0], "
             "                            args[1] if args[1] >= 0 else args[1] + self._data.shape[1])",
             "self._data is oldref(self._data)"],
    raises={'IndexError': ["self._data.shape[0] == 0 or self._data.shape[1] == 0 "
                           "or not (-self._data.shape[0] <= args[0] and args[0] < self._data.shape[0]) "
                           "or not (-self._data.shape[1] <= args[1] and args[1] < self._data.shape[1])"]},
    modifies=[])

contract(F, 'Table.get_value_by_ids', tier='A', props=['C05'],
    types={'self': 'Obj:Table', 'obs_id': 'Str', 'samp_id': 'Str'},
    requires=WF_T + ["is_index_of(self._sample_index, self._sample_ids) and is_index_of(self._obs_index, self._observation_ids)"],
    returns='Real',
    ensures=["result == cell(self._data, self._obs_index[obs_id], self._sample_index[samp_id])"],
    raises={'UnknownIDError': ["obs_id not in self._obs_index or samp_id not in self._sample_index"],
            'IndexError': ["self._data.shape[0] == 0 or self._data.shape[1] == 0"]},
    modifies=[])


def _tw_isinstance_slice(self, eng, st, v, cls, node):
    if cls.kind == 'fn' and cls.fk == 'builtin' and cls.name == 'slice':
        return [Result(st, VBool(v.kind == 'slice'))]
    return _prev_isinstance_slice(self, eng, st, v, cls, node)


_prev_isinstance_slice = TableWorld.isinstance_hook
TableWorld.isinstance_hook = _tw_isinstance_slice


def _tw_global_slice(self, eng, st, n):
    if n == 'slice':
        return VFn('builtin', name='slice')
    return _prev_global_slice(self, eng, st, n)


_prev_global_slice = TableWorld.global_name
TableWorld.global_name = _tw_global_slice


def _tw_obj_index_table(self, eng, st, base, n, idx, node):
    if n.cls == 'Table':
        # table[...] is Table.__getitem__(table, (...))
        cls = self.module_classes['Table']
        m = [x for x in cls.body if isinstance(x, ast.FunctionDef) and x.name == '__getitem__'][0]
        fv = VFn('def', rel=self.rel, qualname='Table.__getitem__', node=m, self_val=base)
        return eng.call_def(st, fv, [idx], {}, node)
    return _prev_obj_index_table(self, eng, st, base, n, idx, node)


_prev_obj_index_table = TableWorld.obj_index
TableWorld.obj_index = _tw_obj_index_table


# ---- remove_empty (C08): which vectors are handed to filter ---------------------------------------------------------
rownz = z3.Function('rownz', CELL, I, I, I)      # (cells, ncols, i): number of non-zero cells of row i
colnz = z3.Function('colnz', CELL, I, I, I)      # (cells, nrows, j)
ASSUMED['sp.ne0.sum'] = ('scipy / numpy: (m != 0) is the boolean matrix of the non-zero cells (stored zeros are not non-zero); '
                         'its .sum(axis=0) / .sum(axis=1) holds, per column / per row, the number of non-zero cells '
                         '(ghost functions colnz / rownz, each >= 0); numpy.asarray(x).ravel() of that 1 x n / n x 1 '
                         'matrix is the flat array of those numbers; array > 0 compares element by element')


def _tw_compare_nz(self, eng, st, op, a, b):
    if isinstance(op, ast.NotEq) and a.kind == 'ref' and isinstance(st.node(a), Obj) and st.node(a).cls == 'SP' \
            and b.kind == 'int' and z3.is_int_value(z3.simplify(b.term)) and z3.simplify(b.term).as_long() == 0:
        self.used.add('sp.ne0.sum')
        st = st.copy()
        n = st.node(a)
        return Result(st, st.alloc(Obj('SPNZ', {'cell': n.fields['cell'], '_shape': n.fields['_shape']})))
    if isinstance(op, ast.Gt) and a.kind == 'ref' and isinstance(st.node(a), Arr) and st.node(a).elem in ('int', 'real') \
            and b.kind in ('int', 'real'):
        self.used.add('sp.ne0.sum')
        st = st.copy()
        n = st.node(a)
        res = fresh('gt', z3.ArraySort(I, B))
        k = fresh('k', I)
        st.assume(z3.ForAll([k], res[k] == (n.a[k] > b.term), patterns=[res[k], n.a[k]]))
        return Result(st, st.alloc(Arr('bool', res, n.n, 'ndarray')))
    return _prev_compare_nz(self, eng, st, op, a, b)


_prev_compare_nz = TableWorld.compare_objects
TableWorld.compare_objects = _tw_compare_nz


def _tw_obj_method_nz(self, eng, st, recv, n, name, args, kwargs, node, starv=None, dstar=None):
    if n.cls == 'SPNZ' and name == 'sum':
        ax = kwargs.get('axis', args[0] if args else None)
        if ax is None or ax.kind not in ('int', 'bool'):
            raise EngineError('%s:%d: (m != 0).sum without an integer axis' % (eng.rel, node.lineno))
        sh = n.fields['_shape'].items
        cell = n.fields['cell'].term
        t = to_int(ax)
        out = []
        y0, rest = eng.fork(st, t == 0)
        for s0 in y0:
            s0 = s0.copy()
            arr = fresh('colnz', z3.ArraySort(I, I))
            j = fresh('j', I)
            s0.assume(z3.ForAll([j], z3.And(arr[j] == colnz(cell, sh[0].term, j), arr[j] >= 0),
                                patterns=[arr[j], colnz(cell, sh[0].term, j)]))
            out.append(Result(s0, s0.alloc(Arr('int', arr, sh[1].term, 'ndarray'))))
        for s1 in rest:
            y1, bad = eng.fork(s1, t == 1)
            for s2 in y1:
                s2 = s2.copy()
                arr = fresh('rownz', z3.ArraySort(I, I))
                i = fresh('i', I)
                s2.assume(z3.ForAll([i], z3.And(arr[i] == rownz(cell, sh[1].term, i), arr[i] >= 0),
                                    patterns=[arr[i], rownz(cell, sh[1].term, i)]))
                out.append(Result(s2, s2.alloc(Arr('int', arr, sh[0].term, 'ndarray'))))
            for s2 in bad:
                out.append(eng.exc(s2, 'ValueError'))
        return out
    return _prev_obj_method_nz(self, eng, st, recv, n, name, args, kwargs, node, starv, dstar)


_prev_obj_method_nz = TableWorld.obj_method
TableWorld.obj_method = _tw_obj_method_nz


def _tw_has_method_nz(self, cls, name):
    return cls == 'SPNZ' or _prev_has_method_nz(self, cls, name)


_prev_has_method_nz = TableWorld.has_method
TableWorld.has_method = _tw_has_method_nz


def _tw_arr_method_nz(self, eng, st, recv, n, name, args, kwargs, node):
    if name == 'ravel':
        return [Result(st, recv)]
    return _prev_arr_method_nz(self, eng, st, recv, n, name, args, kwargs, node)


_prev_arr_method_nz = TableWorld.arr_method
TableWorld.arr_method = _tw_arr_method_nz


def _tw_spec_nz(self, eng, st, n, e, bound):
    if n == 'vecnz':
        # vecnz(matrix-or-cells, nrows, ncols, axis-name, k): number of non-zero cells of vector k of that axis
        cells = eng.sev(e.args[0], st, bound)
        ct = st.node(cells).fields['cell'].term if cells.kind == 'ref' else cells.term
        m, nn = to_int(eng.sev(e.args[1], st, bound)), to_int(eng.sev(e.args[2], st, bound))
        ax = eng.sev(e.args[3], st, bound)
        k = to_int(eng.sev(e.args[4], st, bound))
        return VInt(z3.If(ax.term == smt.str_lit('sample'), colnz(ct, m, k), rownz(ct, nn, k)))
    return _prev_spec_nz(self, eng, st, n, e, bound)


_prev_spec_nz = TableWorld.spec_call
TableWorld.spec_call = _tw_spec_nz

_IDS0 = "(old(self._sample_ids) if {ax} == 'sample' else old(self._observation_ids))"
_KEPT0 = "carg('Table.filter', 0, 'ids_to_keep')"
_NZ0 = "vecnz(old(self._data.cell), old(self._data.shape[0]), old(self._data.shape[1]), {ax}, k)"


def _re_first(ax):
    ids, nz = _IDS0.format(ax=ax), _NZ0.format(ax=ax)
    return [
        # every id handed to the first filter call is the id of a vector with at least one non-zero cell ...
        "all(any(%s[k] == %s[p] and %s > 0 for k in range(len(%s))) for p in range(len(%s)))" % (ids, _KEPT0, nz, ids, _KEPT0),
        # ... and every such vector's id is handed over
        "all(implies(%s > 0, any(%s[p] == %s[k] for p in range(len(%s)))) for k in range(len(%s)))" % (nz, _KEPT0, ids, _KEPT0, ids),
    ]


contract(F, 'Table.remove_empty', tier='A', props=['C08', 'C07'],
    types={'self': 'Obj:Table', 'axis': 'Str', 'inplace': 'Bool'},
    requires=WF_T,
    returns='Alias[self]|Obj:Table',
    ensures=["(result is self) == inplace",
             "implies(not inplace, self._data is oldref(self._data) and samecells(self._data, old(self._data.cell)))"],
    internal=[
        "implies(axis == 'whole', ccount('Table.filter') == 2 and carg('Table.filter', 0, 'axis') == 'sample' "
        "        and carg('Table.filter', 1, 'axis') == 'observation' and carg('Table.filter', 1, 'self') is result "
        "        and carg('Table.filter', 1, 'inplace') and not carg('Table.filter', 1, 'invert'))",
        "implies(axis != 'whole', ccount('Table.filter') == 1 and carg('Table.filter', 0, 'axis') == axis)",
        "carg('Table.filter', 0, 'self') is result and carg('Table.filter', 0, 'inplace') and not carg('Table.filter', 0, 'invert')",
    ] + ["implies(axis == 'whole' or axis == 'sample', %s)" % t for t in _re_first("'sample'")]
      + ["implies(axis == 'observation', %s)" % t for t in _re_first("'observation'")],
    raises={'UnknownAxisError': ["not (%s or axis == 'whole')" % AX], 'KeyError': []},
    modifies=[("inplace", 'self._data'), ("inplace", 'self._data.*'),
              ("inplace and axis != 'observation'", 'self._sample_ids'), ("inplace", 'self._sample_metadata'),
              ("inplace and axis != 'sample'", 'self._observation_ids'), ("inplace", 'self._observation_metadata'),
              ("inplace", 'self._sample_index'), ("inplace", 'self._obs_index')])


# ---- update_ids (C06: relabel only) ---------------------------------------------------------------------------------
_OLD_IDS = "(old(self._sample_ids) if axis == 'sample' else old(self._observation_ids))"
_NEW_IDS = "(result._sample_ids if axis == 'sample' else result._observation_ids)"
_UNCHANGED = ("self._sample_ids is oldref(self._sample_ids) and self._observation_ids is oldref(self._observation_ids) "
              "and self._data is oldref(self._data) and samecells(self._data, old(self._data.cell))")
contract(F, 'Table.update_ids', tier='A', props=['C06', 'C07'],
    types={'self': 'Obj:Table', 'id_map': 'Dict[Str,Str]', 'axis': 'Str', 'strict': 'Bool', 'inplace': 'Bool'},
    requires=WF_T,
    returns='Alias[self]|Obj:Table',
    ensures=[
        "(result is self) == inplace",
        # every id of the axis is replaced by what the map says for it, or kept when the map is silent (never truncated)
        "len(%s) == len(%s)" % (_NEW_IDS, _OLD_IDS),
        "all(%s[k] == (id_map[%s[k]] if %s[k] in id_map else %s[k]) for k in range(len(%s)))"
        % (_NEW_IDS, _OLD_IDS, _OLD_IDS, _OLD_IDS, _OLD_IDS),
        "implies(strict, all(%s[k] in id_map for k in range(len(%s))))" % (_OLD_IDS, _OLD_IDS),
        # nothing else moves: the other axis, the metadata of both axes and every cell
        "implies(axis == 'sample', same_seq(result._observation_ids, old(self._observation_ids)))",
        "implies(axis == 'observation', same_seq(result._sample_ids, old(self._sample_ids)))",
        "(isnone(result._sample_metadata) or same_seq(result._sample_metadata, old(self._sample_metadata))) "
        "and (isnone(result._observation_metadata) or same_seq(result._observation_metadata, old(self._observation_metadata)))",
        "implies(inplace, same_seq(result._sample_metadata, old(self._sample_metadata)) "
        "        and same_seq(result._observation_metadata, old(self._observation_metadata)))",
        "implies(isnone(result._sample_metadata) and not isnone(old(self._sample_metadata)), all_empty(old(self._sample_metadata)))",
        "implies(isnone(result._observation_metadata) and not isnone(old(self._observation_metadata)), all_empty(old(self._observation_metadata)))",
        "samecells(result._data, old(self._data.cell)) and result._data.shape == old(self._data.shape)",
        "implies(inplace, result._data is oldref(self._data))",
        "implies(not inplace, %s)" % _UNCHANGED,
        # the lookups describe the new ids
        "is_index_of(result._sample_index, result._sample_ids) and is_index_of(result._obs_index, result._observation_ids)",
        # an in-place update never leaves duplicates behind
        "implies(inplace and axis == 'sample', all(implies(p < q, result._sample_ids[p] != result._sample_ids[q]) "
        "        for p in range(len(result._sample_ids)) for q in range(len(result._sample_ids))))",
        "implies(inplace and axis == 'observation', all(implies(p < q, result._observation_ids[p] != result._observation_ids[q]) "
        "        for p in range(len(result._observation_ids)) for q in range(len(result._observation_ids))))",
    ],
    internal=["kcount('errcheck') >= 1 and karg('errcheck', 0) is result"],
    raises={'UnknownAxisError': ["not (%s)" % AX, _UNCHANGED],
            'ValueError': [_UNCHANGED],
            # a refused update leaves the table as it was
            'TableException': [_UNCHANGED]},
    modifies=[("inplace and axis == 'sample'", 'self._sample_ids'), ("inplace and axis == 'observation'", 'self._observation_ids'),
              ("inplace", 'self._sample_index'), ("inplace", 'self._obs_index')],
    loops={0: dict(header="for idx, old_id in enumerate(self.ids(axis=axis))", invariant=[
        "len(updated_ids) == len(%s)" % _OLD_IDS,
        "all(updated_ids[k] == (id_map[%s[k]] if %s[k] in id_map else %s[k]) for k in range(0, __i0))" % ((_OLD_IDS,) * 3),
        "implies(strict, all(%s[k] in id_map for k in range(0, __i0)))" % _OLD_IDS,
    ])})


# ---- the constructor, scipy-matrix input (what every table-producing method of this file calls) ---------------------
contract(F, 'Table.__init__', tier='A', props=['C17', 'C05'],
    types={'self': 'Obj:Table', 'data': 'SP', 'observation_ids': 'Arr[Str]', 'sample_ids': 'Arr[Str]',
           'observation_metadata': 'Opt[Tup[Val]]', 'sample_metadata': 'Opt[Tup[Val]]', 'table_id': 'Val', 'type': 'Val',
           'create_date': 'Val', 'generated_by': 'Val', 'observation_group_metadata': 'Val', 'sample_group_metadata': 'Val',
           # verified for the default lookups (None); the one caller that hands lookups in (partition, via **indices) is
           # not under contract
           'validate': 'Bool', 'observation_index': 'None', 'sample_index': 'None',
           'kwargs': 'Dict[Str,Val]'},
    requires=[],
    ensures=[
        # the matrix is a fresh float csr matrix with the cells of the input
        "self._data is not data and self._data.fmt == 'csr' and samecells(self._data, data) and self._data.shape == data.shape",
        "implies(not data.haszeros, not self._data.haszeros)",
        "samecells(data, old(data.cell))",
        # ids as given, in the given order
        "same_seq(self._sample_ids, sample_ids) and same_seq(self._observation_ids, observation_ids)",
        # metadata: entry by entry what was given, or absent
        "isnone(self._sample_metadata) or same_seq(self._sample_metadata, sample_metadata)",
        "isnone(self._observation_metadata) or same_seq(self._observation_metadata, observation_metadata)",
        "implies(isnone(sample_metadata), isnone(self._sample_metadata))",
        "implies(isnone(observation_metadata), isnone(self._observation_metadata))",
        # metadata that was given is dropped only when it has one entry per id and no entry holds anything
        "implies(isnone(self._sample_metadata) and not isnone(sample_metadata), len(sample_metadata) == len(sample_ids) "
        "        and all(entry_empty(sample_metadata[q]) for q in range(len(sample_metadata))))",
        "implies(isnone(self._observation_metadata) and not isnone(observation_metadata), len(observation_metadata) == len(observation_ids) "
        "        and all(entry_empty(observation_metadata[q]) for q in range(len(observation_metadata))))",
        # lookups: rebuilt from the ids unless handed in
        "is_index_of(self._sample_index, self._sample_ids) and is_index_of(self._obs_index, self._observation_ids)",
        "self.type == type and self.table_id == table_id",
    ],
    internal=["implies(validate, kcount('errcheck') == 1 and karg('errcheck', 0) is self)",
              "implies(not validate, kcount('errcheck') == 0)"],
    # ids as given: numpy.asarray of an array is that array
    installs={'self._sample_ids': 'sample_ids', 'self._observation_ids': 'observation_ids'},
    raises={},
    modifies=['self.*'])


def _tw_isinstance_dict(self, eng, st, v, cls, node):
    if v.kind == 'val' and cls.kind == 'fn' and cls.fk == 'builtin' and cls.name == 'dict':
        # whether a metadata entry is a dict is a property of the (opaque) value
        return [Result(st, VBool(z3.Function('val_is_dict', self.Val, B)(v.term)))]
    return _prev_isinstance_dict(self, eng, st, v, cls, node)


_prev_isinstance_dict = TableWorld.isinstance_hook
TableWorld.isinstance_hook = _tw_isinstance_dict


def _tw_global_dict(self, eng, st, n):
    if n in ('dict',):
        return VFn('builtin', name=n)
    return _prev_global_dict(self, eng, st, n)


_prev_global_dict = TableWorld.global_name
TableWorld.global_name = _tw_global_dict


# ---- add_metadata (C18): exactly the named ids and keys ----------------------------------------------------------------
# Per-id metadata is a tuple of dicts held by value ('TupD'): sound because after the cast to defaultdicts the entries
# of a table's metadata are pairwise distinct objects.
ASSUMED['metadata-by-value'] = ('per-id metadata is modelled as a tuple of dicts held by value; this is the behaviour of the real '
                                'tuple of dict objects as long as its entries are pairwise distinct objects, which '
                                'Table._cast_metadata establishes (every entry becomes a fresh defaultdict)')


def _tw_make_object_md(self, eng, st, name, cls):
    if cls == 'TableMD':
        self.used.add('metadata-by-value')
        ref = _prev_make_object_md(self, eng, st, name, 'Table')
        n = st.node(ref)
        f = dict(n.fields)
        f['_sample_metadata'] = eng.make_input(st, name + '_smd', 'Opt[TupD]')
        f['_observation_metadata'] = eng.make_input(st, name + '_omd', 'Opt[TupD]')
        st.setnode(ref, Obj('Table', f))
        return ref
    return _prev_make_object_md(self, eng, st, name, cls)


_prev_make_object_md = TableWorld.make_object
TableWorld.make_object = _tw_make_object_md


def _entries_same(eng, st, a, b):
    """z3 Bool: two metadata values hold the same entries (tuple of opaque values, or tuple of dicts by value)"""
    da, db = eng.as_dict(st, a), eng.as_dict(st, b)
    if da is not None and db is not None and da[5] and db[5]:
        na = eng.length(st, a).term
        nb = eng.length(st, b).term
        p, k = fresh('p', I), fresh('k', Str)
        return z3.And(na == nb, z3.ForAll([p, k], z3.Implies(
            z3.And(0 <= p, p < na),
            z3.And(da[4][p][k] == db[4][p][k], z3.Implies(da[4][p][k], da[3][p][k] == db[3][p][k]))),
            patterns=[da[4][p][k]]))
    return eng.equal(st, a, b)


def _tw_spec_md(self, eng, st, n, e, bound):
    if n == 'same_entries':
        a, b = eng.sev(e.args[0], st, bound), eng.sev(e.args[1], st, bound)
        a = a.val if a.kind == 'opt' else a
        b = b.val if b.kind == 'opt' else b
        return VBool(_entries_same(eng, st, a, b))
    if n == 'entry_empty':
        # a metadata entry that holds nothing: None or an empty dict (the constructor's test, on an opaque value)
        v = eng.sev(e.args[0], st, bound)
        if v.kind == 'none':
            return VBool(z3.BoolVal(True))
        t = self.to_val(eng, v)
        return VBool(z3.Or(self.Val.is_vnone(t),
                           z3.And(z3.Function('val_is_dict', self.Val, B)(t), z3.Not(self.val_truth(t)))))
    if n == 'has_none':
        # some position of a metadata tuple holds None instead of a dict
        a = eng.sev(e.args[0], st, bound)
        a = a.val if a.kind == 'opt' else a
        nones = getattr(st.node(a), 'nones', None) if a.kind == 'ref' else getattr(a, 'nones', None)
        if nones is None:
            return VBool(z3.BoolVal(False))
        p = fresh('p', I)
        return VBool(z3.Exists([p], z3.And(0 <= p, p < eng.length(st, a).term, nones[p])))
    if n == 'all_empty':
        # no entry of the metadata holds anything
        a = eng.sev(e.args[0], st, bound)
        a = a.val if a.kind == 'opt' else a
        d = eng.as_dict(st, a)
        if d is None or not d[5]:
            arr = eng.as_arr(st, a)
            if arr is not None and arr[0] == 'val':
                # opaque entries: each is None or an empty dict (the constructor's test)
                q = fresh('q', I)
                V = self.Val
                isd = z3.Function('val_is_dict', V, B)
                return VBool(z3.ForAll([q], z3.Implies(z3.And(0 <= q, q < arr[2]),
                                                       z3.Or(V.is_vnone(arr[1][q]),
                                                             z3.And(isd(arr[1][q]), z3.Not(self.val_truth(arr[1][q]))))),
                                       patterns=[arr[1][q]]))
            if a.kind == 'none':
                return VBool(z3.BoolVal(True))
            return VBool(fresh('all_empty', B))       # anything else: unknown
        p, k = fresh('p', I), fresh('k', Str)
        return VBool(z3.ForAll([p, k], z3.Implies(z3.And(0 <= p, p < eng.length(st, a).term), z3.Not(d[4][p][k])),
                               patterns=[d[4][p][k]]))
    return _prev_spec_md(self, eng, st, n, e, bound)


_prev_spec_md = TableWorld.spec_call
TableWorld.spec_call = _tw_spec_md

_DISTINCT = "all(implies(p < q, {ids}[p] != {ids}[q]) for p in range(len({ids})) for q in range(len({ids})))"


def _add_md_clauses(M, IDS, pref=''):
    OM = "old(%s)" % M
    upd = "({ids}[p] in md and k in md[{ids}[p]])".format(ids=IDS)
    return [
        # the axis had metadata: every key of the mapping entry of an id is set / overwritten on that id, every other key
        # and every other id keeps what it had (absent afterwards only when nothing is left anywhere)
        "implies(%s not isnone(%s), isnone(%s) or (len(%s) == len(%s) and "
        "all(all((k in %s[p]) == ((k in %s[p]) or %s) and "
        "        implies(k in %s[p], %s[p][k] == (md[%s[p]][k] if %s else %s[p][k])) for k in strs()) for p in range(len(%s)))))"
        % (pref, OM, M, M, IDS, M, OM, upd, M, M, IDS, upd, OM, IDS),
        # the axis had none: the ids that occur in the mapping get exactly their mapping entry, the others nothing
        "implies(%s isnone(%s), isnone(%s) or (len(%s) == len(%s) and "
        "all(all((k in %s[p]) == %s and implies(k in %s[p], %s[p][k] == md[%s[p]][k]) for k in strs()) for p in range(len(%s)))))"
        % (pref, OM, M, M, IDS, M, upd, M, M, IDS, IDS),
        # metadata disappears only when no id would hold anything
        "implies(%s isnone(%s), all(all(not ((not isnone(%s) and k in %s[p]) or %s) for k in strs()) for p in range(len(%s))))"
        % (pref, M, OM, OM, upd, IDS),
    ]


contract(F, 'Table._cast_metadata', tier='A', props=[], kind='assumed',
    types={'self': 'Obj:Table'},
    ensures=["isnone(self._sample_metadata) or same_entries(self._sample_metadata, old(self._sample_metadata))",
             "isnone(self._observation_metadata) or same_entries(self._observation_metadata, old(self._observation_metadata))",
             "implies(isnone(old(self._sample_metadata)), isnone(self._sample_metadata))",
             "implies(isnone(old(self._observation_metadata)), isnone(self._observation_metadata))",
             "implies(isnone(self._sample_metadata) and not isnone(old(self._sample_metadata)), all_empty(old(self._sample_metadata)))",
             "implies(isnone(self._observation_metadata) and not isnone(old(self._observation_metadata)), all_empty(old(self._observation_metadata)))",
             # every entry is a (default)dict afterwards, never None
             "(isnone(self._sample_metadata) or not has_none(self._sample_metadata)) "
             "and (isnone(self._observation_metadata) or not has_none(self._observation_metadata))"],
    modifies=['self._sample_metadata', 'self._observation_metadata'], assumes=[ASSUMED['Table._cast_metadata']])

def _add_md_inv(ax, M, IDS):
    # after the first __i0 items of the mapping: entry p holds what it had, overlaid with the mapping entry of its id when
    # that item has been visited
    OM = "old(%s)" % M
    seen = "({ids}[p] in md and posof(md, {ids}[p]) < __i0 and k in md[{ids}[p]])".format(ids=IDS)
    return ("implies(axis == '%s', len(metadata) == len(%s) and "
            "all(all((k in metadata[p]) == ((k in %s[p]) or %s) and "
            "        implies(k in metadata[p], metadata[p][k] == (md[%s[p]][k] if %s else %s[p][k])) for k in strs()) "
            "    for p in range(len(%s))))" % (ax, IDS, OM, seen, IDS, seen, OM, IDS))


contract(F, 'Table.add_metadata', tier='A', props=['C18'],
    types={'self': 'Obj:TableMD', 'md': 'Dict[Str,Dict[Str,Val]]', 'axis': 'Str'},
    requires=["is_index_of(self._sample_index, self._sample_ids) and is_index_of(self._obs_index, self._observation_ids)",
              _DISTINCT.format(ids='self._sample_ids'), _DISTINCT.format(ids='self._observation_ids'),
              "isnone(self._sample_metadata) or len(self._sample_metadata) == len(self._sample_ids)",
              "isnone(self._observation_metadata) or len(self._observation_metadata) == len(self._observation_ids)"],
    ensures=_add_md_clauses('self._sample_metadata', 'self._sample_ids', "axis == 'sample' and")
            + _add_md_clauses('self._observation_metadata', 'self._observation_ids', "axis == 'observation' and")
            + [
        # every id has a dict afterwards (possibly empty), never None
        "(isnone(self._sample_metadata) or not has_none(self._sample_metadata)) "
        "and (isnone(self._observation_metadata) or not has_none(self._observation_metadata))",
        # the other axis keeps its metadata
        "implies(axis == 'sample', isnone(self._observation_metadata) or same_entries(self._observation_metadata, old(self._observation_metadata)))",
        "implies(axis == 'observation', isnone(self._sample_metadata) or same_entries(self._sample_metadata, old(self._sample_metadata)))",
    ],
    raises={'UnknownAxisError': ["not (%s)" % AX]},
    modifies=['self._sample_metadata', 'self._observation_metadata', 'self._sample_metadata[*]', 'self._observation_metadata[*]'],
    loops={0: dict(header="for id_, md_entry in md.items()", invariant=[
        "axis == 'sample' or axis == 'observation'",
    ] + [_add_md_inv(ax, M, IDS) for ax, M, IDS in (('sample', 'self._sample_metadata', 'self._sample_ids'),
                                                     ('observation', 'self._observation_metadata', 'self._observation_ids'))])})




# ---- del_metadata (C18): exactly the named keys, on the chosen axes ---------------------------------------------------
def _del_md_clauses(M, on):
    OM = "old(%s)" % M
    gone = "(not isnone(keys) and k in some(keys))"
    return [
        # on a chosen axis: every named key is gone from every id, every other key keeps its value; the metadata is absent
        # afterwards only when no id holds anything any more (or when all of it was to be deleted)
        "implies(%s and not isnone(%s) and not isnone(keys), isnone(%s) or (len(%s) == len(%s) and "
        "all(all((k in %s[p]) == ((k in %s[p]) and not %s) and implies(k in %s[p], %s[p][k] == %s[p][k]) "
        "        for k in strs()) for p in range(len(%s)))))" % (on, OM, M, M, OM, M, OM, gone, M, M, OM, OM),
        "implies(%s and not isnone(%s) and not isnone(keys) and isnone(%s), "
        "        all(all(not ((k in %s[p]) and not %s) for k in strs()) for p in range(len(%s))))" % (on, OM, M, OM, gone, OM),
        "implies(%s and isnone(keys), isnone(%s))" % (on, M),
        "implies(isnone(%s), isnone(%s))" % (OM, M),
        # an axis that was not chosen keeps its metadata object and contents
        "implies(not (%s), %s is oldref(%s) and (isnone(%s) or same_entries(%s, %s)))" % (on, M, M, M, M, OM),
    ]


def _del_inv1(ax, M, OTHER):
    M1, O1 = "at('loop1', %s)" % M, "at('loop1', %s)" % OTHER
    return ("implies(ax == '%s', not isnone(%s) and len(%s) == len(%s) and "
            "all(all((kk in %s[p]) == ((kk in %s[p]) and not (p < __i1 and kk in some(keys))) and "
            "        implies(kk in %s[p], %s[p][kk] == %s[p][kk]) for kk in strs()) for p in range(len(%s))) and "
            "(isnone(%s) or same_entries(%s, %s)))"
            % (ax, M, M, M1, M, M1, M, M, M1, M, OTHER, OTHER, O1))


def _del_inv2(ax, M, OTHER):
    M2, O2 = "at('loop2', %s)" % M, "at('loop2', %s)" % OTHER
    return ("implies(ax == '%s', not isnone(%s) and len(%s) == len(%s) and 0 <= __i1 and __i1 < len(%s) and "
            "all(all((kk in %s[p]) == ((kk in %s[p]) and not (p == __i1 and any(some(keys)[u] == kk for u in range(0, __i2)))) and "
            "        implies(kk in %s[p], %s[p][kk] == %s[p][kk]) for kk in strs()) for p in range(len(%s))) and "
            "(isnone(%s) or same_entries(%s, %s)))"
            % (ax, M, M, M2, M, M, M2, M, M, M2, M, OTHER, OTHER, O2))


contract(F, 'Table.del_metadata', tier='A', props=['C18'],
    types={'self': 'Obj:TableMD', 'keys': 'Opt[List[Str]]', 'axis': 'Str'},
    requires=["isnone(self._sample_metadata) or len(self._sample_metadata) == len(self._sample_ids)",
              "isnone(self._observation_metadata) or len(self._observation_metadata) == len(self._observation_ids)"],
    ensures=_del_md_clauses('self._sample_metadata', "(axis == 'sample' or axis == 'whole')")
            + _del_md_clauses('self._observation_metadata', "(axis == 'observation' or axis == 'whole')"),
    raises={'UnknownAxisError': ["not (%s or axis == 'whole')" % AX]},
    modifies=['self._sample_metadata', 'self._observation_metadata', 'self._sample_metadata[*]', 'self._observation_metadata[*]'],
    loops={1: dict(header="for i, md in zip(self.ids(axis=ax), self.metadata(axis=ax))",
                   invariant=[_del_inv1('sample', 'self._sample_metadata', 'self._observation_metadata'),
                              _del_inv1('observation', 'self._observation_metadata', 'self._sample_metadata'),
                              "not isnone(keys) and (ax == 'sample' or ax == 'observation')"]),
           2: dict(header="for k in keys",
                   invariant=[_del_inv2('sample', 'self._sample_metadata', 'self._observation_metadata'),
                              _del_inv2('observation', 'self._observation_metadata', 'self._sample_metadata'),
                              "not isnone(keys) and (ax == 'sample' or ax == 'observation')"])})


# ---- per-vector summaries (C19): nonzero_counts, min, max -----------------------------------------------------------
ASSUMED['Table.iter_data'] = (
    'Table.iter_data(dense, axis) yields one vector per id of the axis, in id order: the k-th is row / column k of the '
    'matrix (dense: a 1-D array; sparse: a 1 x n / n x 1 matrix); an axis other than sample / observation raises '
    'UnknownAxisError when the iteration starts (its body - a generator over _iter_samp / _iter_obs - is not verified)')
ASSUMED['vector-ghosts'] = (
    'on vector k of an axis: x.sum() is the row / column sum (ghost rowsum / colsum), x.nonzero()[0].size the number of '
    'its non-zero cells (ghost rownz / colnz), x.data.min() / .max() of a sparse vector without stored zeros the least / '
    'greatest non-zero cell (ghosts vecmin / vecmax; ValueError when the vector has no non-zero cell); the prefix sums '
    'of colnz / colsum over all columns are nnz_true / total (definitional)')
vecmin = z3.Function('vecmin', CELL, I, I, I, I, R)     # (cells, nrows, ncols, axis01, k)
vecmax = z3.Function('vecmax', CELL, I, I, I, I, R)
colnz_pre = z3.Function('colnz_pre', CELL, I, I, I)     # (cells, nrows, j): non-zero cells in columns < j
colsum_pre = z3.Function('colsum_pre', CELL, I, I, R)


class VVecSeq(SV):
    kind = 'vecseq'

    def __init__(self, sp, ax, dense):
        self.sp, self.ax, self.dense = sp, ax, dense     # ax: z3 Bool "axis is sample"

    def sv_iter(self, eng, st, s):
        n = st.node(self.sp)
        sh = n.fields['_shape'].items
        return z3.IntVal(0), z3.If(self.ax, sh[1].term, sh[0].term), (lambda st2, k: VVec(self.sp, self.ax, k, self.dense))


class VVec(SV):
    kind = 'vec'

    def __init__(self, sp, ax, k, dense, part=None):
        self.sp, self.ax, self.k, self.dense, self.part = sp, ax, k, dense, part

    def parts(self, st):
        n = st.node(self.sp)
        sh = n.fields['_shape'].items
        return n.fields['cell'].term, sh[0].term, sh[1].term, n

    def sv_getattr(self, eng, st, attr):
        if attr == 'data' and not self.dense and self.part is None:
            return VVec(self.sp, self.ax, self.k, self.dense, part='data')
        if attr == 'size' and self.part == 'nonzero':
            cell, m, n, _ = self.parts(st)
            return VInt(z3.If(self.ax, colnz(cell, m, self.k), rownz(cell, n, self.k)))
        raise EngineError('attribute %s of a vector value' % attr)

    def sv_index(self, eng, st, idx, node):
        if self.part == 'nonzero-tuple':
            # nonzero() of a 1-D array is a 1-tuple
            yes, no = eng.fork(st, to_int(idx) == 0) if idx.kind in ('int', 'bool') else ([], [st])
            return [Result(s, VVec(self.sp, self.ax, self.k, self.dense, part='nonzero')) for s in yes] + \
                   [eng.exc(s, 'IndexError') for s in no]
        raise EngineError('indexing a vector value')


def _tw_method_vec(self, eng, st, recv, name, args, kwargs, node, starv=None, dstar=None):
    if recv.kind == 'vec':
        self.used.add('vector-ghosts')
        cell, m, n, spn = recv.parts(st)
        if name == 'sum' and recv.part is None and not args and not kwargs:
            return [Result(st, VReal(z3.If(recv.ax, colsum(cell, m, recv.k), rowsum(cell, n, recv.k))))]
        if name == 'nonzero' and recv.part is None and recv.dense:
            return [Result(st, VVec(recv.sp, recv.ax, recv.k, recv.dense, part='nonzero-tuple'))]
        if name in ('min', 'max') and recv.part == 'data':
            # least / greatest stored value: the matrix must not hold stored zeros (they would take part)
            eng.oblige(st, 'call-pre/vector-extreme.no-stored-zeros', z3.Not(spn.fields['haszeros'].term), node.lineno)
            cnt = z3.If(recv.ax, colnz(cell, m, recv.k), rownz(cell, n, recv.k))
            f = vecmin if name == 'min' else vecmax
            out = []
            yes, no = eng.fork(st, cnt > 0)
            for s in yes:
                out.append(Result(s, VReal(f(cell, m, n, z3.If(recv.ax, z3.IntVal(1), z3.IntVal(0)), recv.k))))
            for s in no:
                out.append(eng.exc(s, 'ValueError'))
            return out
        raise EngineError('%s:%d: method %s on a vector value' % (eng.rel, node.lineno, name))
    return _prev_method_vec(self, eng, st, recv, name, args, kwargs, node, starv, dstar)


_prev_method_vec = TableWorld.call_method
TableWorld.call_method = _tw_method_vec


def _tw_obj_method_iter(self, eng, st, recv, n, name, args, kwargs, node, starv=None, dstar=None):
    if n.cls == 'Table' and name == 'iter_data':
        self.used.add('Table.iter_data')
        dense = kwargs.get('dense', args[0] if args else VBool(True))
        axis = kwargs.get('axis', args[1] if len(args) > 1 else VStr('sample'))
        if not (dense.kind == 'bool' and z3.is_true(z3.simplify(dense.term)) or z3.is_false(z3.simplify(dense.term))):
            raise EngineError('%s:%d: iter_data with a symbolic dense flag' % (eng.rel, node.lineno))
        out = []
        is_s, rest = eng.fork(st, axis.term == smt.str_lit('sample'))
        for s in is_s:
            out.append(Result(s, VVecSeq(s.node(recv).fields['_data'], z3.BoolVal(True), z3.is_true(z3.simplify(dense.term)))))
        for s in rest:
            is_o, bad = eng.fork(s, axis.term == smt.str_lit('observation'))
            for s2 in is_o:
                out.append(Result(s2, VVecSeq(s2.node(recv).fields['_data'], z3.BoolVal(False), z3.is_true(z3.simplify(dense.term)))))
            for s2 in bad:
                out.append(eng.exc(s2, 'UnknownAxisError'))
        return out
    return _prev_obj_method_iter(self, eng, st, recv, n, name, args, kwargs, node, starv, dstar)


_prev_obj_method_iter = TableWorld.obj_method
TableWorld.obj_method = _tw_obj_method_iter


def _tw_spec_vec(self, eng, st, n, e, bound):
    if n in ('vecmin', 'vecmax', 'colnz_pre', 'colsum_pre'):
        m = st.node(eng.sev(e.args[0], st, bound))
        sh = m.fields['_shape'].items
        cell = m.fields['cell'].term
        if n in ('vecmin', 'vecmax'):
            ax = eng.sev(e.args[1], st, bound)
            k = to_int(eng.sev(e.args[2], st, bound))
            f = vecmin if n == 'vecmin' else vecmax
            return VReal(f(cell, sh[0].term, sh[1].term, z3.If(ax.term == smt.str_lit('sample'), z3.IntVal(1), z3.IntVal(0)), k))
        j = to_int(eng.sev(e.args[1], st, bound))
        return VInt(colnz_pre(cell, sh[0].term, j)) if n == 'colnz_pre' else VReal(colsum_pre(cell, sh[0].term, j))
    return _prev_spec_vec(self, eng, st, n, e, bound)


_prev_spec_vec = TableWorld.spec_call
TableWorld.spec_call = _tw_spec_vec


def _tw_globals_vec(self, eng, st, c):
    out = _prev_globals_vec(self, eng, st, c)
    if c.qualname not in ('Table.nonzero_counts',):
        return out          # prefix sums of the per-column counts: only where they are spoken about
    a, m, n, j = fresh('a', CELL), fresh('m', I), fresh('n', I), fresh('j', I)
    st.assume(z3.ForAll([a, m], colnz_pre(a, m, 0) == 0, patterns=[colnz_pre(a, m, 0)]),
              z3.ForAll([a, m, j], z3.Implies(j >= 0, colnz_pre(a, m, j + 1) == colnz_pre(a, m, j) + colnz(a, m, j)),
                        patterns=[z3.MultiPattern(colnz_pre(a, m, j), colnz(a, m, j))]),
              z3.ForAll([a, m, n], z3.Implies(n >= 0, colnz_pre(a, m, n) == nnz_true(a, m, n)), patterns=[nnz_true(a, m, n)]),
              z3.ForAll([a, m], colsum_pre(a, m, 0) == 0, patterns=[colsum_pre(a, m, 0)]),
              z3.ForAll([a, m, j], z3.Implies(j >= 0, colsum_pre(a, m, j + 1) == colsum_pre(a, m, j) + colsum(a, m, j)),
                        patterns=[z3.MultiPattern(colsum_pre(a, m, j), colsum(a, m, j))]),
              z3.ForAll([a, m, n], z3.Implies(n >= 0, colsum_pre(a, m, n) == total(a, m, n)), patterns=[total(a, m, n)]))
    return out


_prev_globals_vec = TableWorld.globals_for
TableWorld.globals_for = _tw_globals_vec

_VEC = "(colsum(self._data, k) if axis == 'sample' else rowsum(self._data, k))"
_VNZ = "vecnz(self._data.cell, self._data.shape[0], self._data.shape[1], axis, k)"
contract(F, 'Table.nonzero_counts', tier='A', props=['C19'],
    types={'self': 'Obj:Table', 'axis': 'Str', 'binary': 'Bool'},
    requires=WF_T,
    returns='Arr[Real]',
    ensures=[
        # per vector of the requested axis: the number of its non-zero cells, or (binary=False) its sum
        "implies(%s, len(result) == (len(self._sample_ids) if axis == 'sample' else len(self._observation_ids)))" % AX,
        "implies((%s) and binary, all(result[k] == %s for k in range(len(result))))" % (AX, _VNZ),
        "implies((%s) and not binary, all(result[k] == %s for k in range(len(result))))" % (AX, _VEC),
        # any other axis value: one number for the whole table
        "implies(not (%s), len(result) == 1 and result[0] == (nnz_true(self._data) if binary else total(self._data)))" % AX,
        "samecells(self._data, old(self._data.cell))",
    ],
    modifies=[],
    loops={0: dict(header="for idx, vals in enumerate(self.iter_data(axis=axis))", invariant=[
               "implies(binary, all(result[k] == %s for k in range(0, __i0)))" % _VNZ,
               "implies(not binary, all(result[k] == %s for k in range(0, __i0)))" % _VEC,
               "len(result) == (len(self._sample_ids) if axis == 'sample' else len(self._observation_ids))"]),
           1: dict(header="for vals in self.iter_data()", invariant=[
               "len(result) == 1 and result[0] == (colnz_pre(self._data, __i1) if binary else colsum_pre(self._data, __i1))"])})

ASSUMED['np.inf'] = 'numpy.inf is modelled as an unconstrained real constant (only the neutral start of a running minimum / maximum over the whole table, about which nothing is claimed)'
np_inf = z3.Real('np_inf')


def _tw_builtin_minmax(self, eng, st, name, args, kwargs, node, starv=None, dstar=None):
    if name in ('max', 'min') and len(args) == 2 and all(is_num(a) for a in args) and any(a.kind == 'real' for a in args):
        a, b = to_real(args[0]), to_real(args[1])
        return [Result(st, VReal(z3.If((a >= b) if name == 'max' else (a <= b), a, b)))]
    return _prev_builtin_minmax(self, eng, st, name, args, kwargs, node, starv, dstar)


_prev_builtin_minmax = TableWorld.call_builtin
TableWorld.call_builtin = _tw_builtin_minmax


colmin_pre = z3.Function('colmin_pre', CELL, I, I, I, R)     # (cells, nrows, ncols, j): least vecmin over columns < j (np.inf for j = 0)
colmax_pre = z3.Function('colmax_pre', CELL, I, I, I, R)


def _tw_globals_ext(self, eng, st, c):
    out = _prev_globals_ext(self, eng, st, c)
    if c.qualname not in ('Table.min', 'Table.max'):
        return out          # definitional axioms of the running minimum / maximum: only where they are spoken about
    a, m, n, j = fresh('a', CELL), fresh('m', I), fresh('n', I), fresh('j', I)
    one = z3.IntVal(1)
    inf = z3.Real('np_inf')
    for pre, vec, pick, start in ((colmin_pre, vecmin, lambda x, y: z3.If(x <= y, x, y), inf),
                                  (colmax_pre, vecmax, lambda x, y: z3.If(x >= y, x, y), -inf)):
        st.assume(z3.ForAll([a, m, n], pre(a, m, n, 0) == start, patterns=[pre(a, m, n, 0)]),
                  z3.ForAll([a, m, n, j], z3.Implies(j >= 0, pre(a, m, n, j + 1) == pick(pre(a, m, n, j), vec(a, m, n, one, j))),
                            patterns=[z3.MultiPattern(pre(a, m, n, j), vec(a, m, n, one, j))]))
    return out


_prev_globals_ext = TableWorld.globals_for
TableWorld.globals_for = _tw_globals_ext


def _tw_spec_ext(self, eng, st, n, e, bound):
    if n in ('colmin_pre', 'colmax_pre'):
        m = st.node(eng.sev(e.args[0], st, bound))
        sh = m.fields['_shape'].items
        f = colmin_pre if n == 'colmin_pre' else colmax_pre
        return VReal(f(m.fields['cell'].term, sh[0].term, sh[1].term, to_int(eng.sev(e.args[1], st, bound))))
    return _prev_spec_ext(self, eng, st, n, e, bound)


_prev_spec_ext = TableWorld.spec_call
TableWorld.spec_call = _tw_spec_ext

for _fn, _gh in (('min', 'vecmin'), ('max', 'vecmax')):
    contract(F, 'Table.' + _fn, tier='A', props=['C19'],
        types={'self': 'Obj:Table', 'axis': 'Str'},
        requires=WF_T,
        returns='Val',
        ensures=[
            # per vector of the requested axis: the least / greatest of its non-zero cells
            "implies(%s, len(result) == (len(self._sample_ids) if axis == 'sample' else len(self._observation_ids)) and "
            "all(result[k] == %s(self._data, axis, k) for k in range(len(result))))" % (AX, _gh),
            # whole table: the running minimum / maximum over the per-sample values, starting from +/- infinity
            "implies(axis == 'whole', result == col%s_pre(self._data, self._data.shape[1]))" % _fn,
            "samecells(self._data, old(self._data.cell))",
        ],
        raises={'UnknownAxisError': ["not (%s or axis == 'whole')" % AX],
                # a vector without a non-zero cell has no minimum / maximum
                'ValueError': []},
        modifies=['self._data.*'],
        loops={0: dict(header="for data in self.iter_data(dense=False)", invariant=[
                   "%s_val == col%s_pre(self._data, __i0)" % (_fn, _fn), "not self._data.haszeros"]),
               1: dict(header="for idx, data in enumerate(self.iter_data(dense=False, axis=axis))", invariant=[
                   "all(%s_val[k] == %s(self._data, axis, k) for k in range(0, __i1))" % (_fn, _gh),
                   "len(%s_val) == (len(self._sample_ids) if axis == 'sample' else len(self._observation_ids))" % _fn,
                   "not self._data.haszeros"])})


# ---- Table.data (C05: the per-id vector accessor) -------------------------------------------------------------------
def _slice_getattr(self, eng, st, attr):
    if attr in ('start', 'stop'):
        v = self.lo if attr == 'start' else self.hi
        return NONE if v is None else VInt(v)
    if attr == 'step':
        return NONE
    raise EngineError('attribute %s of a slice' % attr)


from pyvc.values import VSlice as _VSlice      # noqa: E402
_VSlice.sv_getattr = _slice_getattr

ASSUMED['Table._to_dense'] = ('Table._to_dense(vec) of a 1 x n or n x 1 matrix is the 1-D array of its n cells, in order '
                              '(toarray + squeeze / reshape are not modelled)')
contract(F, 'Table._to_dense', tier='A', props=[], kind='assumed',
    types={'vec': 'SP'}, returns='Arr[Real]',
    ensures=["implies(vec.shape[0] == 1, len(result) == vec.shape[1] and all(result[j] == cell(vec, 0, j) for j in range(vec.shape[1])))",
             "implies(vec.shape[0] != 1, len(result) == vec.shape[0] and all(result[i] == cell(vec, i, 0) for i in range(vec.shape[0])))"],
    modifies=[], assumes=[ASSUMED['Table._to_dense']])

contract(F, 'Table.data', tier='A', props=['C05'],
    types={'self': 'Obj:Table', 'id': 'Str', 'axis': 'Str', 'dense': 'Bool'},
    requires=WF_T + ["is_index_of(self._sample_index, self._sample_ids) and is_index_of(self._obs_index, self._observation_ids)"],
    returns='Val',
    ensures=[
        # the vector of the id on the requested axis: cell by cell, in the order of the other axis
        "implies(dense and axis == 'sample', len(result) == self._data.shape[0] and "
        "        all(result[i] == cell(self._data, i, self._sample_index[id]) for i in range(self._data.shape[0])))",
        "implies(dense and axis == 'observation', len(result) == self._data.shape[1] and "
        "        all(result[j] == cell(self._data, self._obs_index[id], j) for j in range(self._data.shape[1])))",
        "implies(not dense and axis == 'sample', result.shape[0] == self._data.shape[0] and result.shape[1] == 1 and "
        "        all(cell(result, i, 0) == cell(self._data, i, self._sample_index[id]) for i in range(self._data.shape[0])))",
        "implies(not dense and axis == 'observation', result.shape[1] == self._data.shape[1] and result.shape[0] == 1 and "
        "        all(cell(result, 0, j) == cell(self._data, self._obs_index[id], j) for j in range(self._data.shape[1])))",
        "samecells(self._data, old(self._data.cell)) and self._data.shape == old(self._data.shape)",
    ],
    raises={'UnknownAxisError': ["not (%s)" % AX],
            'UnknownIDError': [AX, "id not in %s" % IDX],
            'IndexError': ["self._data.shape[0] == 0 or self._data.shape[1] == 0"]},
    modifies=['self._data', 'self._data.*'])


# ---- Table.sort with its default (natural) order: a second contract of the same function ----------------------------
ASSUMED['natsort'] = ('biom.util.natsort(seq) returns a new list that is a permutation of seq (its body - list.sort with a '
                      'key function - is not verified; nothing is assumed about *which* permutation)')


def _tw_builtin_natsort(self, eng, st, name, args, kwargs, node, starv=None, dstar=None):
    if name in ('biom.util.natsort', 'natsort'):
        self.used.add('natsort')
        out = []
        for r in self.sorted_(eng, st, args[0], node):
            out.append(Result(self.record(r.st, 'natsort', args, r.val), r.val) if r.exc is None else r)
        return out
    return _prev_builtin_natsort(self, eng, st, name, args, kwargs, node, starv, dstar)


_prev_builtin_natsort = TableWorld.call_builtin
TableWorld.call_builtin = _tw_builtin_natsort

_NS = "kret('natsort')"
contract(F, 'Table.sort', variant='natural-order', tier='A', props=['C06'],
    types={'self': 'Obj:Table', 'sort_f': 'Default', 'axis': 'Str'},
    requires=WF_T + ["is_index_of(self._sample_index, self._sample_ids) and is_index_of(self._obs_index, self._observation_ids)",
                     "isnone(self._sample_metadata) or len(self._sample_metadata) == len(self._sample_ids)",
                     "isnone(self._observation_metadata) or len(self._observation_metadata) == len(self._observation_ids)"],
    returns='Obj:Table',
    ensures=["result is not self and result._data is not self._data and samecells(self._data, old(self._data.cell))"],
    internal=[
        # the default order is asked of natsort, once, for the ids of the axis - and what it answers is the order of the
        # result, whatever the ids look like
        "kcount('natsort') == 1",
        "implies(axis == 'sample', karg('natsort', 0) is self._sample_ids and same_seq(result._sample_ids, %s) "
        "        and same_seq(result._observation_ids, self._observation_ids))" % _NS,
        "implies(axis == 'observation', karg('natsort', 0) is self._observation_ids and same_seq(result._observation_ids, %s) "
        "        and same_seq(result._sample_ids, self._sample_ids))" % _NS,
        "implies(axis == 'sample', result._data.shape[0] == self._data.shape[0] and result._data.shape[1] == len(%s) and "
        "        all(cell(result._data, i, k) == cell(self._data, i, self._sample_index[%s[k]]) "
        "            for i in range(self._data.shape[0]) for k in range(len(%s))))" % (_NS, _NS, _NS),
        "implies(axis == 'observation', result._data.shape[1] == self._data.shape[1] and result._data.shape[0] == len(%s) and "
        "        all(cell(result._data, k, j) == cell(self._data, self._obs_index[%s[k]], j) "
        "            for k in range(len(%s)) for j in range(self._data.shape[1])))" % (_NS, _NS, _NS),
    ],
    raises={'UnknownAxisError': ["not (%s)" % AX]},
    modifies=[])
