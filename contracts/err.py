"""Contracts for biom/err.py (C20 - the whole property is Tier P).

Model (DESIGN.md 8/C20): an ErrorProfile holds three dicts keyed by error kind;
reactions are closures created by _create_error_states, defunctionalised into
the sort Fn (constructors lam__create_error_states_0..4 in source order:
ignore, warn, raise, call-default, print).  Effects (warn / stdout.write /
user callbacks) are entries of a ghost effect log.
"""
import ast

import z3

from pyvc import smt, source
from pyvc.prove import contract, world_for
from pyvc.world import World, ASSUMED
from pyvc.values import (VRef, VStr, VTuple, VFn, VVal, VBool, VInt, VCls, VExc, NONE, Obj, Dict, Arr, EngineError, fresh)
from pyvc.engine import Result, to_int
from pyvc.smt import I, B, Str, Cls

F = 'biom/err.py'
VALID = "('raise', 'ignore', 'call', 'print', 'warn')"
KINDS = "('empty', 'obssize', 'sampsize', 'obsdup', 'sampdup', 'obsmdsize', 'sampmdsize')"

ASSUMED['err-module-invariant'] = (
    'the module-level error profile holds exactly the seven registered kinds with the reaction tables built by '
    '_create_error_states for TableException and the registered messages and test functions '
    '(established by the module-level register() calls; re-checked natively on the imported module by the '
    'C20 bounded cross-check on every run), and nothing outside biom/err.py mutates it')
ASSUMED['err-tests-pure'] = ('the registered test predicates (_test_obssize, ...) and user-supplied test functions '
                             'are pure functions of the tested item')


class ErrWorld(World):
    """biom/err.py: ErrorProfile objects, the module-level profile, the effect log"""

    def __init__(self, rel, tree, registry, ctypes=None):
        super().__init__(rel, tree, registry, ctypes)

    # -- objects ---------------------------------------------------------------
    def make_object(self, eng, st, name, cls):
        if cls != 'ErrorProfile':
            raise EngineError('no object model for class %s' % cls)
        return st.alloc(Obj('ErrorProfile', {
            '_profile': eng.make_input(st, name + '_profile', 'Dict[Str,Dict[Str,Fn]]'),
            '_state': eng.make_input(st, name + '_state', 'Dict[Str,Str]'),
            '_test': eng.make_input(st, name + '_test', 'Dict[Str,Fn]')}))

    def globals_for(self, eng, st, c):
        g = {}
        log = st.alloc(Arr('val', fresh('log', z3.ArraySort(I, self.Val)), fresh('loglen', I), 'list'))
        st.assume(st.node(log).n >= 0)
        g['$log'] = log
        g['__errprof'] = self.make_object(eng, st, 'EP', 'ErrorProfile')
        return g

    def spec_name(self, eng, st, n):
        if n == 'EP':
            return st.globals['__errprof']
        if n == 'VALID':
            return eng.sev(VALID, st)
        if n == 'KINDS':
            return eng.sev(KINDS, st)
        return super().spec_name(eng, st, n)

    def may_inline(self, fv):
        # small loop-free helpers of the class are executed in place (still the real code)
        return fv.qualname in ('ErrorProfile.state', 'ErrorProfile.__contains__')

    def construct(self, eng, st, cls, args, kwargs, node):
        if cls.name == 'ErrorProfile':
            raise EngineError('construction of ErrorProfile is not part of a verified function')
        return super().construct(eng, st, cls, args, kwargs, node)

    # -- comprehension  [(err, new_state['all']) for err in self._state] -----------------
    def comprehension(self, eng, st, e):
        from pyvc.world import VArrT
        if len(e.generators) != 1 or e.generators[0].ifs:
            raise EngineError('%s:%d: comprehension shape' % (eng.rel, e.lineno))
        g = e.generators[0]
        out = []
        for r in eng.ev(g.iter, st):
            if r.exc is not None:
                out.append(r)
                continue
            itv = r.val
            if not (itv.kind == 'ref' and isinstance(r.st.node(itv), Dict) and isinstance(g.target, ast.Name)):
                raise EngineError('%s:%d: comprehension over %s' % (eng.rel, e.lineno, itv.kind))
            s2, keys, nkeys = self.dict_order(eng, r.st, itv)
            n = s2.node(itv)
            # evaluate the element for a generic key
            k = fresh('ck', I)
            s3 = s2.copy()
            s3.env = dict(s3.env)
            s3.env[g.target.id] = eng.wrap(n.kkind, keys[k])
            rs = eng.ev(e.elt, s3)
            normal = [x for x in rs if x.exc is None]
            if len(rs) != 1 or len(normal) != 1 or normal[0].val.kind != 'tuple':
                raise EngineError('%s:%d: comprehension element must be a tuple without side effects' % (eng.rel, e.lineno))
            items = normal[0].val.items
            arrays, kinds = [], []
            s4 = s2.copy()
            for j, it in enumerate(items):
                kind = it.kind
                arr = fresh('comp%d' % j, z3.ArraySort(I, eng.sort_of_kind(kind)))
                q = fresh('q', I)
                body = z3.substitute(it.term, (k, q))
                s4.assume(z3.ForAll([q], z3.Implies(z3.And(0 <= q, q < nkeys), arr[q] == body), patterns=[arr[q]]))
                arrays.append(arr)
                kinds.append(kind)
            out.append(Result(s4, VArrT(kinds, arrays, nkeys)))
        return out

    # -- spec functions -------------------------------------------------------------
    def spec_call(self, eng, st, n, e, bound):
        Fn, V = self.Fn, self.Val
        if n == 'fn_lam':
            name = e.args[0].value
            ctor = getattr(Fn, 'lam_' + name)
            args = [eng.sev(a, st, bound) for a in e.args[1:]]
            return VFn('sym', term=ctor(*[a.term for a in args]) if args else ctor)
        if n == 'fn_def':
            return VFn('sym', term=getattr(Fn, 'def_' + e.args[0].value))
        if n in ('fn_is_ext', 'fn_is_pure'):
            f = self.to_fn(eng, eng.sev(e.args[0], st, bound))
            return VBool(Fn.is_ext(f) if n == 'fn_is_ext' else Fn.is_pure(f))
        if n == 'fn_apply':
            f = self.to_fn(eng, eng.sev(e.args[0], st, bound))
            x = self.to_val(eng, eng.sev(e.args[1], st, bound))
            return VVal(self.apply_ext(f, x))
        if n == 'truthy':
            v = eng.sev(e.args[0], st, bound)
            return VBool(eng.truth(st, v))
        if n == 'exc_cls':
            v = eng.sev(e.args[0], st, bound)
            if v.kind == 'exc':
                return v.cls
            if v.kind != 'val':
                return VCls(fresh('nocls', Cls))
            return VCls(V.vcls(v.term))
        if n == 'exc_msg':
            v = eng.sev(e.args[0], st, bound)
            if v.kind == 'exc':
                return v.args[0] if v.args and v.args[0].kind == 'str' else VStr(fresh('nomsg', Str))
            if v.kind != 'val':
                return VStr(fresh('nomsg', Str))
            return VStr(V.vmsg(v.term))
        if n == 'concat':
            a, b = eng.sev(e.args[0], st, bound), eng.sev(e.args[1], st, bound)
            return VStr(smt.concat_s(a.term, b.term))
        if n in ('dpos', 'dkey', 'dlen'):
            d = eng.sev(e.args[0], st, bound)
            nd = st.node(d)
            if nd.keys is None:
                raise EngineError('%s(): the dict has no iteration order in this state' % n)
            if n == 'dlen':
                return VInt(nd.nkeys)
            if n == 'dkey':
                return eng.wrap(nd.kkind, nd.keys[to_int(eng.sev(e.args[1], st, bound))])
            return VInt(nd.pos[eng.unwrap(eng.sev(e.args[1], st, bound), nd.kkind)])
        return super().spec_call(eng, st, n, e, bound)


world_for(F, ErrWorld)

# ---------------------------------------------------------------------------
# class invariant of ErrorProfile (what register() establishes and every method keeps)
# ---------------------------------------------------------------------------

def EP_INV(p):
    return [
        "keys_eq(%s._state, %s._test) and keys_eq(%s._state, %s._profile)" % (p, p, p, p),
        "all(%s._state[k] in VALID for k in %s._state)" % (p, p),
        # the reaction table of every kind has the five reactions built by _create_error_states
        "all('ignore' in %s._profile[k] and 'warn' in %s._profile[k] and 'raise' in %s._profile[k] "
        "    and 'call' in %s._profile[k] and 'print' in %s._profile[k] for k in %s._state)" % (p, p, p, p, p, p),
        "all(%s._profile[k]['ignore'] == fn_lam('_create_error_states_0') "
        "    and %s._profile[k]['warn'] == fn_lam('_create_error_states_1', msg_of(k)) "
        "    and %s._profile[k]['raise'] == fn_lam('_create_error_states_2', exc_of(k), msg_of(k)) "
        "    and %s._profile[k]['print'] == fn_lam('_create_error_states_4', msg_of(k)) "
        "    and (fn_is_ext(%s._profile[k]['call']) or %s._profile[k]['call'] == fn_lam('_create_error_states_3')) "
        "    for k in %s._state)" % (p, p, p, p, p, p, p),
        # test predicates are pure
        "all(fn_is_pure(%s._test[k]) or is_test_def(%s._test[k]) for k in %s._state)" % (p, p, p),
    ]


GHOST_MSG = {
    'msg_of': dict(args=['str'], ret='str', axioms=[], shared=True),     # message registered for a kind
    'exc_of': dict(args=['str'], ret='cls', axioms=[], shared=True),     # exception class registered for a kind
}

# how the configured reaction of kind k manifests (used by _handle_error, test, errcheck)
def OUTCOME(p, k, res='result'):
    msg, exc = "msg_of(%s)" % k, "exc_of(%s)" % k
    S = "old(%s._state)[%s]" % (p, k)
    return [
        "implies({S} == 'ignore', isnone({r}) and len(log) == len(old(log)))".format(S=S, r=res),
        "implies({S} == 'warn', isnone({r}) and len(log) == len(old(log)) + 1 "
        "        and log[len(old(log))] == eff('warn', {m}))".format(S=S, r=res, m=msg),
        "implies({S} == 'raise', is_exc({r}) and exc_cls({r}) == {e} and exc_msg({r}) == {m} "
        "        and len(log) == len(old(log)))".format(S=S, r=res, m=msg, e=exc),
        "implies({S} == 'print', len(log) == len(old(log)) + 1 and not is_exc({r}) "
        "        and log[len(old(log))] == eff('print', concat({m}, '\\n')))".format(S=S, m=msg, r=res),
        "implies({S} == 'call' and fn_is_ext(old({p}._profile)[{k}]['call']), len(log) == len(old(log)) + 1 "
        "        and log[len(old(log))] == eff('call', old({p}._profile)[{k}]['call'], item) "
        "        and {r} == fn_apply(old({p}._profile)[{k}]['call'], item))".format(S=S, p=p, k=k, r=res),
        "implies({S} == 'call' and not fn_is_ext(old({p}._profile)[{k}]['call']), "
        "        isnone({r}) and len(log) == len(old(log)))".format(S=S, p=p, k=k, r=res),
        "all(log[j] == old(log)[j] for j in range(len(old(log))))",
    ]


TEST_DEFS = ['_zz_test_empty', '_test_obssize', '_test_sampsize', '_test_obsdup', '_test_sampdup',
             '_test_obsmdsize', '_test_sampmdsize']


def _spec_is_test_def(self, eng, st, n, e, bound):
    if n == 'is_test_def':
        f = self.to_fn(eng, eng.sev(e.args[0], st, bound))
        return VBool(z3.Or([f == getattr(self.Fn, 'def_' + d) for d in TEST_DEFS if hasattr(self.Fn, 'def_' + d)]))
    return _orig_spec_call(self, eng, st, n, e, bound)


_orig_spec_call = ErrWorld.spec_call
ErrWorld.spec_call = _spec_is_test_def

P = ['C20']

for _d in TEST_DEFS:
    contract(F, _d, tier='A', props=[], types={'t': 'Val'}, pure_uninterpreted=True, kind='assumed',
             assumes=[ASSUMED['err-tests-pure']])

contract(F, '_create_error_states', tier='P', props=P,
    types={'msg': 'Str', 'callback': 'Opt[Fn]', 'exception': 'Cls'},
    returns='Dict[Str,Fn]',
    ensures=[
        "all((k in result) == (k in VALID) for k in strs())",
        "result['ignore'] == fn_lam('_create_error_states_0')",
        "result['warn'] == fn_lam('_create_error_states_1', msg)",
        "result['raise'] == fn_lam('_create_error_states_2', exception, msg)",
        "result['print'] == fn_lam('_create_error_states_4', msg)",
        "(result['call'] == fn_lam('_create_error_states_3')) if isnone(callback) else (result['call'] == callback)",
    ])

contract(F, 'ErrorProfile._handle_error', tier='P', props=P,
    types={'self': 'Obj:ErrorProfile', 'errtype': 'Str', 'item': 'Val'},
    ghost=GHOST_MSG,
    requires=EP_INV('self') + ["errtype in self._state"],
    returns='Val',
    ensures=OUTCOME('self', 'errtype') + ["same_dict(self._state, old(self._state))"],
    modifies=['log[*]'])

INSP = "((len(old(args)) > 0 and ({k} in old(args))) or (len(old(args)) == 0 and ({k} in self._test)))"
TRIG = "truthy(fn_apply(self._test[{k}], item))"

contract(F, 'ErrorProfile.test', tier='P', props=P,
    types={'self': 'Obj:ErrorProfile', 'item': 'Val', 'args': 'Tup[Str]'},
    ghost=GHOST_MSG,
    requires=EP_INV('self') + ["all(args[j] in self._test for j in range(len(args)))"],
    returns='Val',
    ensures=[
        # nothing inspected triggers: nothing happens
        "implies(all(implies(%s, not %s) for k in strs()), isnone(result) and len(log) == len(old(log)))"
        % (INSP.format(k='k'), TRIG.format(k='k')),
        "all(log[j] == old(log)[j] for j in range(len(old(log))))",
        "same_dict(self._state, old(self._state))",
    ] + [
        # exactly one inspected kind ks triggers: the reaction configured for ks is what happens
        "all(implies(%s and %s and all(implies(%s and k != ks, not %s) for k in strs()), %s) for ks in strs())"
        % (INSP.format(k='ks'), TRIG.format(k='ks'), INSP.format(k='k'), TRIG.format(k='k'), o)
        for o in OUTCOME('self', 'ks')[:-1]
    ],
    modifies=['log[*]'],
    loops={0: dict(header='for errtype in sorted(args)', invariant=[
        "all(not %s for j in range(0, __i0))" % TRIG.format(k='__seq0[j]'),
        "len(log) == len(old(log)) and all(log[j] == old(log)[j] for j in range(len(old(log))))",
        "same_dict(self._state, old(self._state)) and same_dict(self._profile, old(self._profile))"
        " and same_dict(self._test, old(self._test))",
    ])})

contract(F, 'ErrorProfile.setcall', tier='P', props=P,
    types={'self': 'Obj:ErrorProfile', 'errtype': 'Str', 'func': 'Fn'},
    ghost=GHOST_MSG,
    requires=EP_INV('self') + ["fn_is_ext(func) or func == fn_lam('_create_error_states_3')"],
    returns='Fn',
    ensures=EP_INV('self') + [
        "old(errtype in self._state)",
        "result == old(self._profile)[errtype]['call'] and self._profile[errtype]['call'] == func",
        "same_dict(self._state, old(self._state))",
    ],
    raises={'KeyError': ["not old(errtype in self._state)", "same_dict(self._profile, old(self._profile))"]},
    modifies=['self._profile[*]'])

contract(F, 'ErrorProfile.getcall', tier='P', props=P,
    types={'self': 'Obj:ErrorProfile', 'errtype': 'Str'},
    ghost=GHOST_MSG,
    requires=EP_INV('self'),
    returns='Fn',
    ensures=["old(errtype in self._state)", "result == self._profile[errtype]['call']"],
    raises={'KeyError': ["not old(errtype in self._state)"]},
    modifies=[])

NS = "old(new_state)"
contract(F, 'ErrorProfile.state.setter', tier='P', props=P,
    types={'self': 'Obj:ErrorProfile', 'new_state': 'Dict[Str,Str]'},
    ghost=GHOST_MSG,
    requires=EP_INV('self'),
    ensures=EP_INV('self') + [
        "keys_eq(self._state, old(self._state))",
        # 'all': every registered kind gets that reaction
        "implies('all' in %s, all(self._state[k] == %s['all'] for k in self._state))" % (NS, NS),
        # otherwise exactly the named kinds change
        "implies('all' not in %s, all(self._state[k] == (%s[k] if k in %s else old(self._state)[k]) for k in self._state))" % (NS, NS, NS),
        # a normal return means nothing had to be refused: every entry names a known kind (or 'all') and a valid reaction
        "all((k == 'all' or k in old(self._state)) and %s[k] in VALID for k in %s)" % (NS, NS),
        "same_dict(self._profile, old(self._profile)) and same_dict(self._test, old(self._test))",
    ],
    raises={'KeyError': [
        # refused  =>  the profile is unchanged
        "same_dict(self._state, old(self._state))",
        "same_dict(self._profile, old(self._profile)) and same_dict(self._test, old(self._test))",
        # ... and it is only refused for a reason
        "any(not ((k == 'all' or k in old(self._state)) and %s[k] in VALID) for k in %s)" % (NS, NS),
    ]},
    modifies=['self._state[*]'],
    loops={
        0: dict(header='for errtype, state in new_state.items()', invariant=[
            "all(__seq0[1][j] in VALID and (__seq0[0][j] == 'all' or __seq0[0][j] in self._state) for j in range(0, __i0))",
        ]),
        1: dict(header='for errtype, state in to_update', invariant=[
            "keys_eq(self._state, old(self._state))",
            "all(__seq1[0][j] in self._state and self._state[__seq1[0][j]] == __seq1[1][j] for j in range(0, __i1))",
            "all(self._state[k] == old(self._state)[k] or any(__seq1[0][j] == k for j in range(0, __i1)) for k in strs())",
            "same_dict(self._profile, old(self._profile)) and same_dict(self._test, old(self._test))",
        ]),
    })

# ---------------------------------------------------------------------------
# module-level API on the module-level profile EP
# ---------------------------------------------------------------------------
M_INV = EP_INV('EP') + [
    "all((k in EP._state) == (k in KINDS) for k in strs())",
    "all(exc_of(k) == TableException for k in EP._state)",
    "msg_of('empty') == EMPTY and msg_of('obssize') == OBSSIZE and msg_of('sampsize') == SAMPSIZE",
    "msg_of('obsdup') == OBSDUP and msg_of('sampdup') == SAMPDUP",
    "msg_of('obsmdsize') == OBSMDSIZE and msg_of('sampmdsize') == SAMPMDSIZE",
]
M_ASSUME = [ASSUMED['err-module-invariant']]
KW = "old(kwargs)"

SETERR_EFFECT = [
    "keys_eq(EP._state, old(EP._state))",
    "implies('all' in %s, all(EP._state[k] == %s['all'] for k in EP._state))" % (KW, KW),
    "implies('all' not in %s, all(EP._state[k] == (%s[k] if k in %s else old(EP._state)[k]) for k in EP._state))" % (KW, KW, KW),
]

contract(F, 'geterr', tier='P', props=P, types={}, ghost=GHOST_MSG, requires=M_INV, assumes=M_ASSUME,
    returns='Dict[Str,Str]',
    ensures=["same_dict(result, EP._state)", "result is not EP._state", "same_dict(EP._state, old(EP._state))"],
    modifies=[])

contract(F, 'seterr', tier='P', props=P, types={'kwargs': 'Dict[Str,Str]'}, ghost=GHOST_MSG,
    requires=M_INV, assumes=M_ASSUME,
    returns='Dict[Str,Str]',
    ensures=M_INV + SETERR_EFFECT + [
        "same_dict(result, old(EP._state))",        # the previous profile is returned
        # nothing unknown was named
        "all((k == 'all' or k in KINDS) and %s[k] in VALID for k in %s)" % (KW, KW),
    ],
    raises={'KeyError': [
        "same_dict(EP._state, old(EP._state))",     # refused => profile unchanged
        "same_dict(EP._profile, old(EP._profile)) and same_dict(EP._test, old(EP._test))",
        "any(not ((k == 'all' or k in KINDS) and %s[k] in VALID) for k in %s)" % (KW, KW),
    ]},
    modifies=['EP._state[*]'])

contract(F, 'seterrcall', tier='P', props=P, types={'errtype': 'Str', 'func': 'Fn'}, ghost=GHOST_MSG,
    requires=M_INV + ["fn_is_ext(func)"], assumes=M_ASSUME,
    returns='Fn',
    ensures=M_INV + ["errtype in KINDS", "result == old(EP._profile)[errtype]['call']",
                     "EP._profile[errtype]['call'] == func", "same_dict(EP._state, old(EP._state))"],
    raises={'KeyError': ["errtype not in KINDS", "same_dict(EP._profile, old(EP._profile))",
                         "same_dict(EP._state, old(EP._state))"]},
    modifies=['EP._profile[*]'])

contract(F, 'geterrcall', tier='P', props=P, types={'errtype': 'Str'}, ghost=GHOST_MSG,
    requires=M_INV, assumes=M_ASSUME,
    returns='Fn',
    ensures=["errtype in KINDS", "result == EP._profile[errtype]['call']"],
    raises={'KeyError': ["errtype not in KINDS"]},
    modifies=[])

E_INSP = "((len(errtypes) > 0 and ({k} in errtypes)) or (len(errtypes) == 0 and ({k} in KINDS)))"
E_TRIG = "truthy(fn_apply(EP._test[{k}], table))"
ONLY = ("{insp} and {trig} and all(implies({insp2} and k != ks, not {trig2}) for k in strs())".format(
    insp=E_INSP.format(k='ks'), trig=E_TRIG.format(k='ks'), insp2=E_INSP.format(k='k'), trig2=E_TRIG.format(k='k')))


def _outcome_errcheck():
    out = []
    for o in OUTCOME('EP', 'ks')[:-1]:
        out.append("all(implies(%s, %s) for ks in strs())" % (ONLY, o.replace(', item)', ', table)')))
    return out


contract(F, 'errcheck', tier='P', props=P, types={'table': 'Val', 'errtypes': 'Tup[Str]'}, ghost=GHOST_MSG,
    requires=M_INV + ["all(errtypes[j] in KINDS for j in range(len(errtypes)))"], assumes=M_ASSUME,
    returns='Val',
    ensures=[
        # a normal return: the one triggering kind was not configured 'raise' ...
        "all(implies(%s, EP._state[ks] != 'raise') for ks in strs())" % ONLY,
        # ... nothing triggering means nothing happens
        "implies(all(implies(%s, not %s) for k in strs()), isnone(result) and len(log) == len(old(log)))"
        % (E_INSP.format(k='k'), E_TRIG.format(k='k')),
        "all(log[j] == old(log)[j] for j in range(len(old(log))))",
        "same_dict(EP._state, old(EP._state))",
    ] + [o for i, o in enumerate(_outcome_errcheck()) if i != 2],
    raises={'*': [
        # an exception leaves errcheck only for a triggering kind configured 'raise' (the table error with the
        # registered message) or because a 'call' callback returned an exception object
        "all(implies(%s, (EP._state[ks] == 'raise' and exc_class == TableException and exc_args[0] == msg_of(ks)"
        "                 and len(log) == len(old(log))) or EP._state[ks] == 'call') for ks in strs())" % ONLY,
        "not all(implies(%s, not %s) for k in strs())" % (E_INSP.format(k='k'), E_TRIG.format(k='k')),
        "same_dict(EP._state, old(EP._state))",
    ]},
    modifies=['log[*]'])

contract(F, 'errstate', tier='P', props=P, kind='contextmanager', types={'kwargs': 'Dict[Str,Str]'}, ghost=GHOST_MSG,
    requires=M_INV, assumes=M_ASSUME + [ASSUMED['contextmanager']],
    # in force from enter ...
    enter=SETERR_EFFECT,
    # the with-block may itself use the public API (each call keeps the module invariant)
    block_modifies=['EP._state[*]', 'log[*]'],
    block_assumes=M_INV,
    # ... and the profile at entry is restored on normal and on exceptional exit
    exit_ok=["same_dict(EP._state, old(EP._state))"],
    exit_exc=["same_dict(EP._state, old(EP._state))"],
    raises={'KeyError': ["same_dict(EP._state, old(EP._state))"]},
    modifies=['EP._state[*]', 'log[*]'])
