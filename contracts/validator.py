"""Contracts for the JSON half of biom/cli/table_validator.py (C15, soundness: a validator that returns ''
has really checked what the property lists), Tier P.

JSON values are an uninterpreted sort with observers (kind tag, scalar payloads, list length / items, object
membership / lookup); the verified code only inspects JSON, it never builds it.  An operation Python would
refuse (len() of a number, a string compared with an integer, ...) raises there; the model instead continues with
an arbitrary result, i.e. it considers *more* behaviours than exist, which is sound for "returns '' implies ...".
A crash of a validator counts as "not reported valid" (DESIGN.md 8/C15), so every exception is allowed.
"""
import ast

import z3

from pyvc import smt
from pyvc.prove import contract, world_for
from pyvc.world import World, ASSUMED
from pyvc.values import (SV, VRef, VStr, VTuple, VFn, VBool, VInt, VReal, VCls, NONE, Obj, Dict, Arr, EngineError, fresh)
from pyvc.engine import Result, to_int, to_real, is_num
from pyvc.smt import I, B, R, Str

F = 'biom/cli/table_validator.py'

J = z3.DeclareSort('JSON')
jkind = z3.Function('jkind', J, I)        # 0 null 1 bool 2 int 3 real 4 str 5 list 6 obj
jb = z3.Function('jb', J, B)
ji = z3.Function('ji', J, I)
jr = z3.Function('jr', J, R)
js = z3.Function('js', J, Str)
jn = z3.Function('jn', J, I)
jitem = z3.Function('jitem', J, I, J)
jhas = z3.Function('jhas', J, Str, B)
jget = z3.Function('jget', J, Str, J)
KIND = {'null': 0, 'bool': 1, 'int': 2, 'real': 3, 'str': 4, 'list': 5, 'obj': 6}

ASSUMED['json-model'] = ('JSON documents (the result of json.load) are values of exactly one of the kinds null, bool, '
                         'int, float, str, list, dict; dict keys are strings')
ASSUMED['_is_int'] = ('TableValidator._is_int(x) = numpy.issubdtype(type(x), numpy.integer): true exactly for integers '
                      '(not for booleans, floats, strings, lists, dicts, None)')


class VJson(SV):
    kind = 'json'

    def __init__(self, term):
        self.term = term

    def is_(self, k):
        return jkind(self.term) == KIND[k]

    def num(self):
        t = self.term
        return z3.If(self.is_('int'), z3.ToReal(ji(t)),
                     z3.If(self.is_('real'), jr(t),
                           z3.If(self.is_('bool'), z3.If(jb(t), z3.RealVal(1), z3.RealVal(0)), fresh('nonnum', R))))

    # ---- engine extension protocol -------------------------------------------
    def sv_truth(self, eng, st):
        t = self.term
        return z3.If(self.is_('null'), z3.BoolVal(False),
               z3.If(self.is_('bool'), jb(t),
               z3.If(self.is_('int'), ji(t) != 0,
               z3.If(self.is_('real'), jr(t) != 0,
               z3.If(self.is_('str'), smt.len_s(js(t)) > 0,
               z3.If(self.is_('list'), jn(t) > 0, fresh('objtruth', B)))))))

    def sv_len(self, eng, st):
        return VInt(z3.If(self.is_('str'), smt.len_s(js(self.term)), jn(self.term)))

    def sv_index_pure(self, eng, st, idx):
        if idx.kind == 'str':
            return VJson(jget(self.term, idx.term))
        return VJson(jitem(self.term, to_int(idx)))

    def sv_index(self, eng, st, idx, node):
        out = []
        if idx.kind == 'str':
            ok = z3.And(self.is_('obj'), jhas(self.term, idx.term))
            err = 'KeyError'
        elif idx.kind in ('int', 'bool'):
            i = to_int(idx)
            ok = z3.And(self.is_('list'), 0 <= i, i < jn(self.term))
            err = 'IndexError'
        else:
            raise EngineError('JSON index of kind %s' % idx.kind)
        yes, no = eng.fork(st, ok)
        for s in yes:
            out.append(Result(s, self.sv_index_pure(eng, s, idx)))
        for s in no:
            out.append(eng.exc(s, err))
        return out

    def sv_contains(self, eng, st, x):
        if x.kind == 'str':
            return z3.And(self.is_('obj'), jhas(self.term, x.term))
        raise EngineError('membership of %s in JSON' % x.kind)

    def sv_compare(self, eng, st, op, other, reflected):
        if isinstance(op, (ast.Is, ast.IsNot)):
            t = self.is_('null') if other.kind == 'none' else z3.BoolVal(False)
            return z3.Not(t) if isinstance(op, ast.IsNot) else t
        if isinstance(op, (ast.Eq, ast.NotEq)):
            if other.kind == 'str':
                t = z3.And(self.is_('str'), js(self.term) == other.term)
            elif other.kind == 'none':
                t = self.is_('null')
            elif is_num(other):
                t = z3.And(z3.Or(self.is_('int'), self.is_('real'), self.is_('bool')), self.num() == to_real(other))
            elif other.kind == 'json':
                t = self.term == other.term
            else:
                t = z3.BoolVal(False)
            return z3.Not(t) if isinstance(op, ast.NotEq) else t
        a = self.num()
        b = other.num() if other.kind == 'json' else to_real(other)
        if reflected:
            a, b = b, a
        return {ast.Lt: a < b, ast.LtE: a <= b, ast.Gt: a > b, ast.GtE: a >= b}[type(op)]

    def sv_member_of(self, eng, st, cont):
        if cont.kind == 'ref' and isinstance(st.node(cont), Dict) and st.node(cont).kkind == 'str':
            return z3.And(self.is_('str'), st.node(cont).dom[js(self.term)])
        return None

    def sv_binop(self, eng, st, op, other, reflected):
        if isinstance(op, ast.Mod) and reflected and other.kind == 'str':
            return eng.formatted(other)
        a = self.num()
        b = other.num() if other.kind == 'json' else to_real(other)
        if reflected:
            a, b = b, a
        if isinstance(op, ast.Add):
            return VReal(a + b)
        if isinstance(op, ast.Sub):
            return VReal(a - b)
        raise EngineError('arithmetic %s on JSON' % type(op).__name__)

    def sv_iter(self, eng, st, s):
        t = self.term
        return z3.IntVal(0), z3.If(jn(t) >= 0, jn(t), 0), (lambda st2, k: VJson(jitem(t, k)))

    def sv_unpack(self, eng, st, n):
        out = []
        yes, no = eng.fork(st, z3.And(self.is_('list'), jn(self.term) == n))
        for s in yes:
            out.append((s, [VJson(jitem(self.term, k)) for k in range(n)], None))
        for s in no:
            out.append((s, None, eng.exc(s, 'ValueError')))
        return out

    def sv_as_key(self, eng, st, base, node):
        n = st.node(base)
        out = []
        yes, no = eng.fork(st, z3.And(self.is_('str'), n.dom[js(self.term)]))
        for s in yes:
            out.append(Result(s, eng.wrap(n.vkind, n.val[js(self.term)])))
        for s in no:
            out.append(eng.exc(s, 'KeyError'))
        return out


from pyvc.world import VEnumerate   # noqa: E402


class ValidatorWorld(World):
    extra_sorts = {'json': (J, VJson, lambda eng, v: v.term)}

    def make_input(self, eng, st, name, ty):
        if ty == 'JSON':
            t = fresh(name, J)
            self.used.add('json-model')
            return VJson(t)
        if ty == 'Obj:TableValidator':
            return st.alloc(Obj('TableValidator', {'_format_version': VStr(fresh('fmtver', Str))}))
        return super().make_input(eng, st, name, ty)

    def globals_for(self, eng, st, c):
        x = fresh('j', J)
        k = fresh('k', I)
        st.assume(z3.ForAll([x], z3.And(0 <= jkind(x), jkind(x) <= 6, jn(x) >= 0), patterns=[jkind(x)]))
        return {}

    def call_builtin(self, eng, st, name, args, kwargs, node, starv=None, dstar=None):
        if name == 'enumerate':
            return [Result(st, VEnumerate(args[0]))]
        if name == 'repr' or name == 'str':
            return [Result(st, VStr(fresh('repr', Str)))]
        if name == 'set' and not args:
            # an empty set of JSON values: membership only
            ks = J
            return [Result(st, st.alloc(Dict('json', 'bool', z3.K(ks, z3.BoolVal(False)), z3.K(ks, z3.BoolVal(True)))))]
        return super().call_builtin(eng, st, name, args, kwargs, node, starv, dstar)

    def dict_method(self, eng, st, recv, n, name, args, kwargs, node):
        if name == 'add' and n.kkind == 'json':
            st = st.copy()
            st.setnode(recv, n.replace(dom=z3.Store(n.dom, args[0].term, z3.BoolVal(True))))
            return [Result(st, NONE)]
        return super().dict_method(eng, st, recv, n, name, args, kwargs, node)

    def isinstance_hook(self, eng, st, v, cls, node):
        if v.kind != 'json':
            return None
        if cls.kind == 'fn':
            f = self.to_fn(eng, cls)
            t = z3.Or(z3.And(f == self.ext_fn('builtin:int'), z3.Or(v.is_('int'), v.is_('bool'))),
                      z3.And(f == self.ext_fn('builtin:float'), v.is_('real')),
                      z3.And(f == self.ext_fn('builtin:str'), v.is_('str')),
                      z3.And(f == self.ext_fn('builtin:dict'), v.is_('obj')),
                      z3.And(f == self.ext_fn('builtin:list'), v.is_('list')))
            return [Result(st, VBool(t))]
        return None

    def global_name(self, eng, st, n):
        if n in ('int', 'float', 'str', 'dict', 'list', 'bytes'):
            return VFn('builtin', name=n)
        return super().global_name(eng, st, n)

    def spec_call(self, eng, st, n, e, bound):
        if n.startswith('is_j') and n[4:] in KIND:
            return VBool(eng.sev(e.args[0], st, bound).is_(n[4:]))
        if n == 'jint':
            return VInt(ji(eng.sev(e.args[0], st, bound).term))
        if n == 'jstr':
            return VStr(js(eng.sev(e.args[0], st, bound).term))
        if n == 'jlen':
            return VInt(jn(eng.sev(e.args[0], st, bound).term))
        if n == 'jhas':
            v = eng.sev(e.args[0], st, bound)
            return VBool(z3.And(v.is_('obj'), jhas(v.term, eng.sev(e.args[1], st, bound).term)))
        if n == 'py_isinstance':
            # isinstance(value, ElementTypes[name]) as python defines it for JSON values
            v = eng.sev(e.args[0], st, bound)
            name = eng.sev(e.args[1], st, bound)
            nm = js(name.term) if name.kind == 'json' else name.term
            t = z3.Or(z3.And(nm == smt.str_lit('int'), z3.Or(v.is_('int'), v.is_('bool'))),
                      z3.And(nm == smt.str_lit('float'), v.is_('real')),
                      z3.And(z3.Or(nm == smt.str_lit('str'), nm == smt.str_lit('unicode')), v.is_('str')))
            return VBool(t)
        return super().spec_call(eng, st, n, e, bound)


world_for(F, ValidatorWorld)

ANY_EXC = {'*': []}        # a crashing validator never reports "valid"

contract(F, 'TableValidator._is_int', tier='A', props=[], kind='assumed',
    types={'self': 'Obj:TableValidator', 'x': 'JSON'}, returns='Bool',
    ensures=["result == is_jint(x)"], assumes=[ASSUMED['_is_int']])

T = "table_json"
COORD_OK = ("is_jlist({c}) and jlen({c}) == 3 and is_jint({c}[0]) and is_jint({c}[1]) "
            "and py_isinstance({c}[2], {t}['matrix_element_type']) "
            "and 0 <= jint({c}[0]) and jint({c}[0]) < jint({t}['shape'][0]) "
            "and 0 <= jint({c}[1]) and jint({c}[1]) < jint({t}['shape'][1])")

contract(F, 'TableValidator._valid_sparse_data', tier='P', props=['C15'],
    types={'self': 'Obj:TableValidator', 'table_json': 'JSON'},
    returns='Str',
    ensures=[
        # '' (no complaint) only if every entry is an integer triple inside the declared shape whose value has the
        # declared element type (for a shape that is not a pair of integers nothing is claimed: _valid_shape reports it)
        "implies(result == '' and is_jint(%s['shape'][0]) and is_jint(%s['shape'][1]), all(%s for k in range(jlen(%s['data']))))"
        % (T, T, COORD_OK.format(c="%s['data'][k]" % T, t=T), T),
    ],
    raises=ANY_EXC, modifies=[],
    loops={0: dict(header="for idx, coord in enumerate(table_json['data'])", invariant=[
        "implies(is_jint(%s['shape'][0]) and is_jint(%s['shape'][1]), all(%s for k in range(0, __i0)))" % (T, T, COORD_OK.format(c="%s['data'][k]" % T, t=T)),
        "implies(is_jint(%s['shape'][0]) and is_jint(%s['shape'][1]), n_rows == jint(%s['shape'][0]) - 1 and n_cols == jint(%s['shape'][1]) - 1)" % (T, T, T, T),
    ])})

contract(F, 'TableValidator._valid_metadata', tier='P', props=['C15'],
    types={'self': 'Obj:TableValidator', 'record': 'JSON'}, returns='Str',
    ensures=["implies(result == '', jhas(record, 'metadata') and (is_jnull(record['metadata']) or is_jobj(record['metadata'])))"],
    raises=ANY_EXC, modifies=[])

contract(F, 'TableValidator._valid_id', tier='P', props=['C15'],
    types={'self': 'Obj:TableValidator', 'record': 'JSON'}, returns='Str',
    ensures=["implies(result == '', jhas(record, 'id') and not (is_jstr(record['id']) and len(jstr(record['id'])) == 0) "
             "        and not is_jnull(record['id']))"],
    raises=ANY_EXC, modifies=[])

contract(F, 'TableValidator._valid_matrix_type', tier='P', props=['C15'],
    types={'self': 'Obj:TableValidator', 'table_json': 'JSON'}, returns='Str',
    ensures=["implies(result == '', is_jstr(%s['matrix_type']) and "
             "(jstr(%s['matrix_type']) == 'sparse' or jstr(%s['matrix_type']) == 'dense'))" % (T, T, T)],
    raises=ANY_EXC, modifies=[])

contract(F, 'TableValidator._valid_matrix_element_type', tier='P', props=['C15'],
    types={'self': 'Obj:TableValidator', 'table_json': 'JSON'}, returns='Str',
    ensures=["implies(result == '', is_jstr(%s['matrix_element_type']) and "
             "jstr(%s['matrix_element_type']) in ('int', 'str', 'float', 'unicode'))" % (T, T)],
    raises=ANY_EXC, modifies=[])


# ---- methods on JSON values used by the validators ------------------------------------------
def _json_method(self, eng, st, recv, name, args, kwargs, node, starv=None, dstar=None):
    if recv.kind == 'json':
        if name == 'get':
            key = args[0]
            dflt = args[1] if len(args) > 1 else NONE
            out = []
            yes, no = eng.fork(st, z3.And(recv.is_('obj'), jhas(recv.term, key.term)))
            for s in yes:
                out.append(Result(s, VJson(jget(recv.term, key.term))))
            for s in no:
                out.append(Result(s, dflt))
            return out
        if name == 'lower':
            return [Result(st, VStr(fresh('lower', Str)))]
        raise EngineError('%s:%d: method %s on a JSON value' % (eng.rel, node.lineno, name))
    if recv.kind == 'str' and name == 'lower':
        return [Result(st, VStr(fresh('lower', Str)))]
    if recv.kind == 'tuple' and name == 'extend' and args and args[0].kind == 'tuple' and not args[0].items:
        return [Result(st, NONE)]          # extending by an empty list changes nothing
    return _orig_call_method(self, eng, st, recv, name, args, kwargs, node, starv, dstar)


_orig_call_method = ValidatorWorld.call_method
ValidatorWorld.call_method = _json_method


def _vw_builtin2(self, eng, st, name, args, kwargs, node, starv=None, dstar=None):
    if name == 'hasattr':
        # JSON documents are dicts / lists / scalars: they have no `attrs` (h5py objects do)
        return [Result(st, VBool(False if args[0].kind == 'json' else True))]
    return _orig_vw_builtin(self, eng, st, name, args, kwargs, node, starv, dstar)


_orig_vw_builtin = ValidatorWorld.call_builtin
ValidatorWorld.call_builtin = _vw_builtin2


def _vw_may_inline(self, fv):
    return fv.qualname in ('TableValidator._json_or_hdf5_get', 'TableValidator._json_or_hdf5_key')


ValidatorWorld.may_inline = _vw_may_inline

contract(F, 'TableValidator._valid_shape', tier='P', props=['C15'],
    types={'self': 'Obj:TableValidator', 'table': 'JSON'}, returns='Str',
    ensures=["implies(result == '', jhas(table, 'shape') and is_jlist(table['shape']) and jlen(table['shape']) == 2 "
             "        and is_jint(table['shape'][0]) and is_jint(table['shape'][1]))"],
    raises=ANY_EXC, modifies=[])

REC_OK = ("jhas({r}, 'id') and not is_jnull({r}['id']) and not (is_jstr({r}['id']) and len(jstr({r}['id'])) == 0) "
          "and jhas({r}, 'metadata') and (is_jnull({r}['metadata']) or is_jobj({r}['metadata']))")


def _records_contract(fn, key, var):
    R = "%s['%s']" % (T, key)
    contract(F, 'TableValidator.' + fn, tier='P', props=['C15'],
        types={'self': 'Obj:TableValidator', 'table_json': 'JSON'}, returns='Str',
        locals={'required_by_type': 'Dict[Str,Val]'},
        ensures=[
            # no complaint only if every record has a non-empty id and null-or-object metadata ...
            "implies(result == '', all(%s for k in range(jlen(%s))))" % (REC_OK.format(r=R + '[k]'), R),
            # ... and no id occurs twice on the axis
            "implies(result == '', all(implies(k1 < k2, %s[k1]['id'] != %s[k2]['id']) "
            "                          for k1 in range(jlen(%s)) for k2 in range(jlen(%s))))" % (R, R, R, R),
        ],
        raises=ANY_EXC, modifies=[],
        loops={0: dict(header="for idx, %s in enumerate(table_json['%s'])" % (var, key), invariant=[
            "all(%s for k in range(0, __i0))" % REC_OK.format(r=R + '[k]'),
            "all(%s[k]['id'] in seen for k in range(0, __i0))" % R,
            "all(implies(k1 < k2, %s[k1]['id'] != %s[k2]['id']) for k1 in range(0, __i0) for k2 in range(0, __i0))" % (R, R),
            "all(implies(v in seen, any(%s[k]['id'] == v for k in range(0, __i0))) for v in jsons())" % R,
        ])})


_records_contract('_valid_rows', 'rows', 'row')
_records_contract('_valid_columns', 'columns', 'col')


# ---- dense matrices, the dispatcher and the composition -----------------------------------------------------
lower_s = z3.Function('str_lower', Str, Str)
ASSUMED['str.lower'] = ("str.lower is an uninterpreted function of the string with lower('sparse') == 'sparse' and "
                        "lower('dense') == 'dense' (the two literals the validator compares with)")
ASSUMED['functools.reduce(and_)'] = ('reduce(operator.and_, bools) of a non-empty list of booleans is their conjunction; '
                                     'of an empty list it raises TypeError')
ASSUMED['_valid_date'] = 'TableValidator._valid_date returns a string and changes nothing (datetime.strptime is not modelled)'


def _vw_method3(self, eng, st, recv, name, args, kwargs, node, starv=None, dstar=None):
    if name == 'lower' and recv.kind in ('json', 'str'):
        self.used.add('str.lower')
        if recv.kind == 'json':
            yes, no = eng.fork(st, recv.is_('str'))
            return [Result(s, VStr(lower_s(js(recv.term)))) for s in yes] + [eng.exc(s, 'AttributeError') for s in no]
        return [Result(st, VStr(lower_s(recv.term)))]
    return _prev_method3(self, eng, st, recv, name, args, kwargs, node, starv, dstar)


_prev_method3 = ValidatorWorld.call_method
ValidatorWorld.call_method = _vw_method3


def _vw_builtin3(self, eng, st, name, args, kwargs, node, starv=None, dstar=None):
    if name == 'reduce':
        f, seq = args[0], args[1]
        if not (f.kind == 'fn' and f.fk == 'builtin' and f.name == 'and_' and seq.kind == 'ref'
                and isinstance(st.node(seq), Arr) and st.node(seq).elem == 'bool'):
            raise EngineError('%s:%d: reduce outside the modelled shape reduce(and_, [bool...])' % (eng.rel, node.lineno))
        self.used.add('functools.reduce(and_)')
        n = st.node(seq)
        q = fresh('rq', I)
        out = []
        yes, no = eng.fork(st, n.n > 0)
        for s in yes:
            out.append(Result(s, VBool(z3.ForAll([q], z3.Implies(z3.And(0 <= q, q < n.n), n.a[q]), patterns=[n.a[q]]))))
        for s in no:
            out.append(eng.exc(s, 'TypeError'))
        return out
    return _prev_builtin3(self, eng, st, name, args, kwargs, node, starv, dstar)


_prev_builtin3 = ValidatorWorld.call_builtin
ValidatorWorld.call_builtin = _vw_builtin3


def _vw_global3(self, eng, st, n):
    if n in ('reduce', 'and_'):
        return VFn('builtin', name=n)
    return _prev_global3(self, eng, st, n)


_prev_global3 = ValidatorWorld.global_name
ValidatorWorld.global_name = _vw_global3


def _vw_globals_for3(self, eng, st, c):
    out = _prev_globals_for3(self, eng, st, c)
    st.assume(lower_s(smt.str_lit('sparse')) == smt.str_lit('sparse'), lower_s(smt.str_lit('dense')) == smt.str_lit('dense'))
    return out


_prev_globals_for3 = ValidatorWorld.globals_for
ValidatorWorld.globals_for = _vw_globals_for3


def _vw_spec3(self, eng, st, n, e, bound):
    if n == 'lower':
        v = eng.sev(e.args[0], st, bound)
        return VStr(lower_s(js(v.term) if v.kind == 'json' else v.term))
    return _prev_spec3(self, eng, st, n, e, bound)


_prev_spec3 = ValidatorWorld.spec_call
ValidatorWorld.spec_call = _vw_spec3

ROW_OK = ("len({r}) == {t}['shape'][1] and "
          "all(py_isinstance({r}[j], {t}['matrix_element_type']) for j in range(jlen({r})))")
DENSE_OK = ("all(%s for k in range(jlen({t}['data']))) and len({t}['data']) == {t}['shape'][0]"
            % ROW_OK.replace('{r}', "{t}['data'][k]"))

contract(F, 'TableValidator._valid_dense_data', tier='P', props=['C15'],
    types={'self': 'Obj:TableValidator', 'table_json': 'JSON'}, returns='Str',
    ensures=[
        # no complaint only if every row has the declared number of columns, every element the declared type, and the
        # number of rows is the declared one
        "implies(result == '', %s)" % DENSE_OK.format(t=T),
    ],
    raises=ANY_EXC, modifies=[],
    loops={0: dict(header="for row in table_json['data']", invariant=[
        "all(%s for k in range(0, __i0))" % ROW_OK.format(r="%s['data'][k]" % T, t=T),
        "n_cols == %s['shape'][1] and n_rows == %s['shape'][0]" % (T, T),
    ])})

SPARSE_OK = "all(%s for k in range(jlen({t}['data'])))" % COORD_OK.replace('{c}', "{t}['data'][k]")

contract(F, 'TableValidator._valid_data', tier='P', props=['C15'],
    types={'self': 'Obj:TableValidator', 'table_json': 'JSON'}, returns='Str',
    ensures=[
        "implies(result == '', lower(%s['matrix_type']) == 'sparse' or lower(%s['matrix_type']) == 'dense')" % (T, T),
        "implies(result == '' and lower(%s['matrix_type']) == 'sparse' and is_jint(%s['shape'][0]) and is_jint(%s['shape'][1]), %s)"
        % (T, T, T, SPARSE_OK.format(t=T)),
        "implies(result == '' and lower(%s['matrix_type']) == 'dense', %s)" % (T, DENSE_OK.format(t=T)),
    ],
    raises=ANY_EXC, modifies=[])

# the remaining header validators (each: what "no complaint" means for a JSON document)
contract(F, 'TableValidator._valid_date', tier='A', props=[], kind='assumed',
    types={'self': 'Obj:TableValidator', 'val': 'JSON'}, returns='Str', ensures=[], assumes=[ASSUMED['_valid_date']])

contract(F, 'TableValidator._valid_format', tier='P', props=['C15'],
    types={'self': 'Obj:TableValidator', 'table_json': 'JSON'}, returns='Str',
    ensures=["implies(result == '', jhas(table_json, 'format') and is_jstr(table_json['format']))"], raises=ANY_EXC, modifies=[])

contract(F, 'TableValidator._valid_format_url', tier='P', props=['C15'],
    types={'self': 'Obj:TableValidator', 'table': 'JSON'}, returns='Str',
    ensures=["implies(result == '', jhas(table, 'format_url') and is_jstr(table['format_url']) "
             "        and jstr(table['format_url']) == 'http://biom-format.org')"], raises=ANY_EXC, modifies=[])

contract(F, 'TableValidator._valid_type', tier='P', props=['C15'],
    types={'self': 'Obj:TableValidator', 'table': 'JSON'}, returns='Str',
    ensures=["implies(result == '', jhas(table, 'type') and is_jstr(table['type']) and len(jstr(table['type'])) > 0)"],
    raises=ANY_EXC, modifies=[])

contract(F, 'TableValidator._valid_generated_by', tier='P', props=['C15'],
    types={'self': 'Obj:TableValidator', 'table': 'JSON'}, returns='Str',
    ensures=["implies(result == '', jhas(table, 'generated_by') and not is_jnull(table['generated_by']))"],
    raises=ANY_EXC, modifies=[])

contract(F, 'TableValidator._valid_nullable_id', tier='P', props=['C15'],
    types={'self': 'Obj:TableValidator', 'table_json': 'JSON'}, returns='Str',
    ensures=["result == ''"], raises={}, modifies=[])

contract(F, 'TableValidator._valid_datetime', tier='A', props=['C15'],
    types={'self': 'Obj:TableValidator', 'table': 'JSON'}, returns='Str',
    ensures=[], raises=ANY_EXC, modifies=[])

# ---- the composition: what "valid_table is True" means for a JSON document ---------------------------------------
_KEYS = ['format', 'format_url', 'type', 'rows', 'columns', 'shape', 'data', 'matrix_type', 'matrix_element_type',
         'generated_by', 'id', 'date']
TJ = "kwargs['table']"
_VALID = "result['valid_table']"


def _recs(key):
    R = "%s['%s']" % (TJ, key)
    return ("all(%s for k in range(jlen(%s))) and "
            "all(implies(k1 < k2, %s[k1]['id'] != %s[k2]['id']) for k1 in range(jlen(%s)) for k2 in range(jlen(%s)))"
            % (REC_OK.format(r=R + '[k]'), R, R, R, R, R))


_TJL = "table_json"
_CLAUSE = {
    'rows': _recs('rows').replace(TJ, _TJL), 'columns': _recs('columns').replace(TJ, _TJL),
    'shape': "is_jlist(%s['shape']) and jlen(%s['shape']) == 2 and is_jint(%s['shape'][0]) and is_jint(%s['shape'][1])" % ((_TJL,) * 4),
    'data': "(lower(%s['matrix_type']) == 'sparse' or lower(%s['matrix_type']) == 'dense') and "
            "implies(lower(%s['matrix_type']) == 'sparse' and is_jint(%s['shape'][0]) and is_jint(%s['shape'][1]), %s) and "
            "implies(lower(%s['matrix_type']) == 'dense', %s)"
            % (_TJL, _TJL, _TJL, _TJL, _TJL, SPARSE_OK.format(t=_TJL), _TJL, DENSE_OK.format(t=_TJL)),
    'matrix_type': "is_jstr(%s['matrix_type']) and (jstr(%s['matrix_type']) == 'sparse' or jstr(%s['matrix_type']) == 'dense')" % ((_TJL,) * 3),
    'matrix_element_type': "is_jstr(%s['matrix_element_type']) and jstr(%s['matrix_element_type']) in ('int', 'str', 'float', 'unicode')" % ((_TJL,) * 2),
}
# the loop over the twelve (field, validator) pairs: once a pair has been passed with valid_table still true, its field
# is present and its validator had no complaint
_VJ_INV = ["implies(valid_table and __i0 > %d, jhas(%s, '%s')%s)" % (p, _TJL, k, (' and ' + _CLAUSE[k]) if k in _CLAUSE else '')
           for p, k in enumerate(_KEYS)] + ["table_json == kwargs['table']"]

contract(F, 'TableValidator._validate_json', tier='P', props=['C15'],
    types={'self': 'Obj:TableValidator', 'kwargs': 'Dict[Str,JSON]'},
    locals={'report_lines': 'Arr[Str]'},
    requires=["'table' in kwargs and 'format_version' in kwargs"],
    returns='Dict[Str,Val]',
    ensures=[
        # reported valid only if ... no required field is missing,
        "implies(%s, %s)" % (_VALID, ' and '.join("jhas(%s, '%s')" % (TJ, k) for k in _KEYS)),
        # the declared shape is a pair of integers that agrees with the number of ids on both axes,
        "implies(%s, is_jint(%s['shape'][0]) and is_jint(%s['shape'][1]) and len(%s['rows']) == %s['shape'][0] "
        "        and len(%s['columns']) == %s['shape'][1])" % (_VALID, TJ, TJ, TJ, TJ, TJ, TJ),
        # ids are non-empty and not duplicated on their axis, metadata is an object or null,
        "implies(%s, %s)" % (_VALID, _recs('rows')),
        "implies(%s, %s)" % (_VALID, _recs('columns')),
        # matrix type and element type are from the vocabulary,
        "implies(%s, is_jstr(%s['matrix_type']) and (jstr(%s['matrix_type']) == 'sparse' or jstr(%s['matrix_type']) == 'dense'))"
        % (_VALID, TJ, TJ, TJ),
        "implies(%s, is_jstr(%s['matrix_element_type']) and jstr(%s['matrix_element_type']) in ('int', 'str', 'float', 'unicode'))"
        % (_VALID, TJ, TJ),
        # every sparse coordinate lies inside the shape and every element has the declared type
        "implies(%s and jstr(%s['matrix_type']) == 'sparse', %s)" % (_VALID, TJ, SPARSE_OK.format(t=TJ)),
        "implies(%s and jstr(%s['matrix_type']) == 'dense', %s)" % (_VALID, TJ, DENSE_OK.format(t=TJ)),
    ],
    raises=ANY_EXC, modifies=['self._format_version'],
    loops={0: dict(header="for key, method in required_keys", invariant=_VJ_INV)})


# ---- the HDF5 half, attribute level ---------------------------------------------------------------------------
# An open HDF5 table is modelled as an object whose `attrs` mapping holds JSON-like values (numbers, text, sequences;
# h5py hands byte strings and numpy scalars / arrays out - a byte string is modelled as the text it decodes to).  Datasets
# and groups are not modelled: _validate_hdf5, _valid_hdf5_axis and the metadata checks stay bounded.
ASSUMED['h5-attrs'] = ('an open HDF5 table is modelled as an object whose `attrs` mapping holds JSON-like values (integers, '
                       'text, sequences); byte-string attributes are modelled as the text they decode to; groups and '
                       'datasets are not modelled')


def _vw_make_input_h5(self, eng, st, name, ty):
    if ty == 'H5':
        self.used.add('h5-attrs')
        a = VJson(fresh(name + '_attrs', J))
        st.assume(a.is_('obj'))
        return st.alloc(Obj('H5', {'attrs': a}))
    return _prev_make_input_h5(self, eng, st, name, ty)


_prev_make_input_h5 = ValidatorWorld.make_input
ValidatorWorld.make_input = _vw_make_input_h5


def _vw_method_h5(self, eng, st, recv, name, args, kwargs, node, starv=None, dstar=None):
    if name == 'replace' and recv.kind == 'str' and len(args) == 2 and all(a.kind == 'str' for a in args):
        texts = [smt.lit_text(z3.simplify(x.term)) for x in [recv] + list(args)]
        if all(t is not None for t in texts):
            return [Result(st, VStr(texts[0].replace(texts[1], texts[2])))]     # literal strings: computed
    return _prev_method_h5(self, eng, st, recv, name, args, kwargs, node, starv, dstar)


_prev_method_h5 = ValidatorWorld.call_method
ValidatorWorld.call_method = _vw_method_h5

A = "table.attrs"
contract(F, 'TableValidator._valid_nnz', tier='A', props=['C15'],
    types={'self': 'Obj:TableValidator', 'table': 'H5'}, returns='Str',
    ensures=["implies(result == '', jhas(%s, 'nnz') and is_jint(%s['nnz']) and jint(%s['nnz']) >= 0)" % (A, A, A),
             # ... and every non-negative integer passes (zero is the nnz of an all-zero table)
             "implies(is_jint(%s['nnz']) and jint(%s['nnz']) >= 0, result == '')" % (A, A)],
    raises=ANY_EXC, modifies=[])

contract(F, 'TableValidator._valid_shape', variant='hdf5', tier='A', props=['C15'],
    types={'self': 'Obj:TableValidator', 'table': 'H5'}, returns='Str',
    ensures=["implies(result == '', jhas(%s, 'shape') and is_jlist(%s['shape']) and jlen(%s['shape']) == 2 "
             "        and is_jint(%s['shape'][0]) and is_jint(%s['shape'][1]))" % (A, A, A, A, A)],
    raises=ANY_EXC, modifies=[])

contract(F, 'TableValidator._valid_format_url', variant='hdf5', tier='A', props=['C15'],
    types={'self': 'Obj:TableValidator', 'table': 'H5'}, returns='Str',
    ensures=["implies(result == '', jhas(%s, 'format-url') and is_jstr(%s['format-url']) "
             "        and jstr(%s['format-url']) == 'http://biom-format.org')" % (A, A, A)], raises=ANY_EXC, modifies=[])

contract(F, 'TableValidator._valid_generated_by', variant='hdf5', tier='A', props=['C15'],
    types={'self': 'Obj:TableValidator', 'table': 'H5'}, returns='Str',
    ensures=["implies(result == '', jhas(%s, 'generated-by') and not is_jnull(%s['generated-by']))" % (A, A)],
    raises=ANY_EXC, modifies=[])

contract(F, 'TableValidator._valid_type', variant='hdf5', tier='A', props=['C15'],
    types={'self': 'Obj:TableValidator', 'table': 'H5'}, returns='Str',
    ensures=["implies(result == '', jhas(%s, 'type') and is_jstr(%s['type']) and len(jstr(%s['type'])) > 0)" % (A, A, A)],
    raises=ANY_EXC, modifies=[])

contract(F, 'TableValidator._valid_creation_date', tier='A', props=['C15'],
    types={'self': 'Obj:TableValidator', 'table': 'H5'}, returns='Str',
    ensures=[], internal=["ccount('TableValidator._valid_date') == 1"], raises=ANY_EXC, modifies=[])


# ---- the HDF5 half, datasets: _valid_hdf5_axis --------------------------------------------------------------------
# A dataset is named by its path; paths built with '%'-formatting from a literal template are the canonical terms
# h5fmt1(template, a) / h5fmt2(template, a, b), so that code and contract name the same dataset.  What the file holds at
# a path is given by uninterpreted functions of (file, path): presence, length, dtype kind, text elements, integer elements.
ASSUMED['h5-datasets'] = (
    'h5py: table.get(path, None) is None or the dataset at that path; len(ds) >= 0; ds.dtype.kind is a single letter (so '
    '`kind in "OSU"` means kind is one of O, S, U); ds[:] is the array of its elements - read as text for a path ending in '
    '/ids, as integers otherwise (the code inspects dtype.kind before it uses them as such); ndarray.min() / max() of a '
    'non-empty integer array is an element that bounds all others; set(list) has as many elements as the list exactly when '
    'no element repeats')
h5_has = z3.Function('h5_has', I, Str, B)
h5_len = z3.Function('h5_len', I, Str, I)
h5_kind = z3.Function('h5_kind', I, Str, Str)
h5_text = z3.Function('h5_text', I, Str, z3.ArraySort(I, Str))
h5_ints = z3.Function('h5_ints', I, Str, z3.ArraySort(I, I))
h5fmt1 = z3.Function('h5fmt1', Str, Str, Str)
h5fmt2 = z3.Function('h5fmt2', Str, Str, Str, Str)


def _h5_path(v):
    """canonical path term of a string value, and its literal template (None when it is not a formatted string)"""
    tpl = getattr(v, 'fmt_template', None)
    if tpl is None:
        return v.term, smt.lit_text(z3.simplify(v.term))
    a = getattr(v, 'fmt_args')
    if a.kind == 'str':
        return h5fmt1(smt.str_lit(tpl), a.term), tpl
    if a.kind == 'tuple' and len(a.items) == 2 and all(x.kind == 'str' for x in a.items):
        return h5fmt2(smt.str_lit(tpl), a.items[0].term, a.items[1].term), tpl
    raise EngineError('HDF5 path built from %s' % a.kind)


class VKind(SV):
    """dtype.kind: a one-letter string"""
    kind = 'str'

    def __init__(self, term):
        self.term = term

    def sv_member_of(self, eng, st, cont):
        txt = smt.lit_text(z3.simplify(cont.term)) if cont.kind == 'str' else None
        if txt is None:
            return None
        return z3.Or([self.term == smt.str_lit(c) for c in txt] or [z3.BoolVal(False)])


class VH5Dtype(SV):
    kind = 'h5dtype'

    def __init__(self, ds):
        self.ds = ds

    def sv_getattr(self, eng, st, attr):
        if attr == 'kind':
            return VKind(h5_kind(self.ds.tid, self.ds.path))
        raise EngineError('dtype attribute %s' % attr)


class VH5DS(SV):
    kind = 'h5ds'

    def __init__(self, tid, path, tpl):
        self.tid, self.path, self.tpl = tid, path, tpl

    def sv_len(self, eng, st):
        return VInt(h5_len(self.tid, self.path))

    def sv_getattr(self, eng, st, attr):
        if attr == 'dtype':
            return VH5Dtype(self)
        raise EngineError('dataset attribute %s' % attr)

    def sv_slice(self, eng, st, lo, hi, node, reverse):
        if lo is None and hi is None and not reverse:
            st = st.copy()
            if self.tpl is not None and self.tpl.endswith('/ids'):
                return [Result(st, st.alloc(Arr('str', h5_text(self.tid, self.path), h5_len(self.tid, self.path), 'ndarray')))]
            return [Result(st, st.alloc(Arr('int', h5_ints(self.tid, self.path), h5_len(self.tid, self.path), 'ndarray')))]
        raise EngineError('%s:%d: dataset index other than [:]' % (eng.rel, node.lineno))


def _vw_make_input_h5ds(self, eng, st, name, ty):
    v = _prev_make_input_h5ds(self, eng, st, name, ty)
    if ty == 'H5':
        n = st.node(v)
        st.setnode(v, n.replace(tid=VInt(fresh(name + '_file', I))))
    return v


_prev_make_input_h5ds = ValidatorWorld.make_input
ValidatorWorld.make_input = _vw_make_input_h5ds


def _vw_obj_method_h5(self, eng, st, recv, n, name, args, kwargs, node, starv=None, dstar=None):
    if n.cls == 'H5' and name == 'get' and len(args) == 2 and args[0].kind == 'str':
        self.used.add('h5-datasets')
        tid = n.fields['tid'].term
        path, tpl = _h5_path(args[0])
        st = st.copy()
        st.assume(h5_len(tid, path) >= 0)
        yes, no = eng.fork(st, h5_has(tid, path))
        return [Result(s, VH5DS(tid, path, tpl)) for s in yes] + [Result(s, args[1]) for s in no]
    return _prev_obj_method_h5(self, eng, st, recv, n, name, args, kwargs, node, starv, dstar)


_prev_obj_method_h5 = ValidatorWorld.obj_method
ValidatorWorld.obj_method = _vw_obj_method_h5


def _vw_arr_method_h5(self, eng, st, recv, n, name, args, kwargs, node):
    if name in ('min', 'max') and not args and not kwargs and n.elem == 'int':
        out = []
        yes, no = eng.fork(st, n.n > 0)
        for s in no:
            out.append(eng.exc(s, 'ValueError'))
        for s in yes:
            s = s.copy()
            m, w, k = fresh(name, I), fresh('argm', I), fresh('k', I)
            s.assume(0 <= w, w < n.n, n.a[w] == m,
                     z3.ForAll([k], z3.Implies(z3.And(0 <= k, k < n.n), (n.a[k] <= m) if name == 'max' else (n.a[k] >= m)),
                               patterns=[n.a[k]]))
            out.append(Result(s, VInt(m)))
        return out
    return _prev_arr_method_h5(self, eng, st, recv, n, name, args, kwargs, node)


_prev_arr_method_h5 = ValidatorWorld.arr_method
ValidatorWorld.arr_method = _vw_arr_method_h5


def _vw_spec_h5(self, eng, st, n, e, bound):
    if n in ('h5has', 'h5len', 'h5kind', 'h5text', 'h5int'):
        t = eng.sev(e.args[0], st, bound)
        tid = st.node(t).fields['tid'].term
        path, _ = _h5_path(eng.sev(e.args[1], st, bound))
        if n == 'h5has':
            return VBool(h5_has(tid, path))
        if n == 'h5len':
            return VInt(h5_len(tid, path))
        if n == 'h5kind':
            return VStr(h5_kind(tid, path))
        k = to_int(eng.sev(e.args[2], st, bound))
        return VStr(h5_text(tid, path)[k]) if n == 'h5text' else VInt(h5_ints(tid, path)[k])
    return _prev_spec_h5(self, eng, st, n, e, bound)


_prev_spec_h5 = ValidatorWorld.spec_call
ValidatorWorld.spec_call = _vw_spec_h5

_IDS = "'%s/ids' % axis"
_OIDS = "'%s/ids' % other"
_DATA = "'%s/matrix/data' % axis"
_IND = "'%s/matrix/%s' % (axis, 'indices')"
_PTR = "'%s/matrix/%s' % (axis, 'indptr')"
_IND1 = "'%s/matrix/indices' % axis"


def _kin(p, letters):
    return '(' + ' or '.join("h5kind(table, %s) == '%s'" % (p, c) for c in letters) + ')'


contract(F, 'TableValidator._valid_hdf5_axis', tier='A', props=['C15'],
    types={'self': 'Obj:TableValidator', 'table': 'H5', 'axis': 'Str', 'other': 'Str'},
    returns='Opt[Str]',
    ensures=[
        # no complaint only if the ids of the axis (when there are any) are text, none of them is empty and none occurs twice,
        "implies(isnone(result) and h5has(table, %s) and h5len(table, %s) > 0, %s "
        "        and all(len(h5text(table, %s, k)) > 0 for k in range(h5len(table, %s))) "
        "        and all(implies(p < q, h5text(table, %s, p) != h5text(table, %s, q)) "
        "                for p in range(h5len(table, %s)) for q in range(h5len(table, %s))))"
        % (_IDS, _IDS, _kin(_IDS, 'OSU'), _IDS, _IDS, _IDS, _IDS, _IDS, _IDS),
        # the stored values are numeric, indices and indptr are integers,
        "implies(isnone(result) and h5has(table, %s), %s)" % (_DATA, _kin(_DATA, 'fiu')),
        "implies(isnone(result) and h5has(table, %s), %s)" % (_IND, _kin(_IND, 'iu')),
        "implies(isnone(result) and h5has(table, %s), %s)" % (_PTR, _kin(_PTR, 'iu')),
        # and every stored index names an id of the other axis
        "implies(isnone(result) and h5has(table, %s) and h5has(table, %s), "
        "        all(0 <= h5int(table, %s, k) and h5int(table, %s, k) < h5len(table, %s) for k in range(h5len(table, %s))))"
        % (_IND1, _OIDS, _IND1, _IND1, _OIDS, _IND1),
    ],
    raises=ANY_EXC, modifies=[])


def _vw_has_method_h5(self, cls, name):
    return (cls == 'H5' and name == 'get') or _prev_has_method_h5(self, cls, name)


_prev_has_method_h5 = ValidatorWorld.has_method
ValidatorWorld.has_method = _vw_has_method_h5
