"""Contract for biom/_transform.pyx::_transform (C13; carried into C07)."""
from pyvc.prove import contract

F = 'biom/_transform.pyx'
OI = "old(arr.indptr)"
contract(F, '_transform', tier='P', props=['C13', 'C07'],
    types={'arr': 'CS', 'ids': 'Arr[Str]', 'metadata': 'Opt[Tup[Val]]',
           'function': 'Callback[Arr[Real],Str,Val]->Arr[Real]=len0', 'axis': 'Int'},
    requires=[
        "0 <= axis and axis <= 1",
        "arr.shape[0] >= 0 and arr.shape[1] >= 0",
        # the layout matches the axis: one slice per vector of `axis`
        "len(arr.indptr) == arr.shape[axis] + 1",
        "len(ids) >= arr.shape[axis]",
        "isnone(metadata) or len(metadata) >= arr.shape[axis]",
        "all(arr.indptr[a] <= arr.indptr[b] for a in range(0, arr.shape[axis] + 1) for b in range(a, arr.shape[axis] + 1))",
        "arr.indptr[0] >= 0 and arr.indptr[arr.shape[axis]] <= len(arr.data)",
    ],
    ensures=[
        "ncalls(function) == arr.shape[axis]",
        # f receives exactly the stored values of vector k as they were at entry, with its id and metadata
        "all(len(callarg(function, k, 0)) == %s[k + 1] - %s[k] for k in range(arr.shape[axis]))" % (OI, OI),
        "all(callarg(function, k, 0)[t] == old(arr.data)[%s[k] + t]"
        "    for k in range(arr.shape[axis]) for t in range(%s[k + 1] - %s[k]))" % (OI, OI, OI),
        "all(callarg(function, k, 1) == ids[k] for k in range(arr.shape[axis]))",
        "all(callarg(function, k, 2) == (val(None) if isnone(old(metadata)) else old(metadata)[k]) for k in range(arr.shape[axis]))",
        # the returned values are written back to the same positions
        "all(implies(%s[k] <= p and p < %s[k + 1], arr.data[p] == callret(function, k)[p - %s[k]])"
        "    for k in range(arr.shape[axis]) for p in ints() if trig(arr.indptr[k], arr.data[p]))" % (OI, OI, OI),
        # nothing else in data changes, its length included
        "len(arr.data) == len(old(arr.data))",
        "all(implies(p < %s[0] or p >= %s[arr.shape[axis]], arr.data[p] == old(arr.data)[p]) for p in ints())" % (OI, OI),
    ],
    modifies=['arr.data[*]'],
    loops={
        0: dict(header='for row_or_col in range(n)', invariant=[
            "ncalls(function) == row_or_col and n == arr.shape[axis] and len(data) == len(old(arr.data))",
            "all(len(callarg(function, k, 0)) == %s[k + 1] - %s[k] for k in range(0, row_or_col))" % (OI, OI),
            "all(callarg(function, k, 0)[t] == old(arr.data)[%s[k] + t]"
            "    for k in range(0, row_or_col) for t in range(%s[k + 1] - %s[k]))" % (OI, OI, OI),
            "all(callarg(function, k, 1) == ids[k] for k in range(0, row_or_col))",
            "all(callarg(function, k, 2) == (val(None) if isnone(old(metadata)) else old(metadata)[k]) for k in range(0, row_or_col))",
            "all(implies(%s[k] <= p and p < %s[k + 1], data[p] == callret(function, k)[p - %s[k]])"
            "    for k in range(0, row_or_col) for p in ints() if trig(arr.indptr[k], data[p]))" % (OI, OI, OI),
            "all(implies(p < %s[0] or p >= %s[row_or_col], data[p] == old(arr.data)[p]) for p in ints())" % (OI, OI),
        ]),
    })
