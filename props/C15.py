"""C15 - the validator accepts what the library writes and rejects structural corruption.

Bounded part (this file).  Contract of `biom validate-table` (run as the real click command through
click.testing.CliRunner; "reports valid" = exit status 0), evaluated on real files:

  completeness   file = to_json(T) | to_hdf5(T), type(T) in the controlled vocabulary   ==> reports valid
  soundness      reports valid  ==>  Phi(file)        Phi = no required field/attribute/group/dataset missing,
                 declared shape = numbers of IDs, every sparse coordinate a well-formed integer position inside
                 the shape, elements of the declared type, IDs non-empty and pairwise distinct per axis,
                 metadata an object (JSON) / a group (HDF5) or null
                 - evaluated on every single (quick) and double (thorough) mutation of written files from the
                 mutation grammar of the property's quantifier; a crash of the validator counts as "not valid"
  accepted-loads reports valid and Phi and numeric element type (JSON)  ==>  load_table(file) succeeds and
                 yields the declared shape, IDs and values

Phi is computed by this module from the raw file (json module / raw h5py) - never by biom code.  Phi is
deliberately lenient where the statement is silent (e.g. an integer literal is accepted as a float element,
corrupt date/format/url/type/nnz carry no obligation): those mutations only take part as the second half of
double mutations, where they must not mask a structural corruption.
"""
import io
import itertools
import json
import os

import numpy as np

from pyvc import rt
from props import text_util as tu

LEVEL = 'other'

# ----------------------------------------------------------------------------------------------
# running the validator
# ----------------------------------------------------------------------------------------------


def validate(path):
    """(reported_valid, output, exception-or-None) of `biom validate-table -i path`"""
    from click.testing import CliRunner
    from biom.cli.table_validator import validate_table
    res = CliRunner().invoke(validate_table, ['-i', path])
    out = res.output or ''
    exc = res.exception if not isinstance(res.exception, SystemExit) else None
    said_valid = res.exit_code == 0 and 'is a valid BIOM-formatted file' in out
    return said_valid, out.strip()[-300:], exc


# ----------------------------------------------------------------------------------------------
# JSON: Phi and the mutation grammar
# ----------------------------------------------------------------------------------------------

JSON_KEYS = ['id', 'format', 'format_url', 'type', 'generated_by', 'date', 'rows', 'columns', 'matrix_type',
             'matrix_element_type', 'shape', 'data']
ELEMENT_TYPES = ('int', 'float', 'str', 'unicode')


def _is_int(x):
    return isinstance(x, int) and not isinstance(x, bool)


def _elem_ok(v, et):
    if et == 'int':
        return _is_int(v)
    if et == 'float':
        return isinstance(v, (int, float)) and not isinstance(v, bool)
    return isinstance(v, str)


def phi_json(doc):
    """(set of violated Phi clauses, data_determinate)"""
    bad = set()
    if not isinstance(doc, dict):
        return {'not-an-object'}, False
    for k in JSON_KEYS:
        if k not in doc:
            bad.add('missing-field')
    counts = {}
    for name in ('rows', 'columns'):
        recs = doc.get(name)
        if name not in doc:
            continue
        if not isinstance(recs, list):
            bad.add('missing-field')
            continue
        counts[name] = len(recs)
        ids = []
        for r in recs:
            if not isinstance(r, dict) or 'id' not in r or 'metadata' not in r:
                bad.add('missing-field')
                continue
            if not (isinstance(r['id'], str) and r['id'] != ''):
                bad.add('blank-id')
            else:
                ids.append(r['id'])
            if not (r['metadata'] is None or isinstance(r['metadata'], dict)):
                bad.add('metadata-not-object')
        if len(set(ids)) != len(ids):
            bad.add('duplicate-ids')
    shape_ok = False
    if 'shape' in doc:
        sh = doc['shape']
        if not (isinstance(sh, list) and len(sh) == 2 and _is_int(sh[0]) and _is_int(sh[1])):
            bad.add('shape-mismatch')
        else:
            shape_ok = True
            if ('rows' in counts and counts['rows'] != sh[0]) or ('columns' in counts and counts['columns'] != sh[1]):
                bad.add('shape-mismatch')
    determinate = False
    mt, et = doc.get('matrix_type'), doc.get('matrix_element_type')
    if shape_ok and 'data' in doc and mt in ('sparse', 'dense') and et in ELEMENT_TYPES:
        determinate = True
        m, n = doc['shape']
        data = doc['data']
        if not isinstance(data, list):
            bad.add('malformed-coordinate')
        elif mt == 'sparse':
            for e in data:
                if not (isinstance(e, list) and len(e) == 3):
                    bad.add('malformed-coordinate')
                    continue
                x, y, v = e
                if not (_is_int(x) and _is_int(y)):
                    bad.add('mistyped-coordinate')
                elif not (0 <= x < m and 0 <= y < n):
                    bad.add('coordinate-out-of-range')
                if not _elem_ok(v, et):
                    bad.add('wrong-element-type')
        else:
            if len(data) != m or any(not isinstance(r, list) or len(r) != n for r in data):
                bad.add('shape-mismatch')
            if any(not _elem_ok(v, et) for r in data if isinstance(r, list) for v in r):
                bad.add('wrong-element-type')
    return bad, determinate


def json_mutations(doc):
    """single mutations applicable to a written document (descriptors are JSON-able lists)"""
    muts = []
    for k in JSON_KEYS:
        muts.append(['del', k])
        muts.append(['rename', k])
    m, n = len(doc['rows']), len(doc['columns'])
    for ax, cnt in (('rows', m), ('columns', n)):
        for idx in sorted({0, cnt - 1}):
            muts.append(['del-record-field', ax, idx, 'id'])
            muts.append(['del-record-field', ax, idx, 'metadata'])
            muts.append(['blank-id', ax, idx, ''])
            muts.append(['blank-id', ax, idx, None])
            for kind in ('list', 'list1', 'string', 'emptystring', 'number', 'zero', 'true'):
                if idx == 0 or kind in ('list', 'string'):
                    muts.append(['md', ax, idx, kind])
        if cnt >= 2:
            muts.append(['dup-id', ax, 0, cnt - 1])
            muts.append(['dup-id', ax, cnt - 1, 0])
    for op in ('rows+1', 'rows-1', 'cols+1', 'cols-1', 'swap', 'three', 'one', 'floats', 'strings', 'null', 'zero'):
        if op == 'swap' and m == n:
            continue
        muts.append(['shape', op])
    for kind in ('row-out', 'col-out', 'neg-row', 'neg-col', 'far-out', 'str-row', 'float-col', 'bool-row', 'null-col',
                 'str-value', 'null-value', 'list-value', 'short', 'long', 'scalar', 'nested', 'dict', 'empty'):
        muts.append(['coord', kind, 'append'])
    muts.append(['coord', 'row-out', 'prepend'])
    muts.append(['coord', 'short', 'prepend'])
    muts.append(['data', 'null'])
    for v in ('dense', 'bogus', 'Sparse', 'dense-consistent'):
        muts.append(['matrix-type', v])
    for v in ('int', 'str', 'unicode', 'bogus', 'int-consistent'):
        muts.append(['element-type', v])
    for v in ('garbage', 'empty', 'number', 'date-only'):
        muts.append(['date', v])
    for v in ('garbage', 'short'):
        muts.append(['format', v])
    muts.append(['url', 'garbage'])
    for v in ('bogus', 'null', 'lower'):
        muts.append(['type', v])
    return muts


def mutate_json(doc, mut):
    """apply in place; False when the mutation does not apply to this document"""
    op = mut[0]
    try:
        if op == 'del':
            if mut[1] not in doc:
                return False
            del doc[mut[1]]
        elif op == 'rename':
            if mut[1] not in doc:
                return False
            doc[mut[1] + '_x'] = doc.pop(mut[1])
        elif op == 'del-record-field':
            rec = doc[mut[1]][mut[2]]
            if mut[3] not in rec:
                return False
            del rec[mut[3]]
        elif op == 'blank-id':
            doc[mut[1]][mut[2]]['id'] = mut[3]
        elif op == 'md':
            doc[mut[1]][mut[2]]['metadata'] = {'list': [], 'list1': ['a'], 'string': 'x', 'emptystring': '',
                                               'number': 3, 'zero': 0, 'true': True}[mut[3]]
        elif op == 'dup-id':
            recs = doc[mut[1]]
            if recs[mut[3]].get('id') == recs[mut[2]]['id']:
                return False
            recs[mut[3]]['id'] = recs[mut[2]]['id']
        elif op == 'shape':
            m, n = doc['shape'][0], doc['shape'][1]
            doc['shape'] = {'rows+1': [m + 1, n], 'rows-1': [m - 1, n], 'cols+1': [m, n + 1], 'cols-1': [m, n - 1],
                            'swap': [n, m], 'three': [m, n, 1], 'one': [m], 'floats': [m + 0.5, float(n)],
                            'strings': [str(m), str(n)], 'null': None, 'zero': [0, 0]}[mut[1]]
        elif op == 'coord':
            m, n = len(doc['rows']), len(doc['columns'])
            if doc.get('matrix_type') != 'sparse' or not isinstance(doc.get('data'), list):
                return False
            v = 1.5
            e = {'row-out': [m, 0, v], 'col-out': [0, n, v], 'neg-row': [-1, 0, v], 'neg-col': [0, -1, v],
                 'far-out': [10 ** 6, 10 ** 6, v], 'str-row': ['0', 0, v], 'float-col': [0, 0.5, v],
                 'bool-row': [True, 0, v], 'null-col': [0, None, v], 'str-value': [0, 0, 'x'],
                 'null-value': [0, 0, None], 'list-value': [0, 0, [v]], 'short': [0, 0], 'long': [0, 0, v, v],
                 'scalar': 5, 'nested': [[0, 0, v]], 'dict': {'r': 0, 'c': 0, 'v': v}, 'empty': []}[mut[1]]
            if mut[2] == 'append':
                doc['data'].append(e)
            else:
                doc['data'].insert(0, e)
        elif op == 'data':
            doc['data'] = None
        elif op == 'matrix-type':
            if mut[1] == 'dense-consistent':
                if doc.get('matrix_type') != 'sparse':
                    return False
                m, n = doc['shape']
                A = [[0.0] * n for _ in range(m)]
                for r, c, v in doc['data']:
                    A[r][c] = float(v)
                doc['data'] = A
                doc['matrix_type'] = 'dense'
            else:
                doc['matrix_type'] = mut[1]
        elif op == 'element-type':
            if mut[1] == 'int-consistent':
                if doc.get('matrix_type') != 'sparse' or any(float(e[2]) != int(e[2]) for e in doc['data']):
                    return False
                doc['data'] = [[e[0], e[1], int(e[2])] for e in doc['data']]
                doc['matrix_element_type'] = 'int'
            else:
                doc['matrix_element_type'] = mut[1]
        elif op == 'date':
            doc['date'] = {'garbage': 'yesterday', 'empty': '', 'number': 20210304, 'date-only': '2021-03-04'}[mut[1]]
        elif op == 'format':
            doc['format'] = {'garbage': 'Biological Observation Matrix 9.9', 'short': '1.0.0'}[mut[1]]
        elif op == 'url':
            doc['format_url'] = 'http://example.org'
        elif op == 'type':
            doc['type'] = {'bogus': 'Bogus table', 'null': None, 'lower': str(doc.get('type')).lower()}[mut[1]]
        else:
            raise ValueError(mut)
    except (KeyError, IndexError, TypeError, AttributeError, ValueError):
        return False
    return True


def dense_of_doc(doc):
    m, n = doc['shape']
    if doc['matrix_type'] == 'dense':
        return np.array(doc['data'], dtype=float).reshape(m, n)
    A = np.zeros((m, n))
    for r, c, v in doc['data']:
        A[r, c] += v
    return A


# ----------------------------------------------------------------------------------------------
# HDF5: Phi and the mutation grammar
# ----------------------------------------------------------------------------------------------

H5_ATTRS = ['id', 'type', 'format-url', 'format-version', 'generated-by', 'creation-date', 'shape', 'nnz']
H5_GROUPS = ['observation', 'observation/matrix', 'sample', 'sample/matrix']
H5_MD_GROUPS = ['observation/metadata', 'observation/group-metadata', 'sample/metadata', 'sample/group-metadata']
H5_DATASETS = ['observation/ids', 'observation/matrix/data', 'observation/matrix/indices', 'observation/matrix/indptr',
               'sample/ids', 'sample/matrix/data', 'sample/matrix/indices', 'sample/matrix/indptr']


def phi_h5(path):
    import h5py
    bad = set()
    with h5py.File(path, 'r') as f:
        for a in H5_ATTRS:
            if a not in f.attrs:
                bad.add('missing-attribute')
        for g in H5_GROUPS:
            if g not in f or not isinstance(f[g], h5py.Group):
                bad.add('missing-group')
        for g in H5_MD_GROUPS:
            if g not in f:
                bad.add('missing-metadata-group')
            elif not isinstance(f[g], h5py.Group):
                bad.add('metadata-not-a-group')
        for d in H5_DATASETS:
            if d not in f or not isinstance(f[d], h5py.Dataset):
                bad.add('missing-dataset')
        nids = {}
        for ax in ('observation', 'sample'):
            d = ax + '/ids'
            if d in f and isinstance(f[d], h5py.Dataset):
                arr = f[d][:]
                nids[ax] = len(arr)
                if len(arr):
                    if arr.dtype.kind not in 'OSU':
                        bad.add('wrong-element-type')
                    else:
                        ids = [x.decode('utf8') if isinstance(x, bytes) else str(x) for x in arr]
                        if any(i == '' for i in ids):
                            bad.add('blank-id')
                        if len(set(ids)) != len(ids):
                            bad.add('duplicate-ids')
        if 'shape' in f.attrs:
            sh = np.asarray(f.attrs['shape'])
            if sh.shape != (2,) or sh.dtype.kind not in 'iu':
                bad.add('shape-mismatch')
            elif ('observation' in nids and nids['observation'] != sh[0]) or ('sample' in nids and nids['sample'] != sh[1]):
                bad.add('shape-mismatch')
        for ax, other in (('observation', 'sample'), ('sample', 'observation')):
            g = ax + '/matrix/'
            for name, kinds in (('data', 'fiu'), ('indices', 'iu'), ('indptr', 'iu')):
                if g + name in f and isinstance(f[g + name], h5py.Dataset):
                    ds = f[g + name]
                    if ds.dtype.kind not in kinds:
                        bad.add('wrong-element-type')
                    elif name == 'indices' and other in nids and len(ds):
                        ix = ds[:]
                        if ix.min() < 0 or ix.max() >= nids[other]:
                            bad.add('index-out-of-range')
    return bad


def h5_mutations(m, n, nnz):
    muts = []
    for a in H5_ATTRS:
        muts.append(['del-attr', a])
        muts.append(['rename-attr', a])
    for p in H5_GROUPS + H5_MD_GROUPS + H5_DATASETS:
        muts.append(['del', p])
        muts.append(['rename', p])
    for op in ('rows+1', 'rows-1', 'cols+1', 'swap', 'three', 'floats'):
        if op == 'swap' and m == n:
            continue
        muts.append(['shape', op])
    for ax in ('observation', 'sample'):
        cnt = m if ax == 'observation' else n
        if nnz:
            for kind in ('out', 'neg', 'far'):
                muts.append(['index', ax, kind])
        muts.append(['index-append', ax])
        muts.append(['retype', ax, 'data-str'])
        muts.append(['retype', ax, 'indices-float'])
        muts.append(['retype', ax, 'indptr-float'])
        muts.append(['retype', ax, 'ids-float'])
        muts.append(['blank-id', ax, 0])
        muts.append(['blank-id', ax, cnt - 1])
        if cnt >= 2:
            muts.append(['dup-id', ax])
        muts.append(['md-dataset', ax])
    for name, kind in (('creation-date', 'garbage'), ('format-url', 'garbage'), ('format-version', '9.9'),
                       ('format-version', '2.0'), ('type', 'bogus'), ('nnz', 'negative'), ('generated-by', 'empty')):
        muts.append(['attr', name, kind])
    return muts


def mutate_h5(path, mut):
    import h5py
    op = mut[0]
    with h5py.File(path, 'r+') as f:
        try:
            if op == 'del-attr':
                if mut[1] not in f.attrs:
                    return False
                del f.attrs[mut[1]]
            elif op == 'rename-attr':
                if mut[1] not in f.attrs:
                    return False
                f.attrs[mut[1] + '_x'] = f.attrs[mut[1]]
                del f.attrs[mut[1]]
            elif op == 'del':
                if mut[1] not in f:
                    return False
                del f[mut[1]]
            elif op == 'rename':
                if mut[1] not in f:
                    return False
                f.move(mut[1], mut[1] + '_x')
            elif op == 'shape':
                m, n = [int(x) for x in f.attrs['shape']]
                f.attrs['shape'] = {'rows+1': [m + 1, n], 'rows-1': [m - 1, n], 'cols+1': [m, n + 1], 'swap': [n, m],
                                    'three': [m, n, 1], 'floats': [m + 0.5, float(n)]}[mut[1]]
            elif op == 'index':
                ds = f[mut[1] + '/matrix/indices']
                other = 'sample' if mut[1] == 'observation' else 'observation'
                if not len(ds) or ds.dtype.kind not in 'iu':
                    return False
                minor = len(f[other + '/ids'])
                arr = ds[:]
                arr[len(arr) // 2] = {'out': minor, 'neg': -1, 'far': 10 ** 6}[mut[2]]
                ds[...] = arr
            elif op == 'index-append':
                g = f[mut[1] + '/matrix']
                other = 'sample' if mut[1] == 'observation' else 'observation'
                minor = len(f[other + '/ids'])
                data, idx, ptr = g['data'][:], g['indices'][:], g['indptr'][:]
                if data.dtype.kind not in 'fiu' or idx.dtype.kind not in 'iu' or ptr.dtype.kind not in 'iu':
                    return False
                for name in ('data', 'indices', 'indptr'):
                    del g[name]
                ptr[-1] += 1
                g.create_dataset('data', data=np.append(data, 1.5))
                g.create_dataset('indices', data=np.append(idx, minor).astype(np.int32))
                g.create_dataset('indptr', data=ptr)
            elif op == 'retype':
                ax, kind = mut[1], mut[2]
                if kind == 'ids-float':
                    p = ax + '/ids'
                    k = len(f[p])
                    del f[p]
                    f.create_dataset(p, data=np.arange(k, dtype=float) + 0.5)
                else:
                    name = kind.split('-')[0]
                    p = ax + '/matrix/' + name
                    arr = f[p][:]
                    del f[p]
                    if name == 'data':
                        f.create_dataset(p, shape=(len(arr),), dtype=h5py.string_dtype(),
                                         data=[('v%d' % k).encode() for k in range(len(arr))])
                    else:
                        f.create_dataset(p, data=arr.astype(float))
            elif op in ('blank-id', 'dup-id'):
                p = mut[1] + '/ids'
                arr = f[p][:]
                if arr.dtype.kind not in 'OSU' or not len(arr):
                    return False
                ids = [x if isinstance(x, bytes) else str(x).encode('utf8') for x in arr]
                if op == 'blank-id':
                    if ids[mut[2]] == b'':
                        return False
                    ids[mut[2]] = b''
                else:
                    if len(ids) < 2 or ids[-1] == ids[0]:
                        return False
                    ids[-1] = ids[0]
                del f[p]
                f.create_dataset(p, shape=(len(ids),), dtype=h5py.string_dtype(), data=ids)
            elif op == 'md-dataset':
                p = mut[1] + '/metadata'
                if p in f:
                    del f[p]
                f.create_dataset(p, data=np.arange(len(f[mut[1] + '/ids']), dtype=float))
            elif op == 'attr':
                name, kind = mut[1], mut[2]
                if name not in f.attrs:
                    return False
                f.attrs[name] = {'garbage': 'yesterday', '9.9': [9, 9], '2.0': [2, 0], 'bogus': 'Bogus table',
                                 'negative': -1, 'empty': ''}[kind]
            else:
                raise ValueError(mut)
        except (KeyError, IndexError, TypeError, AttributeError, ValueError):
            return False
    return True


# ----------------------------------------------------------------------------------------------
# one case
# ----------------------------------------------------------------------------------------------

def _write_base(case, d):
    """write the table of the case with the library writer; returns (path, doc-or-None) or None when the
    writer itself fails / emits something unparseable (C01/C02 territory, except for the completeness clause)"""
    import h5py
    t = tu.build(case)
    gen = tu.header_of(case)[2]
    if case['fmt'] == 'json':
        path = os.path.join(d, 'base.biom')
        text = t.to_json(gen)
        with io.open(path, 'w', encoding='utf-8') as fh:
            fh.write(text)
        return path, text, t.type
    path = os.path.join(d, 'base.h5.biom')
    with h5py.File(path, 'w') as f:
        t.to_hdf5(f, gen, compress=bool(case.get('compress', False)))
    return path, None, t.type


def _core(case):
    import biom
    fmt = case['fmt']
    muts = case.get('muts') or []
    cls = tu.wclass(case, fmt)
    fails = []
    n = 0
    with tu.tmpdir() as d:
        try:
            path, text, typ = _write_base(case, d)
        except Exception:
            return [], 0, False                      # the writer failed: not this property's subject
        doc = None
        if fmt == 'json':
            try:
                doc = json.loads(text)
            except ValueError:
                doc = None
        applied = []
        if muts:
            if fmt == 'json':
                if doc is None:
                    return [], 0, False
                for mu in muts:
                    if mutate_json(doc, mu):
                        applied.append(mu)
                with io.open(path, 'w', encoding='utf-8') as fh:
                    json.dump(doc, fh)
            else:
                for mu in muts:
                    if mutate_h5(path, mu):
                        applied.append(mu)
            if len(applied) != len(muts):
                return [], 0, False                  # a component did not apply: covered by the smaller case
        n += 1
        said_valid, out, exc = validate(path)
        # ---- completeness -------------------------------------------------------------------
        in_vocabulary = typ in tu.VOCABULARY_TYPES
        if not muts and in_vocabulary and not said_valid:
            fails.append(rt.fail('written-file-reported-valid', cls, 'valid',
                                 (out or '') + ('' if exc is None else ' | %s: %s' % (type(exc).__name__, str(exc)[:150]))))
        # ---- soundness ------------------------------------------------------------------------
        if fmt == 'json':
            bad, determinate = phi_json(doc) if doc is not None else ({'malformed-json'}, False)
            if doc is None:
                bad = set()                           # unparseable text can never be reported valid; nothing to demand
        else:
            bad, determinate = phi_h5(path), True
        if said_valid:
            for b in sorted(bad):
                fails.append(rt.fail('never-valid-for-corrupt', '%s-%s' % (b, fmt), 'not reported valid (%s)' % b,
                                     'reported valid; mutations=%s' % json.dumps(applied)))
        # ---- accepted numeric JSON loads to what it declares ------------------------------------
        if fmt == 'json' and said_valid and not bad and determinate and doc.get('matrix_element_type') in ('int', 'float'):
            n += 1
            mtag = '+'.join('mut-' + '-'.join(str(x) for x in mu[:2]) for mu in applied)
            acls = tu.wclass(case, fmt, mtag)
            try:
                t2 = biom.load_table(path)
            except Exception as e:
                t2 = None
                fails.append(rt.fail('accepted-loads/no-exception', acls, 'a Table', '%s: %s' % (type(e).__name__, str(e)[:200])))
            if t2 is not None:
                v = rt.view(t2)
                want_ids = ([r['id'] for r in doc['rows']], [c['id'] for c in doc['columns']])
                if list(v.A.shape) != list(doc['shape']) or (v.obs, v.samp) != want_ids:
                    fails.append(rt.fail('accepted-loads/shape-and-ids', acls, [doc['shape'], want_ids], [list(v.A.shape), (v.obs, v.samp)]))
                elif not tu.bits_equal(v.A, dense_of_doc(doc)):
                    fails.append(rt.fail('accepted-loads/values', acls, dense_of_doc(doc).tolist(), v.A.tolist()))
    return fails, n, bool(bad) or not muts


C15_DEFAULTS = (('muts', []),) + tu.DEFAULTS


def run_case(case):
    fails, n, nontrivial = _core(case)
    muts_scope = bool(case.get('muts'))
    if fails:
        keep = [f for f in fails if f['clause'] == 'never-valid-for-corrupt']
        rest = [f for f in fails if f['clause'] != 'never-valid-for-corrupt']
        if rest:
            cache = {}
            for f in rest:
                mc = tu.minimise(case, f['clause'], lambda c: _core(c)[0], C15_DEFAULTS, cache)
                f = dict(f)
                mtag = '+'.join('mut-' + '-'.join(str(x) for x in mu[:2]) for mu in (mc.get('muts') or []))
                if muts_scope and not mc.get('muts'):
                    continue          # fails without any mutation: reported by the written-files scope (same states)
                f['wclass'] = tu.wclass(mc, mc['fmt'], mtag)
                if mc != case:
                    f['witness'] = mc
                keep.append(f)
        fails = keep
    return {'fails': fails, 'nontrivial': nontrivial, 'n': n}


SCOPES = {'written-files': run_case, 'json-mutations': run_case, 'hdf5-mutations': run_case}

# ----------------------------------------------------------------------------------------------
# case enumeration
# ----------------------------------------------------------------------------------------------

MUT_BASES = [
    {'A': [[1.0, 0.0, 2.5], [0.0, 3.0, 0.0], [4.0, 5.0, 0.0]], 'layout': 'csr', 'zeros': 'nz', 'obs_md': 'tax',
     'samp_md': 'text', 'type': 'OTU table'},
    {'A': [[0.5, 2.0], [0.0, 1.0]], 'layout': 'csr_unsorted', 'zeros': 'z1', 'type': 'Gene table'},
    {'A': [[7.0]], 'layout': 'csr', 'zeros': 'nz', 'type': 'Taxon table'},
    {'A': [[0.0, 0.0], [0.0, 0.0]], 'layout': 'csr', 'zeros': 'nz', 'type': 'Pathway table'},
    {'A': [[1.0, 2.0, 0.0], [0.0, 0.0, 3.0]], 'layout': 'csc', 'zeros': 'nz', 'ids': 'nonascii', 'obs_md': 'num',
     'type': 'Metabolite table'},
]


def _base_json_doc(base):
    t = tu.build(base)
    return json.loads(t.to_json('g'))


def mutation_cases(fmt, tier):
    quick = tier == 'quick'
    bases = MUT_BASES[:4] if quick else MUT_BASES
    for bi, base in enumerate(bases):
        A = np.array(base['A'])
        if fmt == 'json':
            singles = json_mutations(_base_json_doc(base))
        else:
            singles = h5_mutations(A.shape[0], A.shape[1], int(np.sum(A != 0)))
        for mu in singles:
            yield dict(base, fmt=fmt, muts=[mu])
        pairs = itertools.combinations(singles, 2)
        if quick:
            # a deterministic sample of double mutations already in the quick tier
            step = 23 if fmt == 'json' else 41
            pairs = itertools.islice(pairs, bi, None, step)
        elif fmt == 'hdf5' and bi >= 3:
            pairs = itertools.islice(pairs, bi, None, 3)
        for (a, b) in pairs:
            yield dict(base, fmt=fmt, muts=[a, b])


ID_KINDS = ('plain', 'punct', 'nonascii', 'long', 'numeric', 'hostile')


def written_cases(tier, seed=0):
    quick = tier == 'quick'
    types = tu.VOCABULARY_TYPES
    k = 0
    for st in tu.matrix_states('quick'):
        k += 1
        if quick and k % 3:
            continue
        for fmt in ('json', 'hdf5'):
            yield dict(st, fmt=fmt, type=types[k % 7])
    for dm in tu.value_matrices():
        for li, lay in enumerate(rt.LAYOUTS):
            k += 1
            for fmt in ('json', 'hdf5'):
                yield {'A': dm.tolist(), 'layout': lay, 'zeros': 'nz', 'fmt': fmt, 'type': types[k % 7]}
    for b in MUT_BASES:
        for fmt in ('json', 'hdf5'):
            yield dict(b, fmt=fmt)
    base = MUT_BASES[0]['A']
    for ty in types:
        for fmt in ('json', 'hdf5'):
            yield {'A': base, 'layout': 'csr', 'zeros': 'nz', 'fmt': fmt, 'type': ty}
    for ids in ID_KINDS:
        for fmt in ('json', 'hdf5'):
            if fmt == 'hdf5' and ids == 'hostile':
                continue          # control characters in HDF5 IDs are outside the C01 domain
            for lay in rt.LAYOUTS:
                k += 1
                yield {'A': base, 'layout': lay, 'zeros': 'z1', 'ids': ids, 'fmt': fmt, 'type': types[k % 7]}
    for md in ('text', 'num', 'tax', 'slash', 'hostile', 'nested', 'npscalar'):
        for fmt in ('json', 'hdf5'):
            if fmt == 'hdf5' and md in ('hostile', 'nested', 'npscalar'):
                continue          # C01 domain: text, numeric and hierarchical-list categories
            for which in (('obs_md',), ('samp_md',), ('obs_md', 'samp_md')):
                k += 1
                c = {'A': base, 'layout': rt.LAYOUTS[k % 3], 'zeros': 'nz', 'fmt': fmt, 'type': types[k % 7]}
                for w in which:
                    c[w] = md
                yield c
    for h in ('nonascii', 'quote-id', 'backslash-gen', 'quote-gen'):
        for fmt in ('json', 'hdf5'):
            yield {'A': base, 'layout': 'csr', 'zeros': 'nz', 'fmt': fmt, 'header': h, 'type': 'OTU table'}
    for hist in (['sort_samples_rev'], ['subsample'], ['transpose'], ['filter_first_sample']):
        for fmt in ('json', 'hdf5'):
            yield {'A': base, 'layout': 'csr', 'zeros': 'nz', 'fmt': fmt, 'history': hist, 'type': 'OTU table'}
    for fmt in ('hdf5',):
        yield {'A': base, 'layout': 'csr', 'zeros': 'nz', 'fmt': fmt, 'type': 'OTU table', 'compress': True}
    if not quick:
        rng = np.random.default_rng(3000 + int(seed))
        for j in range(1500):
            A = tu.random_matrix(rng)
            fmt = ('json', 'hdf5')[j % 2]
            c = {'A': A.tolist(), 'layout': rt.LAYOUTS[int(rng.integers(0, 3))],
                 'zeros': rt.ZEROS[int(rng.integers(0, 3))] if np.any(A == 0) else 'nz', 'fmt': fmt,
                 'type': types[int(rng.integers(0, 7))], 'compress': bool(rng.integers(0, 2))}
            if rng.random() < 0.5:
                c['ids'] = ID_KINDS[int(rng.integers(0, 5))]
            if rng.random() < 0.4:
                c['obs_md'] = ('text', 'num', 'tax')[int(rng.integers(0, 3))]
            if rng.random() < 0.4:
                c['samp_md'] = ('text', 'num', 'tax')[int(rng.integers(0, 3))]
            yield c


def run(rep):
    from props import common
    if 'deductive' in rep.only:
        common.run_deductive(rep, 'C15')
    if 'bounded' in rep.only:
        q = rep.tier == 'quick'
        rt.run_scope(rep, 'written-files',
                     'files written by to_json / to_hdf5 for %s matrices over {0,1,2} up to 2x2(+2x3,3x2 samples) x layout x '
                     'stored zeros, value-stress matrices, the 7 vocabulary types, ID alphabets, metadata '
                     'kinds, header strings, histories%s: reported valid; accepted JSON loads to declared shape/IDs/values'
                     % ('every 3rd of the' if q else 'all', '' if q else '; 1500 seeded random tables up to 6x6'),
                     written_cases(rep.tier, rep.seed), run_case, exhaustive=q, chunk=16)
        rt.run_scope(rep, 'json-mutations',
                     '%d written JSON documents x every single mutation of the grammar (delete/rename each of the 12 keys '
                     'and record fields; 11 shape perturbations; 20 appended/prepended out-of-range, negative, mistyped, '
                     'malformed coordinates; duplicate/blank/null IDs; 7 non-object metadata; matrix/element type swaps; '
                     'date/format/url/type corruption) + %s double mutations'
                     % (4 if q else 5, 'every 23rd pair of' if q else 'all'),
                     mutation_cases('json', rep.tier), run_case, exhaustive=True, chunk=64)
        rt.run_scope(rep, 'hdf5-mutations',
                     '%d written HDF5 files x every single mutation (delete/rename each of the 8 attributes, 8 groups, 8 '
                     'datasets; shape perturbations; out-of-range / negative / appended indices per axis; string data, float '
                     'indices/indptr/ids; duplicate/blank IDs; metadata group replaced by a dataset; '
                     'date/url/version/type/nnz/generated-by corruption) + %s double mutations'
                     % (4 if q else 5, 'every 41st pair of' if q else 'all (every 3rd for the last two bases)'),
                     mutation_cases('hdf5', rep.tier), run_case, exhaustive=True, chunk=32)
        rep.trust('CPython json module and raw h5py as independent readers of the files under validation',
                  'click.testing.CliRunner runs the real `biom validate-table` command in-process')
    common.finish_notes(rep, 'C15')


def replay(case):
    return rt.replay_case('C15', case)
