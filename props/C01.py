"""C01 - HDF5 (BIOM 2.x) write/read round trip is lossless.

Bounded part (this file): for every state of the scope the table is written with ``Table.to_hdf5`` (with and
without compression) into a fresh temp dir and loaded back with ``biom.load_table(path)`` (format
auto-detection), ``biom.parse_table(handle)`` and ``Table.from_hdf5(handle)``; every loaded table is compared
field by field with the view of the source table taken (through raw fields) just before writing:

  (scope roundtrip/) obs-ids, samp-ids   same IDs, same order
  values                          bit-identical float64 matrix
  obs-md, samp-md                 same per-ID metadata (None when the axis has none)
  type, table-id                  table id None reads back as the format's placeholder "No Table ID"
  generated-by                    the string handed to the writer
  creation-date                   the datetime handed to the writer (without one: the date found in the file)
  obs-group-md, samp-group-md     text payload of every group-metadata entry
  writes / loads                  neither direction raises on the property's domain

Oracle: the source view (``rt.view``) - no reader or sibling function of the library.
Deductive part: contracts on general_parser / vlen_list_of_str_parser / to_hdf5 / from_hdf5 skeletons
(DESIGN.md 8/C01).
"""
import datetime
import os

from pyvc import rt
from props import h5_util as U

LEVEL = 'other'
LOADERS = ('load_table', 'parse_table', 'from_hdf5')


def _load(loader, path):
    import h5py
    import biom
    from biom import Table
    if loader == 'load_table':
        return biom.load_table(path)
    with h5py.File(path, 'r') as h:
        if loader == 'parse_table':
            return biom.parse_table(h)
        return Table.from_hdf5(h)


def evaluate(case):
    """raw failure records of one (state, compress) case over the three loaders"""
    import h5py
    t = U.build(case)
    src = U.V.of(rt.view(t))                       # before the writer touches the table
    gen = U.GENERATED_BY[case.get('gen', 'plain')]
    date = U.FIXED_DATE if case.get('date', True) else None
    exp = U.V.of(src)
    exp.table_id = src.table_id if src.table_id else U.PLACEHOLDER_ID
    exp.generated_by = gen
    fails = []
    with U.tmpdir() as d:
        path = os.path.join(d, 'table.biom')
        t0 = datetime.datetime.now()
        try:
            with h5py.File(path, 'w') as h:
                t.to_hdf5(h, gen, compress=bool(case.get('compress', True)), creation_date=date)
        except Exception as e:
            return [U.raw('writes', 'to_hdf5 returns', U.exc_text(e))]
        t1 = datetime.datetime.now()
        if date is None:
            # the writer stamps the file itself: the loaded date must be the one in the file
            with h5py.File(path, 'r') as h:
                stamp = U.as_datetime(h.attrs['creation-date'])
            exp.create_date = stamp
            if not (isinstance(stamp, datetime.datetime) and t0 <= stamp <= t1):
                fails.append(U.raw('creation-date', 'a time stamp taken while writing', repr(stamp)))
        else:
            exp.create_date = date
        per_loader = {}
        for loader in LOADERS:
            try:
                got = rt.view(_load(loader, path))
            except Exception as e:
                per_loader[loader] = [U.raw('loads', 'a table', U.exc_text(e))]
                continue
            fs = U.compare_core(got, exp, '', exact=True)
            fs += U.compare_header(got, exp, '')
            per_loader[loader] = fs
    # a clause failing under every loader is one failure; otherwise tag it with the loaders concerned
    clauses = {}
    for loader in LOADERS:
        for f in per_loader[loader]:
            clauses.setdefault(f['clause'], []).append((loader, f))
    for clause, lst in clauses.items():
        f = lst[0][1]
        tag = None if len(lst) == len(LOADERS) else 'via-' + '+'.join(l for l, _ in lst)
        fails.append(U.raw(clause, f['expected'], f['observed'], tag))
    return fails


def run_case(case):
    try:
        raw = evaluate(case)
    except U.SkipCase:
        return {'fails': [], 'nontrivial': False, 'n': 0}
    return {'fails': U.reduce_fails(case, raw, evaluate) if raw else [], 'nontrivial': True, 'n': len(LOADERS)}


SCOPES = {'roundtrip': run_case}


def cases(tier, seed=0):
    q = tier == 'quick'
    k = 0
    for st in U.base_states(tier, seed):
        yield dict(st, compress=True)
        yield dict(st, compress=False)
    for st in U.rich_states(tier):
        k += 1
        if q:
            yield dict(st, compress=bool(k % 2))
        else:
            yield dict(st, compress=True)
            yield dict(st, compress=False)
    for st in U.header_states():
        for compress in (True, False):
            yield dict(st, compress=compress)
        yield dict(st, compress=True, date=False)
    for st in U.history_states(tier, seed):
        k += 1
        yield dict(st, compress=bool(k % 2))


def run(rep):
    from props import common
    if 'deductive' in rep.only:
        common.run_deductive(rep, 'C01')
    if 'bounded' in rep.only:
        q = rep.tier == 'quick'
        bound = ('files written by Table.to_hdf5 (compression on and off) and re-read by load_table(path), '
                 'parse_table(handle), Table.from_hdf5(handle): every matrix over {0,1,2} up to 2x2%s x layouts '
                 '(csr, csr-unsorted, csc) x stored zeros (none/one/all); value-stress matrices; %s seeded random '
                 'tables up to %s with count/fraction/negative/huge/tiny values; 3 fixed matrices x 5 ID alphabets x '
                 '9 x 7 metadata kinds (%s); 8 table types x table id x generated-by x group metadata x writer date; '
                 'tables left by 17 public operations (singles + %s)'
                 % ('' if q else ' (+ 2x3, 3x2, and 3x3 over {0,1})', '24' if q else '560', '3x3' if q else '6x6',
                    'every 2nd combination' if q else 'all, both compressions',
                    '24 sampled pairs' if q else 'all ordered pairs + 150 sampled triples'))
        rt.run_scope(rep, 'roundtrip', bound, cases(rep.tier, rep.seed), run_case, chunk=16,
                     exhaustive=False, module='C01')
        rep.trust('h5py/HDF5 storage of float64, int32 and UTF-8 variable-length strings',
                  'numpy string dtypes, the utf-8 codec, datetime.isoformat/fromisoformat')
    common.finish_notes(rep, 'C01')


def replay(case):
    return rt.replay_case('C01', case)
