"""C05 - A table stays internally coherent after every sequence of operations.

Bounded part (Tier B).  Contract, evaluated on the real library after every
operation of a history:

* ``Inv`` (DESIGN.md 4.2, ``rt.inv``): shape == (#observation IDs, #sample IDs),
  IDs unique, both id->position lookups exact (no stale / missing entry),
  metadata None or one mapping per ID, well-formed compressed matrix;
* every accessor reports the matrix of the raw view: ``data``,
  ``get_value_by_ids``, ``iter``, ``iter_data``, ``iter_pairwise``, ``nonzero``,
  ``sum``, ``nnz``, ``get_table_density``, ``index``/``exists`` (unknown and
  formerly present IDs are reported as unknown), ``metadata``.

Each accessor is evaluated on its own raw clone of the state, because accessors
change the representation (``nnz`` drops stored zeros, ``data`` converts the
layout) and are themselves under test.

Scopes: start (constructor), single (every operation x full argument alphabet on
every small state), depth2 / depth3 (exhaustive histories over the reduced
alphabet), random (seeded histories to depth 8 over the full alphabet).
"""
import itertools
import math
import random

import numpy as np
import scipy.stats  # noqa: F401  (Table.rankdata imports it lazily; pay the import once per worker)

from pyvc import rt
from props import ops_util as ou

LEVEL = 'other'
AXES = ou.AXES


# --------------------------------------------------------------------------
# the contract at one node of a history
# --------------------------------------------------------------------------

def _md_plain(md):
    return None if md is None else rt.plain(dict(md))


def _acc_data(c, v):
    if 0 in v.A.shape:
        return None
    for axis in AXES:
        for k, i in enumerate(v.ids(axis)):
            want = v.vec(axis, k)
            got = c.data(i, axis=axis)
            if not isinstance(got, np.ndarray) or got.shape != want.shape or not np.array_equal(got, want):
                return ('data(%r, %s)' % (i, axis), want.tolist(), np.asarray(got).tolist())
            if k in (0, len(v.ids(axis)) - 1):
                sp_ = c.data(i, axis=axis, dense=False)
                got2 = np.asarray(sp_.toarray()).ravel()
                if got2.shape != want.shape or not np.array_equal(got2, want):
                    return ('data(%r, %s, dense=False)' % (i, axis), want.tolist(), got2.tolist())
    return None


def _acc_value(c, v):
    if 0 in v.A.shape:
        return None
    for i, o in enumerate(v.obs):
        for j, s in enumerate(v.samp):
            got = c.get_value_by_ids(o, s)
            if not (got == v.A[i, j]):
                return ('get_value_by_ids(%r, %r)' % (o, s), float(v.A[i, j]), float(got))
    return None


def _vecs_match(got, v, axis, dense, with_ids):
    ids, mdv = v.ids(axis), v.md(axis)
    if len(got) != len(ids):
        return ('number of vectors', len(ids), len(got))
    for k, item in enumerate(got):
        vec = item[0] if with_ids else item
        arr = vec if dense else np.asarray(vec.toarray()).ravel()
        want = v.vec(axis, k)
        if np.asarray(arr).shape != want.shape or not np.array_equal(arr, want):
            return ('vector %d' % k, want.tolist(), np.asarray(arr).tolist())
        if with_ids:
            if str(item[1]) != ids[k]:
                return ('id %d' % k, ids[k], str(item[1]))
            wmd = None if mdv is None else mdv[k]
            if _md_plain(item[2]) != wmd:
                return ('metadata %d' % k, wmd, _md_plain(item[2]))
    return None


def _acc_iter(c, v):
    for axis, dense in (('sample', True), ('observation', False), ('observation', True)):
        if True:
            r = _vecs_match(list(c.iter(dense=dense, axis=axis)), v, axis, dense, True)
            if r:
                return ('iter(%s, dense=%s): %s' % (axis, dense, r[0]), r[1], r[2])
    return None


def _acc_iter_data(c, v):
    for axis, dense in (('observation', True), ('sample', False)):
        if True:
            r = _vecs_match(list(c.iter_data(dense=dense, axis=axis)), v, axis, dense, False)
            if r:
                return ('iter_data(%s, dense=%s): %s' % (axis, dense, r[0]), r[1], r[2])
    return None


def _acc_pairwise(c, v):
    if 0 in v.A.shape:
        return None
    for axis, tri, diag in (('sample', True, False), ('observation', False, True)):
        ids, mdv = v.ids(axis), v.md(axis)
        n = len(ids)
        if True:
            want = [(i, j) for i in range(n) for j in range(n)
                    if (j > i or (not tri and j < i) or (diag and j == i))]
            got = list(c.iter_pairwise(axis=axis, tri=tri, diag=diag))
            gp = [(str(a[1]), str(b[1])) for a, b in got]
            wp = [(ids[i], ids[j]) for i, j in want]
            if gp != wp:
                return ('iter_pairwise(%s, tri=%s, diag=%s): id pairs' % (axis, tri, diag), wp, gp)
            for (a, b), (i, j) in zip(got, want):
                for item, k in ((a, i), (b, j)):
                    if not np.array_equal(item[0], v.vec(axis, k)):
                        return ('iter_pairwise(%s): vector of %r' % (axis, ids[k]), v.vec(axis, k).tolist(),
                                np.asarray(item[0]).tolist())
                    wmd = None if mdv is None else mdv[k]
                    if _md_plain(item[2]) != wmd:
                        return ('iter_pairwise(%s): metadata of %r' % (axis, ids[k]), wmd, _md_plain(item[2]))
    return None


def _acc_nonzero(c, v):
    want = sorted((v.obs[i], v.samp[j]) for i in range(len(v.obs)) for j in range(len(v.samp)) if v.A[i, j] != 0)
    got = sorted((str(o), str(s)) for o, s in c.nonzero())
    if got != want:
        return ('nonzero()', want, got)
    return None


def _sum_close(got, want_rows):
    """want_rows: list of lists of the exact addends per output cell"""
    got = np.atleast_1d(np.asarray(got, dtype=float))
    if got.shape != (len(want_rows),):
        return False
    for g, addends in zip(got.tolist(), want_rows):
        exact = math.fsum(addends)
        scale = math.fsum(abs(x) for x in addends)
        if not abs(g - exact) <= 1e-9 * scale:
            return False
    return True


def _acc_sum(c, v):
    A = v.A
    whole = c.sum()
    if np.ndim(whole) != 0 or not _sum_close(whole, [A.ravel().tolist()]):
        return ('sum(whole)', math.fsum(A.ravel().tolist()), np.asarray(whole).tolist())
    got = c.sum(axis='sample')
    if not _sum_close(got, [A[:, j].tolist() for j in range(A.shape[1])]):
        return ('sum(sample)', A.sum(axis=0).tolist(), np.asarray(got).tolist())
    got = c.sum(axis='observation')
    if not _sum_close(got, [A[i, :].tolist() for i in range(A.shape[0])]):
        return ('sum(observation)', A.sum(axis=1).tolist(), np.asarray(got).tolist())
    return None


def _acc_nnz(c, v):
    want = int(np.count_nonzero(v.A))
    got = c.nnz
    if int(got) != want:
        return ('nnz', want, int(got))
    return None


def _acc_density(c, v):
    want = 0.0 if v.A.size == 0 else np.count_nonzero(v.A) / float(v.A.size)
    got = c.get_table_density()
    if not abs(float(got) - want) <= 1e-12:
        return ('get_table_density()', want, float(got))
    return None


def _acc_lookup(c, v, former):
    for axis in AXES:
        ids = v.ids(axis)
        for k, i in enumerate(ids):
            if c.index(i, axis) != k:
                return ('index(%r, %s)' % (i, axis), k, c.index(i, axis))
            if c.exists(i, axis=axis) is not True:
                return ('exists(%r, %s)' % (i, axis), True, c.exists(i, axis=axis))
        for u in ['no-such-id'] + sorted(x for x in former.get(axis, ()) if x not in set(ids)):
            if c.exists(u, axis=axis) is not False:
                return ('exists(unknown %r, %s)' % (u, axis), False, c.exists(u, axis=axis))
            try:
                got = c.index(u, axis)
            except Exception:
                continue
            return ('index(unknown %r, %s) is reported as unknown' % (u, axis), 'an exception', got)
    return None


def _acc_metadata(c, v):
    for axis in AXES:
        mdv = v.md(axis)
        whole = c.metadata(axis=axis)
        if (whole is None) != (mdv is None):
            return ('metadata(axis=%s)' % axis, mdv, whole)
        if mdv is not None and len(whole) != len(v.ids(axis)):
            return ('len(metadata(axis=%s))' % axis, len(v.ids(axis)), len(whole))
        for k, i in enumerate(v.ids(axis)):
            got = _md_plain(c.metadata(i, axis=axis))
            want = None if mdv is None else mdv[k]
            if got != want:
                return ('metadata(%r, %s)' % (i, axis), want, got)
        if tuple(c.shape) != (len(v.obs), len(v.samp)) or c.length(axis) != len(v.ids(axis)):
            return ('shape/length(%s)' % axis, (len(v.obs), len(v.samp)), tuple(c.shape))
    return None


ACCESSORS = [('data', _acc_data), ('get_value_by_ids', _acc_value), ('iter', _acc_iter),
             ('iter_data', _acc_iter_data), ('iter_pairwise', _acc_pairwise), ('nonzero', _acc_nonzero),
             ('sum', _acc_sum), ('nnz', _acc_nnz), ('get_table_density', _acc_density),
             ('metadata', _acc_metadata)]


def _run_accessor(name, fn, t, v):
    """evaluate one accessor on a raw clone of t; returns None or (what, expected, observed)"""
    c = ou.clone(t)
    try:
        return fn(c, v)
    except Exception as e:
        return ('%s raised' % name, 'a value', ou.describe_exc(e))


def raw_key(t):
    """the complete raw state of a table (everything an accessor can depend on)"""
    d = t._data
    return (d.getformat(), tuple(d.shape), d.indptr.tobytes(), d.indices.tobytes(), d.data.tobytes(),
            tuple(t._observation_ids.tolist()), tuple(t._sample_ids.tolist()),
            repr(rt.md_view(t._observation_metadata)), repr(rt.md_view(t._sample_metadata)), t.type)


_ACC_MEMO = {}


def inv_problems(t):
    """violated clauses of rt.inv; the axis is reported in `observed`, not in the clause name (one root cause on
    both axes = one group)"""
    out, seen = [], set()
    for b in rt.inv(t):
        name = b.split(':')[0]
        for pre in ('obs-', 'samp-'):
            if name.startswith(pre):
                name = name[len(pre):]
        if name not in seen:
            seen.add(name)
            out.append(('Inv/' + name, 'holds', b))
    return out


def accessor_problems(t, v=None, key=None):
    """accessor agreement with the raw view; a function of the raw state only (memoised per process)"""
    v = v or rt.view(t)
    if not ou.finite(v):
        return []
    key = key or raw_key(t)
    if key in _ACC_MEMO:
        return _ACC_MEMO[key]
    out = []
    for name, fn in ACCESSORS:
        r = _run_accessor(name, fn, t, v)
        if r:
            out.append(('accessor/' + name, r[1], {'query': r[0], 'observed': r[2]}))
    if len(_ACC_MEMO) > 200000:
        _ACC_MEMO.clear()
    _ACC_MEMO[key] = out
    return out


def lookup_problems(t, v, former):
    try:
        r = _acc_lookup(t, v, former or {})       # index()/exists() read the lookups only: no clone needed
    except Exception as e:
        r = ('index/exists raised', 'a value', ou.describe_exc(e))
    return [('accessor/index-exists', r[1], {'query': r[0], 'observed': r[2]})] if r else []


def node_problems(t, former=None, accessors=True):
    """[(clause, expected, observed)] of the coherence contract on table t"""
    out = inv_problems(t)
    if out:
        # accessor agreement is only meaningful relative to a well-formed raw state
        return out
    v = rt.view(t)
    out = lookup_problems(t, v, former)
    if accessors:
        out = out + accessor_problems(t, v)
    return out


def _classify(t, clause, former, tag):
    def fails(tabs):
        return any(p[0] == clause for p in node_problems(tabs[0], former))
    return ou.reduce_class([t], fails, cache_key=(clause, tag))


def _classify_op(pre, a, clause, former, which):
    """class of a failure that needs operation `a` applied to raw state `pre`"""
    def fails(tabs):
        c = tabs[0]
        o = ou.apply(c, a)
        if which == 'after-exception':
            return o.exc is not None and any('after-exception/' + p[0] == clause for p in node_problems(c, former, False))
        if which == 'receiver':
            return o.exc is None and any('receiver/' + p[0] == clause for p in node_problems(c, former, False))
        return any(p[0] == clause for r in o.results for p in node_problems(r, former, False))
    return ou.reduce_class([pre], fails, cache_key=(clause, a['op']))


# --------------------------------------------------------------------------
# histories
# --------------------------------------------------------------------------

class _Walk:
    def __init__(self, case):
        self.case = case
        self.fails = []
        self.n = 0
        self.keys = set()
        self.seen = set()
        self.done = set()        # (raw state, remaining depth) already explored in this case

    def add(self, clause, cls, exp, obs, path):
        key = (clause, cls)
        if key in self.seen:
            return
        self.seen.add(key)
        self.fails.append(rt.fail(clause, cls, exp, obs, witness=dict(self.case, path=list(path))))

    def former_of(self, former, v):
        return {'sample': set(former.get('sample', ())) | set(v.samp),
                'observation': set(former.get('observation', ())) | set(v.obs)}

    def judge_state(self, r, former, path, producer):
        """full contract on a table that a history has reached"""
        probs = node_problems(r, former)
        for p in probs:
            if p[0].startswith('Inv/') or p[0] == 'accessor/index-exists':
                if producer is None:
                    cls = 'constructor:' + _classify(r, p[0], former, 'start')
                else:
                    cls = '%s:%s' % (producer[1]['op'], _classify_op(producer[0], producer[1], p[0], former, 'result'))
            else:
                # accessor disagreement is a property of the reached raw state, whatever produced it
                cls = _classify(r, p[0], former, 'state')
            self.add(p[0], cls, p[1], p[2], path)

    def step(self, t, a, former, path, v=None):
        """apply one operation to a raw clone of t, check the contract; returns
        the table the history continues with (or None)"""
        v = v or rt.view(t)
        c = ou.clone(t)
        o = ou.apply(c, a, v)
        if isinstance(o.exc, ou._Skip):
            return None, former
        self.n += 1
        path = path + [a]
        former2 = self.former_of(former, v)
        if o.exc is not None:
            # a failed operation is still part of the history: the receiver must stay coherent.
            # (its accessors are judged like those of any other reached state)
            for p in node_problems(c, former2, False):
                clause = 'after-exception/' + p[0]
                self.add(clause, '%s:%s' % (a['op'], _classify_op(t, a, clause, former2, 'after-exception')), p[1],
                         {'exception': ou.describe_exc(o.exc), 'problem': p[2]}, path)
            if not inv_problems(c):
                self.judge_state(c, former2, path, (t, a))
            return None, former
        self.keys.add(hash(repr((self.case.get('A'), self.case.get('layout'), self.case.get('zeros'), path))))
        if not o.inplace:
            for p in node_problems(c, former2, False):
                clause = 'receiver/' + p[0]
                self.add(clause, '%s:%s' % (a['op'], _classify_op(t, a, clause, former2, 'receiver')), p[1], p[2], path)
        for r in o.results:
            self.judge_state(r, former2, path, (t, a))
        if o.result is None or inv_problems(o.result) or (o.inplace is False and inv_problems(c)):
            return None, former      # reported above; an incoherent table is not a start for further history
        return o.result, former2

    def start(self, t):
        self.n += 1
        self.judge_state(t, {}, [], None)

    def dfs(self, t, depth, level, former, path, part=None):
        """part = (k, m): at this level only the operations with index % m == k (splits one start state into m cases)"""
        if depth == 0 or t is None:
            return
        v = rt.view(t)
        if not ou.finite(v):
            return                       # left the value domain (finite float64): not judged, not continued
        key = (raw_key(t), depth)
        if key in self.done:
            return                       # same raw state with the same remaining depth: same subtree
        self.done.add(key)
        for j, a in enumerate(ou.alphabet(v, level)):
            if part is not None and j % part[1] != part[0]:
                continue
            r, f2 = self.step(t, a, former, path, v)
            if r is not None and depth > 1:
                self.dfs(r, depth - 1, level, f2, path + [a])

    def result(self):
        return {'fails': self.fails, 'n': self.n, 'nontrivial': bool(self.keys), 'keys': self.keys}


def run_start_case(case):
    w = _Walk(case)
    w.start(rt.table_from_case(case))
    return {'fails': w.fails, 'n': w.n, 'nontrivial': True}


def run_single_case(case):
    """every operation of the full argument alphabet on one state"""
    w = _Walk(case)
    t = rt.table_from_case(case)
    w.dfs(t, 1, 'full', {}, [])
    return w.result()


def run_history_case(case):
    """exhaustive histories from one start state: every sequence over the
    alphabet `level` up to `depth`; a (raw state, remaining depth) pair that was
    already expanded is not expanded again (the contract is a function of the
    raw state, and the operations are deterministic)"""
    w = _Walk(case)
    t = rt.table_from_case(case)
    w.dfs(t, case['depth'], case['level'], {}, [], part=case.get('part'))
    return w.result()


def run_random_case(case):
    """seeded random history over the full alphabet"""
    w = _Walk(case)
    rng = random.Random('%s/%s' % (case['seed'], case['k']))
    t = rt.table_from_case(case)
    former, path = {}, []
    for _ in range(case['len']):
        v = rt.view(t)
        if not ou.finite(v):
            break
        al = ou.alphabet(v, 'full')
        # weight operations equally (not argument choices), then an argument uniformly
        ops = sorted({a['op'] for a in al})
        op = rng.choice(ops)
        a = rng.choice([x for x in al if x['op'] == op])
        r, f2 = w.step(t, a, former, path, v)
        if r is None:
            continue
        path = path + [a]
        t, former = r, f2
    return w.result()


# --------------------------------------------------------------------------
# read accessors interleaved with in-place operations, all on the *same* live object: an accessor may leave
# hidden state behind (a converted layout, a cache) that a later operation has to keep coherent
# --------------------------------------------------------------------------

def _double(v, i, md):
    return v * 2


PRE_ACCESS = {
    'data-sample': lambda t, v: t.data(v.samp[0], axis='sample'),
    'data-observation': lambda t, v: t.data(v.obs[0], axis='observation'),
    'iter-both': lambda t, v: (list(t.iter(axis='sample')), list(t.iter(axis='observation'))),
    'value-and-nnz': lambda t, v: (t.get_value_by_ids(v.obs[0], v.samp[0]), t.nnz),
    'iter-obs-then-sample-data': lambda t, v: (list(t.iter_data(axis='observation')), t.data(v.samp[-1], axis='sample')),
}
LIVE_OPS = {
    'transform-sample': lambda t, v: t.transform(_double, axis='sample', inplace=True),
    'transform-observation': lambda t, v: t.transform(_double, axis='observation', inplace=True),
    'norm-sample': lambda t, v: t.norm(axis='sample', inplace=True),
    'pa': lambda t, v: t.pa(inplace=True),
    'filter-sample': lambda t, v: t.filter(v.samp[:1], axis='sample', inplace=True),
    'filter-observation': lambda t, v: t.filter(v.obs[-1:], axis='observation', inplace=True),
    'update_ids': lambda t, v: t.update_ids({x: x + '_r' for x in v.samp}, axis='sample', inplace=True),
    'add_metadata': lambda t, v: t.add_metadata({v.obs[0]: {'k': 'v'}}, axis='observation'),
}


def run_live_case(case):
    t = rt.table_from_case(case)
    wcls = 'live-object:' + rt.state_class(case)
    v0 = rt.view(t)
    try:
        PRE_ACCESS[case['pre']](t, v0)
        LIVE_OPS[case['op']](t, v0)
    except Exception as e:
        return {'fails': [rt.fail('live/operation-returns', wcls, 'returns', ou.describe_exc(e))]}
    fails = []
    bad = rt.inv(t)
    if bad:
        return {'fails': [rt.fail('live/Inv', wcls, [], bad)]}
    v = rt.view(t)               # raw fields: what the table now holds
    if not ou.finite(v):
        return {'fails': [], 'nontrivial': False}
    for name, fn in ACCESSORS:   # every accessor on the live object (no clone, no memo)
        try:
            r = fn(t, v)
        except Exception as e:
            r = ('%s raised' % name, 'a value', ou.describe_exc(e))
        if r:
            fails.append(rt.fail('live/accessor/' + name, wcls, r[1], {'query': r[0], 'observed': r[2]}))
            break
    return {'fails': fails}


def live_cases(tier):
    mats = [np.array([[1., 0., 2.], [0., 3., 0.]]), np.array([[0., 2.], [1., 1.], [4., 0.]]), np.array([[5., 1.], [2., 0.]])]
    for dm in mats:
        for lay in rt.LAYOUTS:
            for z in ('nz', 'z1'):
                for pre in sorted(PRE_ACCESS):
                    for op in sorted(LIVE_OPS):
                        yield {'A': dm.tolist(), 'layout': lay, 'zeros': z, 'pre': pre, 'op': op}


SCOPES = {'live-object': run_live_case, 'start': run_start_case, 'single': run_single_case, 'depth2': run_history_case,
          'depth3': run_history_case, 'random': run_random_case}


# --------------------------------------------------------------------------
# states
# --------------------------------------------------------------------------

def _layout_zero_variants(dm, layouts=rt.LAYOUTS, zeros=rt.ZEROS):
    for lay in layouts:
        for z in zeros:
            if z != 'nz' and not np.any(np.asarray(dm) == 0):
                continue
            yield lay, z


def small_states(tier):
    """_all_small_states without descriptors that build the same raw state (e.g. 'csr-unsorted' of a matrix whose
    rows hold at most one entry is the csr state)"""
    seen = set()
    for st in _all_small_states(tier):
        k = raw_key(rt.table_from_case(st))
        if k not in seen:
            seen.add(k)
            yield st


def _all_small_states(tier):
    """every matrix over {0,1,2} up to 2x2 in every layout x stored-zero mode (no metadata, plain IDs);
    plus 2x3 / 3x2 / 3x3 / stress matrices with metadata kinds and ID alphabets"""
    for dm in rt.matrices(0, 0, shapes=[(1, 1), (1, 2), (2, 1), (2, 2)]):
        for lay, z in _layout_zero_variants(dm):
            if tier == 'quick' and dm.size == 4 and z == 'z1' and lay != 'csr':
                continue        # quick: 'one stored zero' on 2x2 only in the csr layout (none/all in every layout)
            yield {'A': dm.tolist(), 'layout': lay, 'zeros': z}
    yield from rich_states(tier)


_RICH = [np.array([[1., 0., 2.], [0., 3., 0.]]), np.array([[0., 2.], [1., 1.], [0., 0.]]),
         np.array([[5., 0., 0.], [0., 0., 4.], [1., 2., 3.]])]


def rich_states(tier):
    mds = [('text', 'text'), ('tax', 'none'), ('none', 'num'), ('slash', 'tax')]
    k = 0
    for dm in _RICH:
        for lay, z in _layout_zero_variants(dm):
            for ids in rt.ID_ALPHABETS:
                omd, smd = mds[k % len(mds)]
                k += 1
                yield {'A': dm.tolist(), 'layout': lay, 'zeros': z, 'ids': ids, 'obs_md': omd, 'samp_md': smd,
                       'type': 'OTU table' if k % 2 else None}
    for dm in rt.stress_matrices():
        for lay in rt.LAYOUTS:
            yield {'A': dm.tolist(), 'layout': lay, 'zeros': 'z1' if np.any(dm == 0) else 'nz', 'obs_md': 'text',
                   'samp_md': 'none'}


def history_states(tier, depth):
    """start states of the exhaustive histories"""
    mats = [np.array([[1., 0.], [2., 1.]]), np.array([[0., 2., 1.], [3., 0., 0.]])]
    if depth == 3:
        mats += [np.array([[2.], [0.], [1.]])]
    if depth == 2:
        mats += [np.array([[2.], [0.], [1.]])]
        if tier == 'thorough':
            mats += [np.array([[0., 0.], [0., 1.]]), np.array([[1., -1.], [0.5, 0.]]), np.array([[1., 2.], [3., 4.]])]
    mds = [('none', 'none'), ('text', 'tax')]
    for dm in mats:
        for lay, z in _layout_zero_variants(dm, zeros=('nz', 'zall')):
            for omd, smd in mds:
                yield {'A': dm.tolist(), 'layout': lay, 'zeros': z, 'obs_md': omd, 'samp_md': smd}


def history_cases(tier, depth, level):
    m = 4 if depth == 2 else 16
    for st in history_states(tier, depth):
        for k in range(m):
            yield dict(st, depth=depth, level=level, part=[k, m])


def random_cases(tier, seed):
    sts = list(rich_states(tier))
    n = 12000 if tier == 'thorough' else 480
    for k in range(n):
        yield dict(sts[(k * 7) % len(sts)], seed=seed, k=k, len=8)


def _fold_scopes(rep):
    """one root cause = one group: a (clause, class) already reported by an earlier (smaller) scope is folded
    into that group instead of being listed again under every later scope"""
    order = list(SCOPES)
    first = {}
    for key in sorted(rep.violations, key=lambda k: order.index(k[0].split('/', 1)[0]) if k[0].split('/', 1)[0] in order else 99):
        scope, clause = key[0].split('/', 1)
        if scope not in order:
            continue
        base = (clause, key[1])
        if base in first:
            rep.violations[first[base]].count += rep.violations[key].count
            del rep.violations[key]
        else:
            first[base] = key


def run(rep):
    from props import common
    if 'deductive' in rep.only:
        common.run_deductive(rep, 'C05')
    if 'bounded' in rep.only:
        rt.install_extracted_kernels()
        q = rep.tier == 'quick'
        sdesc = ('every matrix over {0,1,2} up to 2x2 x layouts (csr, csr-unsorted, csc) x stored zeros (none/one/all%s); '
                 % ('; quick: "one" on 2x2 only in csr' if q else '') +
                 '2x3, 3x2, 3x3 and value-stress matrices x layouts x stored zeros x ID alphabets x metadata kinds')
        rt.run_scope(rep, 'start', 'constructor: ' + sdesc, small_states(rep.tier), run_start_case, exhaustive=True)
        rt.run_scope(rep, 'single', 'one operation, full argument alphabet (ops_util.alphabet level=full, ~150-230 '
                     'argument choices per state) on: ' + sdesc, small_states(rep.tier), run_single_case,
                     chunk=8, exhaustive=True)
        rt.run_scope(rep, 'depth2', 'all histories of length 2 over the reduced alphabet (ops_util.alphabet '
                     'level=reduced, ~45-56 choices per state) from 2x2 / 2x3 / 3x1%s start tables x layouts x stored '
                     'zeros (none/all) x metadata (none / text+taxonomy); revisited (raw state, remaining depth) pairs '
                     'are not re-expanded' % ('' if q else ' / single-entry / negative / dense'),
                     history_cases(rep.tier, 2, 'reduced'), run_history_case, chunk=1, exhaustive=True)
        if not q:
            rt.run_scope(rep, 'depth3', 'all histories of length 3 over the reduced alphabet from 2x2 / 2x3 / 3x1 start '
                         'tables x layouts x stored zeros (none/all) x metadata (none / text+taxonomy); revisited '
                         '(raw state, remaining depth) pairs are not re-expanded',
                         history_cases(rep.tier, 3, 'reduced'), run_history_case, chunk=1, exhaustive=True)
        rt.run_scope(rep, 'live-object', 'read accessors, then one in-place operation, then every accessor again on the same '
                     'object: 3 matrices x layouts x stored zeros x 5 accessor groups x 8 in-place operations',
                     live_cases(rep.tier), run_live_case, exhaustive=True)
        rt.run_scope(rep, 'random', 'seeded random histories of length 8 over the full alphabet (VERIF_SEED=%d), '
                     'start states: 2x3/3x2/3x3/stress x layouts x stored zeros x ID alphabets x metadata kinds'
                     % rep.seed, random_cases(rep.tier, rep.seed), run_random_case, chunk=8, exhaustive=False)
        _fold_scopes(rep)
        rep.explanation = ('Bounded stand-in for C05: Inv and accessor agreement evaluated on the real library after '
                           'every operation of every enumerated history; non-finite states (outside the value domain) '
                           'are not judged and not continued.')
    common.finish_notes(rep, 'C05')


def replay(case):
    return rt.replay_case('C05', case)
