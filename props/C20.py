"""C20 - the error-handling profile is honoured and scoped.

Deductive part (the deciding one): every function of biom/err.py under
contract (contracts/err.py), Tier P.  Bounded part: the engine's CPython
cross-check - the same statements evaluated natively on the real module:
  * reactions: 7 kinds x 5 reactions x (non-triggering | triggering exactly
    that kind) through errcheck and through the Table constructor;
  * programs: all sequences of seterr / seterrcall / errstate (nested, with
    'all', unknown kinds / reactions, exiting normally or by exception) up
    to depth 3 against a reference model of a scoped configuration stack;
  * the module invariant assumed by the proofs (M_INV) holds on the imported module.
"""
import contextlib
import io
import itertools
import warnings

import numpy as np

from pyvc import rt

LEVEL = 'proof'
KINDS = ('empty', 'obssize', 'sampsize', 'obsdup', 'sampdup', 'obsmdsize', 'sampmdsize')
REACTIONS = ('raise', 'ignore', 'call', 'print', 'warn')
DEFAULT = {'empty': 'ignore', 'obssize': 'raise', 'sampsize': 'raise', 'obsdup': 'raise', 'sampdup': 'raise',
           'obsmdsize': 'raise', 'sampmdsize': 'raise'}


def _reset():
    import biom.err as E
    E.seterr(**DEFAULT)
    for k in KINDS:
        E.seterrcall(k, _NOOP)


def _NOOP(item):
    return None


def triggering_table(kind):
    """a table object that triggers exactly `kind` (built valid, then one raw field is bent,
    as the repo's own tests do) or None for a non-triggering table"""
    from biom import Table
    t = Table(np.array([[1., 2.], [3., 4.]]), ['O1', 'O2'], ['S1', 'S2'],
              [{'a': 1}, {'a': 2}], [{'b': 1}, {'b': 2}])
    if kind is None:
        return t
    if kind == 'empty':
        return Table(np.zeros((0, 0)), [], [])
    if kind == 'obssize':
        t._observation_ids = np.array(['O1', 'O2', 'O3'])
        t._observation_metadata = None
    elif kind == 'sampsize':
        t._sample_ids = np.array(['S1', 'S2', 'S3'])
        t._sample_metadata = None
    elif kind == 'obsdup':
        t._observation_ids = np.array(['O1', 'O1'])
    elif kind == 'sampdup':
        t._sample_ids = np.array(['S1', 'S1'])
    elif kind == 'obsmdsize':
        t._observation_metadata = t._observation_metadata + ({'a': 3},)
    elif kind == 'sampmdsize':
        t._sample_metadata = t._sample_metadata + ({'b': 3},)
    return t


def run_reaction_case(case):
    import biom.err as E
    from biom.exception import TableException
    kind, reaction, trig = case['kind'], case['reaction'], case['triggering']
    fails = []
    wcls = 'reaction-%s' % reaction
    _reset()
    try:
        t = triggering_table(kind if trig else None)
        # which kinds really trigger on this object (independent: the raw definitions)
        calls = []
        E.seterr(**{kind: reaction})
        E.seterrcall(kind, lambda item: calls.append(item) or 'cb-result')
        out = io.StringIO()
        raised = None
        ret = None
        saved_stdout = E.stdout
        E.stdout = out          # biom.err binds sys.stdout at import time
        try:
            with warnings.catch_warnings(record=True) as w:
                warnings.simplefilter('always')
                try:
                    ret = E.errcheck(t, kind)
                except Exception as e:      # noqa
                    raised = e
        finally:
            E.stdout = saved_stdout
        msg = {'empty': E.EMPTY, 'obssize': E.OBSSIZE, 'sampsize': E.SAMPSIZE, 'obsdup': E.OBSDUP,
               'sampdup': E.SAMPDUP, 'obsmdsize': E.OBSMDSIZE, 'sampmdsize': E.SAMPMDSIZE}[kind]
        obs = {'raised': repr(raised), 'ret': repr(ret)[:60], 'stdout': out.getvalue(), 'warnings': [str(x.message) for x in w],
               'calls': len(calls)}
        if not trig:
            if raised is not None or out.getvalue() or w or calls or ret is not None:
                fails.append(rt.fail('non-triggering/nothing-happens', wcls, 'no effect', obs))
        else:
            exp = {'raise': isinstance(raised, TableException) and raised.args[0] == msg and not out.getvalue() and not w and not calls,
                   'ignore': raised is None and not out.getvalue() and not w and not calls and ret is None,
                   'warn': raised is None and [str(x.message) for x in w] == [msg] and not out.getvalue() and not calls,
                   'print': raised is None and out.getvalue() == msg + '\n' and not w and not calls,
                   'call': raised is None and len(calls) == 1 and calls[0] is t and ret == 'cb-result' and not w and not out.getvalue()}[reaction]
            if not exp:
                fails.append(rt.fail('triggering/%s-is-what-happens' % reaction, wcls, reaction, obs))
    finally:
        _reset()
    return {'fails': fails}


# ---- programs against a reference model of a scoped configuration stack --------------------

OPS = [
    ('seterr', {'obssize': 'ignore'}), ('seterr', {'all': 'warn'}), ('seterr', {'empty': 'raise', 'sampdup': 'print'}),
    ('seterr', {'bogus': 'raise'}), ('seterr', {'obssize': 'explode'}), ('seterr', {'obssize': 'ignore', 'bogus': 'raise'}),
    ('seterr', {'all': 'ignore', 'bogus': 'raise'}), ('seterr', {'all': 'nonsense'}),
    # a valid entry *before* an unknown reaction (a setter that validates while it applies leaves the first one behind)
    ('seterr', {'obssize': 'call', 'empty': 'explode'}), ('seterr', {'all': 'ignore', 'empty': 'loud'}),
    ('enter', {'sampsize': 'print', 'obsdup': 'loud'}),
    ('enter', {'empty': 'raise'}), ('enter', {'all': 'print'}), ('enter', {'bogus': 'ignore'}),
    ('exit', None), ('exit-exc', None),
    ('seterrcall', 'obsdup'), ('seterrcall', 'nokind'),
]


class Model:
    """reference: a profile plus a stack of saved profiles"""
    def __init__(self):
        self.state = dict(DEFAULT)
        self.stack = []

    def seterr(self, kw):
        for k, v in kw.items():
            if v not in REACTIONS or (k != 'all' and k not in KINDS):
                return False
        if 'all' in kw:
            self.state = {k: kw['all'] for k in KINDS}
        else:
            self.state.update(kw)
        return True


def run_program_case(case):
    import biom.err as E
    prog = case['program']
    fails = []
    _reset()
    m = Model()
    stack = []          # real context managers
    wcls = 'program'
    try:
        for step, (op, arg) in enumerate(prog):
            before = dict(m.state)
            if op == 'seterr':
                ok_model = m.seterr(arg)
                try:
                    old = E.seterr(**arg)
                    ok_real = True
                    if old != before:
                        fails.append(rt.fail('seterr/returns-previous-profile', wcls, before, old))
                except KeyError:
                    ok_real = False
                if ok_real != ok_model:
                    fails.append(rt.fail('seterr/unknown-kind-or-reaction-refused', 'program+' + ('all' if 'all' in arg else 'named'),
                                         'refused' if not ok_model else 'accepted', 'accepted' if ok_real else 'refused'))
                    if ok_real:
                        m.state = dict(E.geterr())   # resynchronise so later steps are judged on their own
            elif op == 'enter':
                saved = dict(m.state)
                ok_model = m.seterr(arg)
                cm = E.errstate(**arg)
                try:
                    cm.__enter__()
                    ok_real = True
                except KeyError:
                    ok_real = False
                if ok_real != ok_model:
                    fails.append(rt.fail('errstate/unknown-kind-or-reaction-refused', wcls, ok_model, ok_real))
                    break
                if ok_real:
                    stack.append(cm)
                    m.stack.append(saved)
            elif op in ('exit', 'exit-exc'):
                if not stack:
                    continue
                cm = stack.pop()
                m.state = m.stack.pop()
                if op == 'exit':
                    cm.__exit__(None, None, None)
                else:
                    err = RuntimeError('block failed')
                    try:
                        cm.__exit__(RuntimeError, err, None)
                    except RuntimeError:
                        pass
            elif op == 'seterrcall':
                try:
                    E.seterrcall(arg, _NOOP)
                    ok_real = True
                except KeyError:
                    ok_real = False
                if ok_real != (arg in KINDS):
                    fails.append(rt.fail('seterrcall/unknown-kind-refused', wcls, arg in KINDS, ok_real))
            real = dict(E.geterr())
            if real != m.state:
                fails.append(rt.fail('profile-after-step/%s' % op, wcls + ('+exception-exit' if op == 'exit-exc' else ''),
                                     m.state, real, witness={'program': prog, 'step': step}))
                break
    finally:
        while stack:
            try:
                stack.pop().__exit__(None, None, None)
            except Exception:
                pass
        _reset()
    return {'fails': fails, 'nontrivial': len(prog) > 1}


def run_minv_case(case):
    """the module invariant assumed by the proofs holds on the imported module"""
    import biom.err as E
    from biom.exception import TableException
    ep = getattr(E, '__errprof')
    fails = []
    ok = (set(ep._state) == set(KINDS) == set(ep._test) == set(ep._profile)
          and all(v in REACTIONS for v in ep._state.values())
          and all(set(p) == set(REACTIONS) for p in ep._profile.values()))
    if not ok:
        fails.append(rt.fail('module-invariant/kinds-and-tables', 'minv', KINDS, sorted(ep._state)))
    msgs = {'empty': E.EMPTY, 'obssize': E.OBSSIZE, 'sampsize': E.SAMPSIZE, 'obsdup': E.OBSDUP, 'sampdup': E.SAMPDUP,
            'obsmdsize': E.OBSMDSIZE, 'sampmdsize': E.SAMPMDSIZE}
    for k in KINDS:
        e = ep._profile[k]['raise'](None)
        if not (isinstance(e, TableException) and e.args[0] == msgs[k]):
            fails.append(rt.fail('module-invariant/raise-reaction', 'minv', msgs[k], repr(e)))
    return {'fails': fails, 'n': 1 + len(KINDS)}


def run_constructor_case(case):
    """the constructor / filter / update_ids call sites honour the profile for the kind they can trigger"""
    import biom.err as E
    from biom import Table
    from biom.exception import TableException
    kind, reaction = case['kind'], case['reaction']
    fails = []
    _reset()
    try:
        E.seterr(**{kind: reaction})
        calls = []
        E.seterrcall(kind, lambda item: calls.append(item))
        # inputs triggering exactly that one kind (the *dup tests compare the number of distinct ids with the shape)
        args = {'obssize': ([[1, 2], [3, 4]], ['O1', 'O1', 'O2'], ['S1', 'S2']),
                'sampsize': ([[1, 2], [3, 4]], ['O1', 'O2'], ['S1', 'S1', 'S2']),
                'obsdup': ([[1, 2], [3, 4]], ['O1', 'O1'], ['S1', 'S2']),
                'sampdup': ([[1, 2], [3, 4]], ['O1', 'O2'], ['S1', 'S1'])}[kind]
        out = io.StringIO()
        raised = None
        saved_stdout = E.stdout
        E.stdout = out
        try:
            with warnings.catch_warnings(record=True) as w:
                warnings.simplefilter('always')
                try:
                    Table(np.array(args[0], dtype=float), args[1], args[2])
                except Exception as e:       # noqa
                    raised = e
        finally:
            E.stdout = saved_stdout
        obs = {'raised': repr(raised), 'stdout': out.getvalue(), 'warnings': len(w), 'calls': len(calls)}
        exp = {'raise': isinstance(raised, TableException), 'ignore': raised is None and not out.getvalue() and not w and not calls,
               'warn': raised is None and len(w) == 1, 'print': raised is None and out.getvalue() != '',
               'call': raised is None and len(calls) == 1}[reaction]
        if not exp:
            fails.append(rt.fail('constructor/%s-is-what-happens' % reaction, 'constructor-%s' % kind, reaction, obs))
    finally:
        _reset()
    return {'fails': fails}


def run_empty_site_case(case):
    """operations that validate their result (filter, head, update_ids, the constructor) honour the reaction
    configured for 'empty' when that result is an empty table - and the callback gets the offending table"""
    import biom.err as E
    from biom import Table
    from biom.exception import TableException
    site, reaction = case['site'], case['reaction']
    fails = []
    _reset()
    try:
        t = Table(np.array([[1., 2.], [3., 4.]]), ['O1', 'O2'], ['S1', 'S2'])
        emptied = Table(np.array([[1., 2.], [3., 4.]]), ['O1', 'O2'], ['S1', 'S2'])
        emptied.filter([], axis='sample')
        E.seterr(empty=reaction)
        calls = []
        E.seterrcall('empty', lambda item: calls.append(item))
        out = io.StringIO()
        saved_stdout = E.stdout
        E.stdout = out
        raised = res = None
        try:
            with warnings.catch_warnings(record=True) as w:
                warnings.simplefilter('always')
                try:
                    if site == 'filter-not-inplace':
                        res = t.filter(lambda v, i, md: False, axis='sample', inplace=False)
                    elif site == 'filter-inplace':
                        res = t.filter([], axis='observation', inplace=True)
                    elif site == 'constructor':
                        res = Table(np.zeros((0, 0)), [], [])
                    elif site == 'update_ids':
                        res = emptied.update_ids({'O1': 'P1', 'O2': 'P2'}, axis='observation', inplace=True)
                except Exception as e:      # noqa
                    raised = e
        finally:
            E.stdout = saved_stdout
        obs = {'raised': repr(raised), 'stdout': out.getvalue(), 'warnings': len(w), 'calls': len(calls)}
        exp = {'raise': isinstance(raised, TableException) and raised.args[0] == E.EMPTY,
               'ignore': raised is None and not out.getvalue() and not w and not calls,
               'warn': raised is None and len(w) == 1, 'print': raised is None and out.getvalue() == E.EMPTY + '\n',
               'call': raised is None and len(calls) == 1 and (res is None or calls[0] is res)}[reaction]
        if not exp:
            fails.append(rt.fail('empty-result/%s-is-what-happens' % reaction, 'site-%s' % site, reaction, obs))
    finally:
        _reset()
    return {'fails': fails}


SCOPES = {'result-validation-sites': run_empty_site_case, 'reactions': run_reaction_case, 'programs': run_program_case, 'module-invariant': run_minv_case,
          'constructor-call-site': run_constructor_case}


def reaction_cases():
    for k in KINDS:
        for r in REACTIONS:
            for trig in (False, True):
                yield {'kind': k, 'reaction': r, 'triggering': trig}


def program_cases(tier):
    depth = 3 if tier == 'quick' else 4
    for d in range(1, depth + 1):
        for prog in itertools.product(range(len(OPS)), repeat=d):
            if tier != 'quick' and d == 4 and hash(prog) % 5:
                continue
            yield {'program': [list(OPS[i]) for i in prog]}


def run(rep):
    from props import common
    if 'deductive' in rep.only:
        common.run_deductive(rep, 'C20')
    if 'bounded' in rep.only:
        # the profile is process-global state: run these scopes without forking side effects leaking (each case resets)
        rt.run_scope(rep, 'module-invariant', 'the imported biom.err module', [{}], run_minv_case, procs=1, exhaustive=True)
        rt.run_scope(rep, 'reactions', '7 kinds x 5 reactions x {non-triggering, triggering exactly that kind} via errcheck',
                     reaction_cases(), run_reaction_case, exhaustive=True)
        rt.run_scope(rep, 'constructor-call-site', '4 constructor-triggerable kinds x 5 reactions',
                     ({'kind': k, 'reaction': r} for k in ('obssize', 'sampsize', 'obsdup', 'sampdup') for r in REACTIONS),
                     run_constructor_case, exhaustive=True)
        rt.run_scope(rep, 'result-validation-sites', '{filter not in place, filter in place, constructor, update_ids} producing an '
                     'empty table x 5 reactions for the kind empty',
                     ({'site': st_, 'reaction': r} for st_ in ('filter-not-inplace', 'filter-inplace', 'constructor', 'update_ids')
                      for r in REACTIONS), run_empty_site_case, exhaustive=True)
        rt.run_scope(rep, 'programs', 'all programs over %d operations (seterr incl. all/unknown, errstate enter / exit / '
                     'exit-by-exception, seterrcall) up to depth %d against a scoped-stack reference model'
                     % (len(OPS), 3 if rep.tier == 'quick' else 4), program_cases(rep.tier), run_program_case,
                     exhaustive=rep.tier == 'quick', chunk=256)
    rep.explanation = ('Every function of biom/err.py is verified against its contract (Tier P: no library axioms beyond '
                       'the listed semantics of dict / sorted / contextmanager / warn / stdout.write); the statement of C20 '
                       'is carried by the postconditions of errcheck, seterr, seterrcall and errstate. The bounded scopes are '
                       'the CPython cross-check of the same statements and of the assumed module invariant.')
    common.finish_notes(rep, 'C20')


def replay(case):
    return rt.replay_case('C20', case)
