"""Helpers shared by the bounded contract modules C12, C13, C18, C19
(the "values" group): state enumeration with operation histories, witness
class minimisation, tolerant float comparison, small JSON BIOM files for the
CLI entry points.

Nothing in here looks at a table through a public accessor; tables are built
through the public API only (rt.make_table + public operations for histories).
"""
import itertools
import json
import os

import numpy as np

from pyvc import rt

AXES = ('sample', 'observation')


def other(axis):
    return 'observation' if axis == 'sample' else 'sample'


# --------------------------------------------------------------------------
# operation histories (prior public operations applied to a freshly built
# state; the contract is then evaluated on the table they leave behind)
# --------------------------------------------------------------------------

def _h_sort_rev(axis):
    def h(t):
        ids = [x for x in t.ids(axis=axis)][::-1]
        return t.sort_order(ids, axis=axis)
    return h


def _h_filter_all(axis):
    def h(t):
        t.filter(lambda v, i, md: True, axis=axis, inplace=True)
        return t
    return h


def _h_transform_id(axis):
    def h(t):
        t.transform(lambda v, i, md: v, axis=axis, inplace=True)
        return t
    return h


def _h_iter(axis):
    def h(t):
        for _ in t.iter(axis=axis, dense=False):
            pass
        return t
    return h


def _h_subsample_ids(t):
    # keeps every ID (n = N) but goes through copy + two filters
    return t.subsample(max(1, t.shape[1]), axis='sample', by_id=True, seed=0)


def _h_nnz(t):
    t.nnz
    return t


HISTORIES = {
    'sort_rev_s': _h_sort_rev('sample'),          # constructor path, minor-axis gather: unsorted CSR
    'sort_rev_o': _h_sort_rev('observation'),
    'transpose2': lambda t: t.transpose().transpose(),
    'filter_s': _h_filter_all('sample'),          # in-place, leaves CSC
    'filter_o': _h_filter_all('observation'),     # in-place, leaves CSR
    'transform_s': _h_transform_id('sample'),     # CSC, stored zeros eliminated
    'transform_o': _h_transform_id('observation'),
    'iter_s': _h_iter('sample'),
    'iter_o': _h_iter('observation'),
    'copy': lambda t: t.copy(),
    'nnz': _h_nnz,
    'subsample_ids': _h_subsample_ids,
}

# histories that keep the view (IDs, order, values, metadata) of any table
VIEW_KEEPING = ('transpose2', 'filter_s', 'filter_o', 'transform_s', 'transform_o', 'iter_s', 'iter_o',
                'copy', 'nnz')
# standard history set used by the modules (sort_* reverse the ID order: the
# oracles always work from the view taken *after* the history)
STD_HISTORIES = (['sort_rev_s'], ['sort_rev_o'], ['transpose2'], ['filter_s'], ['transform_o'],
                 ['sort_rev_s', 'filter_o'], ['filter_s', 'sort_rev_o'], ['iter_s', 'nnz'], ['copy', 'iter_o'])


class HistoryError(Exception):
    pass


def build(case):
    """table of a case: state (rt.table_from_case) + optional history"""
    t = rt.table_from_case(case)
    for h in case.get('hist') or ():
        try:
            t = HISTORIES[h](t)
        except Exception as e:      # noqa
            raise HistoryError('%s: %s: %s' % (h, type(e).__name__, e))
    return t


def history_guard(run_case):
    """a prior public operation that raises on a valid table is reported as a
    failed case (clause history/operation-returns), not as a harness crash"""
    def guarded(case):
        try:
            return run_case(case)
        except HistoryError as e:
            return {'fails': [rt.fail('history/operation-returns', base_class(case), 'the prior operation returns',
                                      str(e))], 'n': 1, 'nontrivial': False}
    guarded.__name__ = getattr(run_case, '__name__', 'guarded')
    return guarded


def base_class(case):
    c = rt.state_class(case)
    if case.get('hist'):
        c = ('' if c == 'canonical' else c + '+') + 'hist:' + ','.join(case['hist'])
    return c


_CLASS_CACHE = {}


def classify(case, fails, core, tag='', family=None):
    """Turn ``fails`` = [(clause, expected, observed)] observed on ``case``
    into rt.fail records whose witness class names only the representation
    features the failure *needs*: each feature of the state (history, ID
    alphabet, layout, stored zeros) is dropped in turn and kept dropped when
    the same clause still fails on the simplified case (``core(case)`` returns
    the [(clause, expected, observed)] list).  One root cause that does not
    depend on the representation therefore yields one class ('canonical' +
    tag) instead of one per layout.  ``family`` (clause -> family name) lets a
    randomised operation count "another conjunct of the same family fails on
    the simpler state" as still failing (which conjunct a wrong draw violates
    is a matter of luck)."""
    out = []
    seen = set()
    sig = (tag, case.get('layout', 'csr'), case.get('zeros', 'nz'), case.get('ids', 'plain'),
           tuple(case.get('hist') or ()), bool(np.size(case['A']) and np.min(case['A']) < 0))
    for f in fails:
        clause = f[0]
        if clause in seen:
            continue
        seen.add(clause)
        # the minimisation is done once per (clause, representation signature) and process: a defect that
        # fails on a large part of the scope must not multiply the running time
        if (clause, sig) in _CLASS_CACHE:
            out.append(rt.fail(clause, _CLASS_CACHE[(clause, sig)], f[1], f[2]))
            continue
        simp = dict(case)
        steps = (('hist', None), ('ids', 'plain'), ('layout', 'csr'), ('zeros', 'nz'), ('A', 'abs'))
        for key, val in steps + steps[:1]:      # the history is tried again once the rest is simplified
            cur = simp.get(key) or val
            if cur == val:
                continue
            trial = dict(simp)
            try:
                if key == 'A':
                    # negative values are part of rt.state_class: drop them if the failure does not need them
                    if not np.any(np.asarray(simp['A'], dtype=float) < 0):
                        continue
                    trial['A'] = np.abs(np.asarray(simp['A'], dtype=float)).tolist()
                elif val is None:
                    # drop the history but keep the abstract table it produced
                    trial['A'] = rt.view(build(simp)).A.tolist()
                    trial.pop('shape', None)
                    trial.pop(key, None)
                    if not np.size(trial['A']):
                        continue
                    if trial.get('zeros', 'nz') != 'nz' and not np.any(np.asarray(trial['A']) == 0):
                        trial['zeros'] = 'nz'
                else:
                    trial[key] = val
                got = set(g[0] for g in core(trial))
            except Exception:
                continue
            if clause in got or (family and family(clause) in set(family(g) for g in got)):
                simp = trial
        wc = base_class(simp)
        if tag:
            wc = wc + '+' + tag
        _CLASS_CACHE[(clause, sig)] = wc
        out.append(rt.fail(clause, wc, f[1], f[2]))
    return out


# --------------------------------------------------------------------------
# state enumeration
# --------------------------------------------------------------------------

def rep_states(dm, layouts=rt.LAYOUTS, zeros=rt.ZEROS, **kw):
    """state dicts for one matrix: every layout x every stored-zero mode"""
    dm = np.asarray(dm, dtype=float)
    for lay in layouts:
        for z in zeros:
            if z != 'nz' and not np.any(dm == 0):
                continue
            d = {'A': dm.tolist(), 'layout': lay, 'zeros': z}
            d.update(kw)
            yield d


def small_matrices(tier, values=(0, 1, 2)):
    """every matrix over `values` up to 2x2 (quick: plus every 11th of 2x3/3x2;
    thorough: plus all 2x3/3x2 and every 29th 3x3)"""
    for dm in rt.matrices(0, 0, values=values, shapes=[(1, 1), (1, 2), (2, 1), (2, 2)]):
        yield dm
    step = 11 if tier == 'quick' else 1
    for k, dm in enumerate(rt.matrices(0, 0, values=values, shapes=[(2, 3), (3, 2)])):
        if k % step == 0:
            yield dm
    if tier != 'quick':
        for k, dm in enumerate(rt.matrices(0, 0, values=values, shapes=[(3, 3)])):
            if k % 29 == 0:
                yield dm


# non-square, asymmetric matrices: every row sum, column sum, row/column
# extreme and non-zero count differs from its transposed counterpart
ASYM = [
    np.array([[1., 0., 5.], [2., 0., 0.]]),
    np.array([[0., 3.], [4., 1.], [0., 7.]]),
    np.array([[2., 9., 0., 4.], [0., 1., 6., 0.], [5., 0., 3., 8.]]),
    np.array([[1., 2., 3., 4.]]),
    np.array([[6.], [0.], [2.]]),
    np.array([[0., 0., 1.], [3., 2., 0.], [0., 5., 0.], [7., 0., 0.]]),
    np.array([[0., 0.], [0., 4.], [0., 0.]]),
]


def random_tables(seed, count, max_dim=6, values=(0, 0, 0, 1, 2, 3, 5, 8, 13)):
    rng = np.random.default_rng(seed)
    for _ in range(count):
        r, c = int(rng.integers(1, max_dim + 1)), int(rng.integers(1, max_dim + 1))
        if r == c:
            c = c % max_dim + 1
        yield rng.choice(np.array(values, dtype=float), size=(r, c))


def md_id_variants(quick=True):
    """(ids, obs_md, samp_md) combinations named by the C01 domain"""
    combos = [('plain', 'none', 'none'), ('plain', 'text', 'num'), ('punct', 'tax', 'text'),
              ('nonascii', 'text', 'slash'), ('long', 'num', 'tax'), ('numeric', 'slash', 'text'),
              ('plain', 'tax', 'none'), ('punct', 'none', 'num')]
    return combos if not quick else combos


# --------------------------------------------------------------------------
# comparisons
# --------------------------------------------------------------------------

def close(a, b, rel=1e-12, abs_=0.0):
    """tolerant equality of scalars/arrays (same shape; inf equal to inf; nan never equal)"""
    a = np.asarray(a, dtype=float)
    b = np.asarray(b, dtype=float)
    if a.shape != b.shape:
        return False
    with np.errstate(all='ignore'):
        ok = (a == b) | (np.abs(a - b) <= rel * np.maximum(np.abs(a), np.abs(b)) + abs_)
    return bool(np.all(ok))


def tolist(x):
    return np.asarray(x).tolist()


def call_f(f, *a):
    """run a library function; returns ('ok', value) or ('exc', text)"""
    try:
        return 'ok', f(*a)
    except Exception as e:          # noqa
        return 'exc', '%s: %s' % (type(e).__name__, e)


# --------------------------------------------------------------------------
# BIOM 1.0 JSON files written with the stdlib only (inputs of CLI commands)
# --------------------------------------------------------------------------

def json_biom_text(v, table_type='OTU table'):
    """JSON (format 1.0, sparse) text for a rt.View, built with ``json`` only"""
    A = v.A
    data = [[int(i), int(j), float(A[i, j])] for i in range(A.shape[0]) for j in range(A.shape[1]) if A[i, j] != 0]
    doc = {
        'id': 'None', 'format': 'Biological Observation Matrix 1.0.0',
        'format_url': 'http://biom-format.org', 'type': table_type,
        'generated_by': 'verif', 'date': '2026-01-01T00:00:00',
        'matrix_type': 'sparse', 'matrix_element_type': 'float',
        'shape': [int(A.shape[0]), int(A.shape[1])], 'data': data,
        'rows': [{'id': o, 'metadata': (None if v.obs_md is None else v.obs_md[k])} for k, o in enumerate(v.obs)],
        'columns': [{'id': s, 'metadata': (None if v.samp_md is None else v.samp_md[k])} for k, s in enumerate(v.samp)],
    }
    return json.dumps(doc)


_SHARED = {'dir': None}


class shared_tmp:
    """used by run(): one directory from tempfile.mkdtemp() (outside /repo and
    /verif) for the whole run, created before the workers are forked and
    removed afterwards; removing a directory per case is slow on this file
    system, removing files is not"""
    def __enter__(self):
        import tempfile
        _SHARED['dir'] = tempfile.mkdtemp(prefix='verif_values_')
        return _SHARED['dir']

    def __exit__(self, *a):
        import shutil
        shutil.rmtree(_SHARED['dir'], ignore_errors=True)
        _SHARED['dir'] = None
        return False


class TmpFiles:
    """per-case temporary files: uniquely prefixed files in the run's shared
    directory (or an own mkdtemp directory when a case is replayed alone), all
    removed on exit"""
    _n = 0

    def __enter__(self):
        import tempfile
        self.own = None
        if _SHARED['dir'] and os.path.isdir(_SHARED['dir']):
            self.dir = _SHARED['dir']
        else:
            self.dir = self.own = tempfile.mkdtemp(prefix='verif_values_')
        TmpFiles._n += 1
        self.prefix = '%d_%d_' % (os.getpid(), TmpFiles._n)
        self.paths = []
        return self

    def path(self, name):
        p = os.path.join(self.dir, self.prefix + name)
        self.paths.append(p)
        return p

    def write(self, name, text):
        p = self.path(name)
        with open(p, 'w', encoding='utf-8') as fh:
            fh.write(text)
        return p

    def __exit__(self, *a):
        import shutil
        for p in self.paths:
            try:
                os.unlink(p)
            except OSError:
                pass
        if self.own:
            shutil.rmtree(self.own, ignore_errors=True)
        return False


def every(it, step, offset=0):
    return itertools.islice(it, offset, None, step)
