"""C03 - classic tab-separated export/import round trip preserves IDs and values.

Bounded part (this file).  Contract, evaluated on the real functions:

  text = T.to_tsv([header_key, header_value, formatter])     (also str(T), direct_io form,
                                                              biom.cli.table_converter._convert(..., to_tsv=True))
  T' = import(text)   for import in  Table.from_tsv(list of lines | StringIO | file handle, process_func=inverse),
                                     parse_table(list of lines), load_table(path), load_table(gzip path),
                                     load_table(path) + _convert(..., process_obs_metadata=..., to_hdf5 | to_json)
  ensures  obs(T') = obs(T),  samp(T') = samp(T),  A(T') = A(T) bit for bit,
           and, when a category was exported through a formatter and the import was given the inverse
           processing function, OM(T')[i][header_value] = OM(T)[i][header_key].

Oracle: rt.view of the source table (raw fields).  The files written by `_convert` in the import
direction are read back with raw h5py / the json module, not with biom.
"""
import gzip
import io
import json
import os

import numpy as np

from pyvc import rt
from props import text_util as tu

LEVEL = 'other'

MDCOLS = {
    # kind: (obs_md kind, header_key, formatter for the API, inverse for the API, cli formatter, cli processor)
    'tax': ('tax', 'taxonomy', (lambda x: '; '.join(x)), (lambda s: [e.strip() for e in s.split(';')]),
            'sc_separated', 'taxonomy'),
    'text': ('text', 'grp', str, (lambda s: s), 'naive', 'naive'),
}


def c03_value_tag(A):
    A = np.asarray(A, dtype=float)
    if not A.size or not np.any(A != 0):
        return 'all-zero-matrix'
    if any('e' in repr(float(v)) for v in A.ravel()):
        return 'exponent-notation-values'
    if A.min() < 0:
        return 'negative-values'
    return None


def _state(case):
    c = dict(case)
    mc = case.get('mdcol')
    c['obs_md'] = MDCOLS[mc][0] if mc else 'none'
    return c


def _hv(case):
    mc = case.get('mdcol')
    if not mc:
        return None, None
    key = MDCOLS[mc][1]
    return key, ('Consensus Lineage' if case.get('rename') else key)


def _compare(v, pre, key, hv, md_expected):
    """[(clause-suffix, expected, observed)] of an imported view against the source view"""
    out = []
    if v.obs != pre.obs:
        out.append(('obs-ids', pre.obs, v.obs))
    if v.samp != pre.samp:
        out.append(('samp-ids', pre.samp, v.samp))
    if not tu.bits_equal(v.A, pre.A):
        out.append(('values', pre.A.tolist(), v.A.tolist()))
    if md_expected:
        want = [m[key] for m in pre.obs_md]
        got = None if v.obs_md is None else [m.get(hv, '<absent>') for m in v.obs_md]
        if got is None or not tu.same_md(got, want):
            out.append(('metadata-category', {hv: want}, v.obs_md))
    return out


def _raw_hdf5(path, hv):
    import h5py
    with h5py.File(path, 'r') as f:
        dec = (lambda x: x.decode('utf8') if isinstance(x, bytes) else str(x))
        obs = [dec(x) for x in f['observation/ids'][:]]
        samp = [dec(x) for x in f['sample/ids'][:]]
        g = f['observation/matrix']
        data, idx, ptr = g['data'][:], g['indices'][:], g['indptr'][:]
        A = np.zeros((len(obs), len(samp)))
        for i in range(len(obs)):
            for k in range(ptr[i], ptr[i + 1]):
                A[i, idx[k]] = data[k]
        md = None
        if hv is not None and 'observation/metadata/' + hv in f:
            ds = f['observation/metadata/' + hv][:]
            if ds.ndim == 2:
                md = [{hv: [dec(x) for x in row if len(x)]} for row in ds]
            else:
                md = [{hv: dec(x)} for x in ds]
    return obs, samp, A, md


def _raw_json(path, hv):
    with io.open(path, encoding='utf-8') as fh:
        doc = json.load(fh)
    obs = [r['id'] for r in doc['rows']]
    samp = [c['id'] for c in doc['columns']]
    A = np.zeros(tuple(doc['shape']))
    for r, c, v in doc['data']:
        A[r, c] = v
    md = [r['metadata'] for r in doc['rows']]
    if all(m is None for m in md):
        md = None
    return obs, samp, A, md


class _V:
    def __init__(self, obs, samp, A, md):
        self.obs, self.samp, self.A, self.obs_md = obs, samp, A, md


FORMS = ('api-lines', 'api-lines-keepends', 'api-stringio', 'api-file-handle', 'parse_table-lines',
         'load_table-path', 'load_table-gzip-path', 'str-lines', 'directio-path', 'cli-export-path',
         'cli-roundtrip-hdf5', 'cli-roundtrip-json-gzip-input')


def _core(case):
    import biom
    from biom import Table
    from biom.cli.table_converter import _convert
    st = _state(case)
    cls = tu.wclass(st, vtag=c03_value_tag)
    t = tu.build(st)
    pre = rt.view(t)
    if 0 in pre.A.shape:
        return [], 0, False
    if rt.inv(t):
        return [rt.fail('pre/Inv', cls, [], rt.inv(t))], 1, False
    mc = case.get('mdcol')
    key, hv = _hv(case)
    fmt, inverse, cli_fmt, cli_proc = (MDCOLS[mc][2:] if mc else (str, (lambda s: s), 'sc_separated', None))
    fails = []
    results = {}          # form -> [(suffix, exp, obs)]
    n = 0

    def guarded(form, fn):
        nonlocal n
        n += 1
        try:
            results[form] = fn()
        except Exception as e:
            results[form] = [('no-exception', 'round trip succeeds', '%s: %s' % (type(e).__name__, str(e)[:200]))]

    with tu.tmpdir() as d:
        # ---- export through the Python API ---------------------------------------
        text = None
        try:
            text = t.to_tsv(header_key=key, header_value=hv, metadata_formatter=fmt) if mc else t.to_tsv()
        except Exception as e:
            fails.append(rt.fail('export/no-exception', cls, 'TSV text', '%s: %s' % (type(e).__name__, str(e)[:200])))
        if text is not None:
            path = os.path.join(d, 'api.tsv')
            with io.open(path, 'w', encoding='utf-8', newline='') as fh:
                fh.write(text)
            gz = os.path.join(d, 'api.tsv.gz')
            with gzip.open(gz, 'wb') as fh:
                fh.write(text.encode('utf-8'))
            md_api = bool(mc)                       # inverse supplied
            md_load = mc == 'text'                  # load_table uses the identity, inverse of the naive formatter
            guarded('api-lines', lambda: _compare(rt.view(Table.from_tsv(text.split('\n'), None, None, inverse)),
                                                  pre, key, hv, md_api))
            guarded('api-lines-keepends', lambda: _compare(
                rt.view(Table.from_tsv([ln + '\n' for ln in text.split('\n')], None, None, inverse)), pre, key, hv, md_api))
            guarded('api-stringio', lambda: _compare(rt.view(Table.from_tsv(io.StringIO(text), None, None, inverse)),
                                                     pre, key, hv, md_api))

            def via_handle():
                with io.open(path, encoding='utf-8') as fh:
                    return _compare(rt.view(Table.from_tsv(fh, None, None, inverse)), pre, key, hv, md_api)
            guarded('api-file-handle', via_handle)
            guarded('parse_table-lines', lambda: _compare(rt.view(biom.parse_table(text.split('\n'))), pre, key, hv, md_load))
            guarded('load_table-path', lambda: _compare(rt.view(biom.load_table(path)), pre, key, hv, md_load))
            guarded('load_table-gzip-path', lambda: _compare(rt.view(biom.load_table(gz)), pre, key, hv, md_load))
        # ---- str(T): the default export --------------------------------------------
        if not mc:
            def via_str():
                s = str(tu.build(st))
                return _compare(rt.view(Table.from_tsv(s.split('\n'), None, None, inverse)), pre, key, hv, False)
            guarded('str-lines', via_str)

        # ---- direct_io export ------------------------------------------------------
        def via_directio():
            p = os.path.join(d, 'dio.tsv')
            t2 = tu.build(st)
            with io.open(p, 'w', encoding='utf-8', newline='') as fh:
                if mc:
                    t2.to_tsv(header_key=key, header_value=hv, metadata_formatter=fmt, direct_io=fh)
                else:
                    t2.to_tsv(direct_io=fh)
            return _compare(rt.view(biom.load_table(p)), pre, key, hv, mc == 'text')
        guarded('directio-path', via_directio)

        # ---- biom convert: export, then import with the inverse processing ----------
        cli_tsv = os.path.join(d, 'cli.tsv')
        exported = []

        def cli_export():
            t3 = tu.build(st)
            _convert(t3, cli_tsv, to_tsv=True, header_key=key, output_metadata_id=(hv if case.get('rename') else None),
                     tsv_metadata_formatter=cli_fmt)
            exported.append(True)
            return _compare(rt.view(biom.load_table(cli_tsv)), pre, key, hv, mc == 'text')
        guarded('cli-export-path', cli_export)
        if exported:
            def cli_rt(out_fmt, gz_in):
                src = cli_tsv
                if gz_in:
                    src = cli_tsv + '.gz'
                    with io.open(cli_tsv, 'rb') as a, gzip.open(src, 'wb') as b:
                        b.write(a.read())
                t4 = biom.load_table(src)
                out = os.path.join(d, 'out.' + out_fmt)
                _convert(t4, out, to_hdf5=(out_fmt == 'hdf5'), to_json=(out_fmt == 'json'),
                         process_obs_metadata=cli_proc)
                res = _compare(rt.view(t4), pre, key, hv, bool(mc))
                raw = (_raw_hdf5 if out_fmt == 'hdf5' else _raw_json)(out, hv)
                res += [('written-file-' + c, e, o) for (c, e, o) in _compare(_V(*raw), pre, key, hv, bool(mc))]
                return res
            guarded('cli-roundtrip-hdf5', lambda: cli_rt('hdf5', False))
            guarded('cli-roundtrip-json-gzip-input', lambda: cli_rt('json', True))

        # ---- the `biom convert` command function itself (option parsing and forwarding included) ----------
        if case.get('command'):
            from biom.cli.table_converter import convert as convert_cmd
            from biom.util import biom_open

            def run_cmd(args):
                try:
                    convert_cmd.main(list(args), standalone_mode=False)
                except SystemExit as e:
                    if e.code not in (0, None):
                        raise RuntimeError('biom convert exited with %r' % (e.code,))

            def command_roundtrip():
                src = os.path.join(d, 'cmd_in.biom')
                with biom_open(src, 'w') as fh:
                    tu.build(st).to_hdf5(fh, 'verif')
                tsv = os.path.join(d, 'cmd.tsv')
                args = ['-i', src, '-o', tsv, '--to-tsv']
                if mc:
                    args += ['--header-key', key, '--tsv-metadata-formatter', cli_fmt]
                    if case.get('rename'):
                        args += ['--output-metadata-id', hv]
                run_cmd(args)
                res = _compare(rt.view(biom.load_table(tsv)), pre, key, hv, mc == 'text')
                back = os.path.join(d, 'cmd_back.biom')
                args = ['-i', tsv, '-o', back, '--to-hdf5']
                if mc and cli_proc:
                    args += ['--process-obs-metadata', cli_proc]
                run_cmd(args)
                raw = _raw_hdf5(back, hv)
                res += [('written-file-' + c, e, o) for (c, e, o) in _compare(_V(*raw), pre, key, hv, bool(mc))]
                return res
            guarded('command-roundtrip', command_roundtrip)

    clauses = {}
    for form, res in results.items():
        for (c, exp, obs) in res:
            clauses.setdefault(c, []).append((form, exp, obs))
    for c, lst in clauses.items():
        if not c.startswith('written-file-') and len(lst) >= len(results) - 0 and len(results) > 3:
            fails.append(rt.fail('import/' + c, cls, lst[0][1], {'every import form, e.g. ' + lst[0][0]: lst[0][2]}))
        else:
            for (form, exp, obs) in lst:
                extra = ''
                if c == 'written-file-values' and form.startswith('cli-roundtrip-json') and \
                        tu.value_tag(pre.A) == 'value-needs-more-than-6-decimals':
                    extra = '+json-writer-6-decimals'
                fails.append(rt.fail('import/' + c, cls + '+form-' + form + extra, exp, obs))
    return fails, n, bool(np.any(pre.A != 0))


def _form_tag(f, mc):
    return [p for p in f['wclass'].split('+') if p.startswith('form-') or p == 'json-writer-6-decimals']


C03_DEFAULTS = (('A', tu.PLAIN_MATRIX), ('history', []), ('layout', 'csr'), ('zeros', 'nz'), ('ids', 'plain'), ('rename', False), ('mdcol', None))


def _wclass_case(c):
    return _state(c)


def run_tsv_case(case):
    fails, n, nontrivial = _core(case)
    if fails:
        cache = {}
        out = []
        for f in fails:
            mcase = tu.minimise(case, f['clause'], lambda c: _core(c)[0], C03_DEFAULTS, cache)
            f = dict(f)
            extra = _form_tag(f, mcase)
            if mcase.get('mdcol'):
                extra = ['mdcol-' + mcase['mdcol']] + extra
            st = _state(mcase)
            st['obs_md'] = 'none'
            vt = (lambda A: None) if 'json-writer-6-decimals' in extra else c03_value_tag
            f['wclass'] = tu.wclass(st, *extra, vtag=vt)
            if mcase != case:
                f['witness'] = mcase
            out.append(f)
        fails = out
    return {'fails': fails, 'nontrivial': nontrivial, 'n': n}


SCOPES = {'tsv': run_tsv_case}

BASES = [[[1.0, 0.0, 2.0], [0.0, 3.0, 0.0], [4.0, 5.0, 0.0]],
         [[0.0, 2.0], [1.0, 1.0], [0.0, 0.0]],
         [[7.0]],
         [[0.5, 0.25, 0.0, 8.0]],
         [[1.5], [0.0], [2.0]]]
ID_KINDS = ('plain', 'punct', 'nonascii', 'long', 'numeric', 'tsvodd')
HISTORIES = (['sort_samples_rev'], ['sort_obs_rev'], ['subsample'], ['transpose'], ['filter_first_sample'],
             ['halve'], ['read_obs'], ['sort_samples_rev', 'subsample'], ['subsample', 'sort_samples_rev'])


def cases(tier, seed=0):
    quick = tier == 'quick'
    for k, st in enumerate(tu.matrix_states(tier)):
        yield st
        if k % 4 == 0:
            yield dict(st, mdcol=('tax', 'text')[(k // 4) % 2], rename=bool((k // 8) % 2))
    for dm in tu.value_matrices():
        for lay in rt.LAYOUTS:
            yield {'A': dm.tolist(), 'layout': lay, 'zeros': 'z1' if np.any(dm == 0) and lay == 'csc' else 'nz'}
        yield {'A': dm.tolist(), 'layout': 'csr', 'zeros': 'nz', 'mdcol': 'tax'}
    for bi, A in enumerate(BASES):
        for ids in ID_KINDS:
            for lay in rt.LAYOUTS:
                for mc in (None, 'tax', 'text'):
                    # one layout per combination also goes through the `biom convert` command function itself
                    yield {'A': A, 'layout': lay, 'zeros': 'z1' if bi < 2 else 'nz', 'ids': ids, 'mdcol': mc,
                           'rename': bool(bi % 2) and mc is not None, 'command': lay == 'csr'}
    for bi, A in enumerate(BASES[:2] + [[[3.0, 0.0, 1.0], [2.0, 2.0, 0.0]]]):
        for h in HISTORIES:
            for lay in (rt.LAYOUTS if not quick else (rt.LAYOUTS[bi % 3],)):
                # (transpose swaps the axes' metadata: only without an exported category)
                yield {'A': A, 'layout': lay, 'zeros': 'nz', 'history': h,
                       'mdcol': None if 'transpose' in h else (None, 'tax', 'text')[bi]}
    if not quick:
        rng = np.random.default_rng(2000 + int(seed))
        for k in range(3000):
            A = tu.random_matrix(rng)
            c = {'A': A.tolist(), 'layout': rt.LAYOUTS[int(rng.integers(0, 3))],
                 'zeros': rt.ZEROS[int(rng.integers(0, 3))] if np.any(A == 0) else 'nz'}
            if rng.random() < 0.5:
                c['ids'] = ID_KINDS[int(rng.integers(0, len(ID_KINDS)))]
            if rng.random() < 0.4:
                c['mdcol'] = ('tax', 'text')[int(rng.integers(0, 2))]
                c['rename'] = bool(rng.integers(0, 2))
            if rng.random() < 0.2 and min(A.shape) > 1:
                c['history'] = [['sort_samples_rev'], ['sort_obs_rev'], ['transpose'], ['read_obs']][int(rng.integers(0, 4))]
                if 'transpose' in c['history']:
                    c.pop('mdcol', None)
                    c.pop('rename', None)
            yield c


def run(rep):
    from props import common
    if 'deductive' in rep.only:
        common.run_deductive(rep, 'C03')
    if 'bounded' in rep.only:
        q = rep.tier == 'quick'
        bound = ('every matrix over {0,1,2} up to %s x layout x stored zeros (every 4th also with an exported '
                 'metadata column); value-stress matrices (exponent notation both ways, subnormal, max double, '
                 '1/3, negative) x layouts; ID alphabets {plain, punct/space, nonascii, 300 chars, numeric-looking, '
                 'odd: quotes, backslash, inner #, nan/inf/1e5 as IDs} x {no metadata column, hierarchical list '
                 'joined with "; ", plain text category} x renamed column or not; single-row / single-column '
                 'tables; histories before export%s; each case: to_tsv / str / direct_io / _convert export x '
                 'from_tsv(lines | keepends | StringIO | file handle), parse_table(lines), load_table(path | gzip '
                 'path), load_table + _convert(--process-obs-metadata) to HDF5 and JSON (raw read-back)'
                 % ('2x2 (+ every 7th of 2x3, 3x2)' if q else '2x3/3x2 (+ every 5th of 3x3)',
                    '' if q else '; 3000 seeded random tables up to 6x6 over all finite doubles'))
        rt.run_scope(rep, 'tsv', bound, cases(rep.tier, rep.seed), run_tsv_case, exhaustive=q, chunk=16)
        rep.trust('shortest-repr float formatting of numpy/CPython: float(str(x)) == x for finite doubles',
                  'gzip / utf-8 codecs; raw h5py and json for reading the files written by _convert')
    common.finish_notes(rep, 'C03')


def replay(case):
    return rt.replay_case('C03', case)
