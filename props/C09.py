"""C09 - Merge is the pointwise sum over the union/intersection of IDs.

Bounded part: the contract of Table.merge evaluated on the real function for
pairs (and, for the list form, k-tuples) of small tables whose ID sets are
disjoint / nested / partial / identical / permuted per axis, all four
union/intersection modes, metadata on neither/either/both operands, default
(prefer_self) / custom / None metadata functions, every operand layout
(rt.LAYOUTS x rt.ZEROS) and prior histories.  Oracle: dense dictionaries keyed
by (observation id, sample id) built from raw views (props/combine_util.py).
"""
import math
import random

from pyvc import rt
from props import combine_util as cu

LEVEL = 'other'
MODES = ('union', 'intersection')

# per-axis ID position lists of (receiver, other)
PAIR_PATTERNS = {
    'identical': ([0, 1], [0, 1]),
    'permuted': ([0, 1, 2], [2, 0, 1]),
    'disjoint': ([0, 1], [2, 3]),
    'nested': ([0, 1, 2], [1]),
    'nested_rev': ([1], [2, 1, 0]),
    'partial': ([0, 1], [1, 2]),
    'partial_perm': ([1, 0], [3, 1, 2]),
}
TUPLE_PATTERNS = {          # receiver + list of others
    'identical': ([0, 1], [0, 1], [0, 1]),
    'permuted': ([0, 1, 2], [2, 0, 1], [1, 2, 0]),
    'disjoint': ([0], [1, 2], [3]),
    'nested': ([0, 1, 2], [1, 2], [2]),
    'partial': ([0, 1], [1, 2], [2, 3]),
    'four': ([0, 1], [1, 2], [3, 0], [2]),
    'one_other': ([0, 1], [1, 2]),
}
# (receiver obs md, receiver sample md, other obs md, other sample md)
MD_CONFIGS = {
    'neither': ('none', 'none', 'none', 'none'),
    'self': ('text', 'text', 'none', 'none'),
    'other': ('none', 'none', 'text', 'text'),
    'both': ('text', 'text', 'text', 'text'),
    'self_obs_other_samp': ('num', 'none', 'none', 'slash'),
    'self_samp_other_obs': ('none', 'tax', 'tax', 'none'),
}
F_CONFIGS = ('default', 'custom', 'none_none', 'none_samp', 'none_obs')
# (layout, zeros, history) assignments for (receiver, other); the quick tier
# rotates through them, the thorough tier crosses them with everything
_LZ = [(l, z) for l in rt.LAYOUTS for z in rt.ZEROS]
REPRS = []
for k, (l, z) in enumerate(_LZ):
    l2, z2 = _LZ[(k * 2 + 3) % len(_LZ)]
    REPRS.append(((l, z, 'none'), (l2, z2, 'none')))
REPRS += [(('csr', 'nz', 'sort_rev'), ('csr', 'z1', 'filter_all')),
          (('csc', 'zall', 'transpose2'), ('csr_unsorted', 'nz', 'sort_rev')),
          (('csr_unsorted', 'z1', 'nnz'), ('csc', 'zall', 'nnz')),
          (('csr', 'zall', 'filter_all'), ('csr', 'nz', 'transpose2'))]
ALL_REPRS = [((l, z, 'none'), (l2, z2, 'none')) for (l, z) in _LZ for (l2, z2) in _LZ] + REPRS[len(_LZ):]
ID_KINDS = ('plain', 'punct', 'nonascii', 'long', 'numeric', 'natlex')


def custom_f(a, b):
    """a metadata merge function that looks at both arguments"""
    def show(m):
        return None if m is None else str(sorted((str(k), str(v)) for k, v in dict(m).items()))
    if a is None and b is None:
        return None             # nothing to merge
    return {'s': show(a), 'o': show(b), 'both': a is not None and b is not None}


def _functions(fcfg):
    """-> (sample_metadata_f, observation_metadata_f, kwargs)"""
    from biom.util import prefer_self
    if fcfg == 'default':
        return prefer_self, prefer_self, {}
    if fcfg == 'custom':
        return custom_f, custom_f, {'sample_metadata_f': custom_f, 'observation_metadata_f': custom_f}
    if fcfg == 'none_none':
        return None, None, {'sample_metadata_f': None, 'observation_metadata_f': None}
    if fcfg == 'none_samp':
        return None, custom_f, {'sample_metadata_f': None, 'observation_metadata_f': custom_f}
    if fcfg == 'none_obs':
        return prefer_self, None, {'observation_metadata_f': None}
    raise ValueError(fcfg)


def _default_policy(a, b):
    """the statement's default: the receiver's if it has any, otherwise the other's"""
    return a if a is not None else b


def expected_path(case):
    """path-selection predicate of the property's anchor as it was when the
    defects were found (receiver without metadata, or both functions None,
    under union/union).  It only labels the call configuration in the witness
    class (so a re-introduced defect prints the class recorded in
    C09_findings.md); it never decides the expected result."""
    s = case['ops'][0]
    no_md = s.get('omd', 'none') == 'none' and s.get('smd', 'none') == 'none'
    ignore = case['f'] == 'none_none'
    return 'fast-path' if (no_md or ignore) and case['sample'] == 'union' and case['observation'] == 'union' \
        else 'general-path'


def _tag(case):
    tag = expected_path(case)
    if tag == 'general-path':
        if case['f'] in ('none_none', 'none_samp', 'none_obs'):
            tag += '+md-f-none'
        if case.get('form') == 'list':
            tag += '+list-form'
    return tag


def _sclass(case):
    return cu.multi_state_class(case)


def _combine_ids(lists, mode):
    out = []
    for ids in lists:
        for x in ids:
            if x not in out:
                out.append(x)
    if mode == 'intersection':
        out = [x for x in out if all(x in ids for ids in lists)]
    return out


def merge_core(case):
    ops = cu.build_operands(case)
    wcls = cu.join_class(_sclass(case), _tag(case))
    views = [rt.view(t) for t in ops]
    for t in ops:
        bad = rt.inv(t)
        if bad:
            return [rt.fail('pre/Inv', wcls, [], bad)], False
    f_s, f_o, kwargs = _functions(case['f'])
    other = ops[1:] if case.get('form') == 'list' else ops[1]
    exp_obs = _combine_ids([v.obs for v in views], case['observation'])
    exp_samp = _combine_ids([v.samp for v in views], case['sample'])
    empty = not exp_obs or not exp_samp
    try:
        res = ops[0].merge(other, sample=case['sample'], observation=case['observation'], **kwargs)
    except Exception as e:
        if empty:
            return [], False        # nothing to yield; refusing is within the statement
        return [rt.fail('no-exception', wcls, 'merge returns the merged table',
                        '%s: %s' % (type(e).__name__, e))], True
    out = rt.view(res)
    fails = []
    for name, got, want in (('ids/observation', out.obs, exp_obs), ('ids/sample', out.samp, exp_samp)):
        if sorted(got) != sorted(want):
            fails.append(rt.fail(name, wcls, sorted(want), sorted(got)))
    if fails:
        return fails, True
    maps = [cu.cellmap(v) for v in views]
    exact = cu.is_dyadic(x for m in maps for x in m.values())
    want = {}
    for o in exp_obs:
        for s in exp_samp:
            acc = 0.0
            for m in maps:
                acc = acc + m.get((o, s), 0.0)
            want[(o, s)] = acc
    bad = cu.compare_cells(cu.cellmap(out), want, exact=exact or len(ops) == 2)
    if bad:
        fails.append(rt.fail('values', wcls, [(list(k), w) for k, w, g in bad], [(list(k), g) for k, w, g in bad]))
    if case['sample'] == 'union' and case['observation'] == 'union':
        try:
            t_want = math.fsum(cu.total(v) for v in views)
        except OverflowError:
            t_want = float('inf')
        t_got = cu.total(out)
        if exact:
            ok = t_got == t_want
        elif math.isinf(t_want) or math.isinf(t_got):
            ok = repr(t_want) == repr(t_got)
        else:
            ok = math.isclose(t_got, t_want, rel_tol=1e-9)
        if not ok:
            fails.append(rt.fail('grand-total', wcls, t_want, t_got))
    # metadata: f(receiver's, other's) per ID - only defined for the pair form;
    # the list form is only used with metadata-free operands or f = None
    from biom.util import prefer_self
    md_bad = []
    for axis, f, ids in (('observation', f_o, exp_obs), ('sample', f_s, exp_samp)):
        if f is None:
            continue
        spec_f = _default_policy if f is prefer_self else f
        got = cu.md_of(out, axis)
        mds = [cu.md_of(v, axis) for v in views]
        for x in ids:
            if len(views) == 2:
                w = spec_f(mds[0].get(x), mds[1].get(x))
            else:
                w = None
                for m in mds:
                    w = spec_f(w, m.get(x))
            if not cu.md_same(got.get(x), w):
                md_bad.append((axis, x, w, got.get(x)))
    if md_bad:
        fails.append(rt.fail('metadata', wcls, [(a, x, w) for a, x, w, g in md_bad[:4]],
                             [(a, x, g) for a, x, w, g in md_bad[:4]]))
    bad = rt.inv(res)
    if bad:
        fails.append(rt.fail('post/Inv', wcls, [], bad))
    nontrivial = True
    return fails, nontrivial


def _merge_fails(case):
    return merge_core(case)[0]


def run_merge_case(case):
    fails, nontrivial = merge_core(case)
    fails = cu.minimise_classes(case, fails, _merge_fails, _sclass)
    return {'fails': fails, 'nontrivial': nontrivial, 'n': 1}


def agree_core(case):
    """the fast path (metadata-free union/union) gives the same values and ID
    sets as the general path (forced by giving the receiver metadata)"""
    wcls = cu.join_class(_sclass(case), 'fast-vs-general')
    fast_ops = cu.build_operands(case)
    gcase = dict(case, ops=[dict(case['ops'][0], omd='text', smd='text')] + case['ops'][1:])
    gen_ops = cu.build_operands(gcase)
    try:
        r_fast = fast_ops[0].merge(fast_ops[1])
        r_gen = gen_ops[0].merge(gen_ops[1])
    except Exception as e:
        return [rt.fail('no-exception', wcls, 'both merges return', '%s: %s' % (type(e).__name__, e))]
    vf, vg = rt.view(r_fast), rt.view(r_gen)
    fails = []
    if sorted(vf.obs) != sorted(vg.obs) or sorted(vf.samp) != sorted(vg.samp):
        fails.append(rt.fail('id-sets-agree', wcls, [sorted(vg.obs), sorted(vg.samp)], [sorted(vf.obs), sorted(vf.samp)]))
    else:
        bad = cu.compare_cells(cu.cellmap(vf), cu.cellmap(vg), exact=True)
        if bad:
            fails.append(rt.fail('values-agree', wcls, [(list(k), w) for k, w, g in bad],
                                 [(list(k), g) for k, w, g in bad]))
    return fails


def run_agree_case(case):
    fails = cu.minimise_classes(case, agree_core(case), agree_core, _sclass)
    return {'fails': fails, 'nontrivial': True, 'n': 2}


SCOPES = {'merge': run_merge_case, 'merge-paths-agree': run_agree_case}


# --------------------------------------------------------------------------
# case enumeration
# --------------------------------------------------------------------------

def _pair_ops(po, ps, mdc, rep, salt):
    (o1, o2), (s1, s2) = PAIR_PATTERNS[po], PAIR_PATTERNS[ps]
    md = MD_CONFIGS[mdc]
    (l1, z1, h1), (l2, z2, h2) = rep
    return [cu.operand(o1, s1, salt, l1, z1, md[0], md[1], h1),
            cu.operand(o2, s2, salt + 1, l2, z2, md[2], md[3], h2)]


def merge_cases(tier):
    quick = tier == 'quick'
    n = 0
    for po in PAIR_PATTERNS:
        for ps in PAIR_PATTERNS:
            for mdc in MD_CONFIGS:
                for fc in F_CONFIGS:
                    for ms in MODES:
                        for mo in MODES:
                            if quick:
                                reps = [REPRS[(n + 4 * j) % len(REPRS)] for j in range(3)]
                                kinds = [ID_KINDS[(n // 3) % len(ID_KINDS)]]
                            else:
                                reps = REPRS + [ALL_REPRS[(n * 5 + j) % len(ALL_REPRS)] for j in range(8)]
                                kinds = [ID_KINDS[n % len(ID_KINDS)], ID_KINDS[(n // 5 + 2) % len(ID_KINDS)]]
                            for rep in reps:
                                for kind in kinds:
                                    yield {'ops': _pair_ops(po, ps, mdc, rep, n % 11), 'ids': kind, 'form': 'single',
                                           'sample': ms, 'observation': mo, 'f': fc,
                                           'pattern': [po, ps], 'md': mdc}
                            n += 1
    if not quick:
        # every pair of representations x every overlap pattern on a reduced md/f product
        n = 0
        for po in PAIR_PATTERNS:
            for ps in PAIR_PATTERNS:
                for rep in ALL_REPRS:
                    for mdc, fc in (('neither', 'default'), ('both', 'default'), ('other', 'custom')):
                        for ms in MODES:
                            for mo in MODES:
                                n += 1
                                yield {'ops': _pair_ops(po, ps, mdc, rep, n % 13), 'ids': ID_KINDS[n % len(ID_KINDS)],
                                       'form': 'single', 'sample': ms, 'observation': mo, 'f': fc,
                                       'pattern': [po, ps], 'md': mdc}


def list_cases(tier):
    quick = tier == 'quick'
    n = 0
    for po, obs in TUPLE_PATTERNS.items():
        for ps, samp in TUPLE_PATTERNS.items():
            if len(obs) != len(samp):
                continue
            for mdc, fc in (('neither', 'default'), ('neither', 'none_none'), ('both', 'none_none'),
                            ('other', 'none_none')):
                for ms in MODES:
                    for mo in MODES:
                        if (ms, mo) != ('union', 'union') and fc == 'none_none':
                            # None functions outside union/union are exercised in the pair scope
                            continue
                        reps = [REPRS[(n + j) % len(REPRS)] for j in range(1 if quick else len(REPRS))]
                        for rep in reps:
                            n += 1
                            ops = []
                            for k in range(len(obs)):
                                l, z, h = rep[k % 2] if k < 2 else REPRS[(n + k) % len(REPRS)][0]
                                has_md = mdc == 'both' or (mdc == 'other' and k > 0)
                                ops.append(cu.operand(obs[k], samp[k], n + k, l, z,
                                                      'text' if has_md else 'none', 'num' if has_md else 'none', h))
                            yield {'ops': ops, 'ids': ID_KINDS[n % len(ID_KINDS)], 'form': 'list',
                                   'sample': ms, 'observation': mo, 'f': fc, 'pattern': [po, ps], 'md': mdc}


def stress_cases(tier):
    mats = [m for m in rt.stress_matrices()]
    n = 0
    for a in mats:
        for b in mats:
            for shift in (0, 1, 3):
                for lay in rt.LAYOUTS:
                    for ms in MODES:
                        for mo in MODES:
                            for mdc in ('neither', 'self'):
                                n += 1
                                md = MD_CONFIGS[mdc]
                                if shift == 3 and 'intersection' in (ms, mo):
                                    continue
                                ops = [cu.operand(range(a.shape[0]), range(a.shape[1]), 0, lay, 'nz', md[0], md[1],
                                                  'none', A=a.tolist()),
                                       cu.operand([shift + k for k in range(b.shape[0])],
                                                  [(shift + k) % cu.POOL for k in range(b.shape[1])][::-1], 0,
                                                  rt.LAYOUTS[n % 3], 'z1', 'none', 'none', 'none', A=b.tolist())]
                                yield {'ops': ops, 'ids': 'plain', 'form': 'single', 'sample': ms, 'observation': mo,
                                       'f': 'default', 'pattern': ['stress', shift], 'md': mdc}


def agree_cases(tier):
    quick = tier == 'quick'
    n = 0
    for po in PAIR_PATTERNS:
        for ps in PAIR_PATTERNS:
            for rep in (REPRS if quick else ALL_REPRS):
                for salt in ((0,) if quick else (0, 1, 2)):
                    n += 1
                    yield {'ops': _pair_ops(po, ps, 'neither', rep, n % 17 + salt), 'ids': ID_KINDS[n % len(ID_KINDS)],
                           'form': 'single', 'sample': 'union', 'observation': 'union', 'f': 'default',
                           'pattern': [po, ps], 'md': 'neither'}


RANDOM_VALUES = (0, 0, 0, 1, 2, 3, 7, 0.5, 0.25, -1, -4, 1024)


def random_cases(seed, n):
    """seeded sample of the full product with tables up to 6 x 6"""
    rnd = random.Random(seed)
    lz = [(l, z) for l in rt.LAYOUTS for z in rt.ZEROS]
    for _ in range(n):
        k = rnd.choice([2, 2, 2, 2, 3, 4])
        form = 'list' if k > 2 or rnd.random() < 0.15 else 'single'
        ms, mo = rnd.choice(MODES), rnd.choice(MODES)
        if form == 'list':
            if rnd.random() < 0.5:
                fc, with_md = 'default', False
            else:
                fc, with_md, ms, mo = 'none_none', True, 'union', 'union'
        else:
            fc, with_md = rnd.choice(F_CONFIGS), True
        ops = []
        for j in range(k):
            obs = rnd.sample(range(cu.POOL), rnd.randint(1, cu.POOL))
            samp = rnd.sample(range(cu.POOL), rnd.randint(1, cu.POOL))
            A = [[float(rnd.choice(RANDOM_VALUES)) for _ in samp] for _ in obs]
            l, z = rnd.choice(lz)
            kinds = ('none', 'none', 'text', 'num', 'tax', 'slash') if with_md else ('none',)
            ops.append(cu.operand(obs, samp, 0, l, z, rnd.choice(kinds), rnd.choice(kinds),
                                  rnd.choice(cu.HISTORIES), A=A))
        yield {'ops': ops, 'ids': rnd.choice(ID_KINDS), 'form': form, 'sample': ms, 'observation': mo, 'f': fc,
               'pattern': ['random', 'random'], 'md': 'random'}


def run(rep):
    from props import common
    if 'deductive' in rep.only:
        common.run_deductive(rep, 'C09')
    if 'bounded' in rep.only:
        q = rep.tier == 'quick'
        nrand = 1500 if q else 40000
        # one scope for everything that evaluates the merge contract, so that one root cause is one
        # (obligation, class) group whichever generator meets it
        parts = [('pairs', list(merge_cases(rep.tier))), ('list-form', list(list_cases(rep.tier))),
                 ('value-stress', list(stress_cases(rep.tier))), ('random', list(random_cases(rep.seed, nrand)))]
        rt.run_scope(rep, 'merge',
                     'pairs: 7x7 per-axis ID overlap patterns (identical, permuted, disjoint, nested both ways, partial, '
                     'partial+permuted) x 4 union/intersection modes x 6 metadata placements x {prefer_self, custom, '
                     'None/None, None for samples only, None for observations only} x operand representations '
                     '(%s) x ID alphabets (rotating).  list form: receiver + 1..3 others, 5 overlap patterns per axis, '
                     'metadata-free operands with default functions under all 4 modes, operands with metadata under '
                     'None/None (union/union).  value stress: pairs of stress matrices (negative, 1/3, 1e-7, 1e22, 5e-324, '
                     'max double) with shifted ID sets x layouts x 4 modes x receiver with/without metadata.  random: seeded '
                     '(VERIF_SEED=%d) 2..4 operands up to 6x6 with random ID subsets/orders, integer / dyadic / negative '
                     'values, layouts, stored zeros, histories, metadata kinds, functions, modes.  cases: %s' % (
                         '3 of 13 (layout, stored zeros, history) pairs, rotating' if q else
                         '13 fixed + 8 rotating of all 81 layout x stored-zero pairs x 2 ID alphabets; plus all 81 pairs x '
                         'patterns on 3 metadata/function settings', rep.seed,
                         ', '.join('%s %d' % (k, len(v)) for k, v in parts)),
                     (c for _, v in parts for c in v), run_merge_case, exhaustive=False)
        rt.run_scope(rep, 'merge-paths-agree',
                     'metadata-free pairs under union/union (fast path) versus the same operands with receiver '
                     'metadata (general path): 7x7 overlap patterns x %s representation pairs' % (13 if q else 85),
                     agree_cases(rep.tier), run_agree_case, exhaustive=True)
    common.finish_notes(rep, 'C09')


def replay(case):
    return rt.replay_case('C09', case)
