"""Shared operation alphabet for the bounded contracts of C05 / C06 / C07 / C16.

Every public table operation of the C05 alphabet is described by

* a *symbolic* argument dict ``a`` (JSON-able: positions, kinds, flags - never
  literal IDs), so that a case file stays small and the same argument can be
  re-applied to a renamed / re-laid-out variant of a state;
* ``alphabet(view, level)``: the finite argument alphabet as a function of the
  current state's view (``level`` = 'full' | 'reduced');
* ``apply(t, a)``: runs the *real* library method on table ``t`` and returns an
  ``Outcome`` (result table(s), companion argument tables, exception);
* ``oracle(view, a)``: where cheap, the expected content of the result computed
  from the dense view only (never from the library).

Also here: raw-field cloning, content comparison, and the witness-class
reduction that keeps one root cause in one (clause, class) group.
"""
import copy
import re

import numpy as np
import scipy.sparse as sp

from pyvc import rt

AXES = ('sample', 'observation')
GROW_LIMIT = 6          # growth operations (merge/concat) are not offered beyond this axis length
LONG_SUFFIX = '_renamed_and_longer'


def other_axis(axis):
    return 'observation' if axis == 'sample' else 'sample'


def clone(t):
    """faithful copy of a table *including* its raw representation (layout,
    index order, stored zeros); harness tool, not an operation under test"""
    return copy.deepcopy(t)


# --------------------------------------------------------------------------
# content (= the part of a view the C05/C06/C07/C16 statements talk about)
# --------------------------------------------------------------------------

class Content:
    __slots__ = ('obs', 'samp', 'A', 'obs_md', 'samp_md')

    def __init__(self, obs, samp, A, obs_md, samp_md):
        self.obs, self.samp = list(obs), list(samp)
        self.A = np.asarray(A, dtype=float).reshape(len(self.obs), len(self.samp))
        self.obs_md, self.samp_md = obs_md, samp_md

    @classmethod
    def of(cls, v):
        return cls(v.obs, v.samp, v.A.copy(), copy.deepcopy(v.obs_md), copy.deepcopy(v.samp_md))

    def ids(self, axis):
        return self.samp if axis == 'sample' else self.obs

    def md(self, axis):
        return self.samp_md if axis == 'sample' else self.obs_md

    def with_axis(self, axis, ids=None, md='keep'):
        c = Content(self.obs, self.samp, self.A, self.obs_md, self.samp_md)
        if axis == 'sample':
            if ids is not None:
                c.samp = list(ids)
            if md != 'keep':
                c.samp_md = md
        else:
            if ids is not None:
                c.obs = list(ids)
            if md != 'keep':
                c.obs_md = md
        return c

    def take(self, axis, pos):
        pos = list(pos)
        md = self.md(axis)
        md2 = None if md is None else [md[k] for k in pos]
        ids2 = [self.ids(axis)[k] for k in pos]
        if axis == 'sample':
            return Content(self.obs, ids2, self.A[:, pos] if pos else np.zeros((len(self.obs), 0)), self.obs_md, md2)
        return Content(ids2, self.samp, self.A[pos, :] if pos else np.zeros((0, len(self.samp))), md2, self.samp_md)

    def describe(self):
        return {'obs': self.obs, 'samp': self.samp, 'A': self.A.tolist(), 'obs_md': self.obs_md,
                'samp_md': self.samp_md}


def mat_same(a, b):
    """bit-for-bit equality of two float matrices modulo the sign of zero"""
    a, b = np.asarray(a, dtype=float), np.asarray(b, dtype=float)
    return a.shape == b.shape and rt._mat_eq(a, b, True)


def md_same(got, want):
    """per-ID metadata: None and 'no entry carries anything' are the same
    observable content (the constructor itself normalises the latter to None)"""
    def norm(m):
        if m is None or len(m) == 0 or all(not x for x in m):
            return None
        return [dict(x) if x else {} for x in m]
    return norm(got) == norm(want)


def content_diff(v, exp, fields=('obs', 'samp', 'A', 'obs_md', 'samp_md')):
    """names of the content fields in which a view differs from the expectation"""
    out = []
    for f in fields:
        g, w = getattr(v, f), getattr(exp, f)
        if f == 'A':
            if not mat_same(g, w):
                out.append(f)
        elif f.endswith('_md'):
            if not md_same(g, w):
                out.append(f)
        elif list(g) != list(w):
            out.append(f)
    return out


def finite(v):
    return bool(np.all(np.isfinite(v.A)))


def counts_like(v):
    return finite(v) and bool(np.all(v.A >= 0)) and bool(np.all(v.A == np.floor(v.A)))


# --------------------------------------------------------------------------
# callbacks handed to the library (plain python functions: Table.filter
# accepts FunctionType only)
# --------------------------------------------------------------------------

def _tf_double(v, i, md):
    return v * 2.0


def _tf_ident(v, i, md):
    return v


def _tf_plus1(v, i, md):
    return v + 1.0


def _tf_zero_big(v, i, md):
    return np.where(v >= 2, 0.0, v)


TRANSFORMS = {'double': _tf_double, 'ident': _tf_ident, 'plus1': _tf_plus1, 'zero_big': _tf_zero_big}


def _rev_sort(ids):
    return sorted([str(x) for x in ids], reverse=True)


def _fresh_ids(existing, n, stem):
    out, k, ex = [], 1, set(existing)
    while len(out) < n:
        cand = '%s%d' % (stem, k)
        if cand not in ex:
            out.append(cand)
            ex.add(cand)
        k += 1
    return out


def _md_like(md, n, tag):
    """metadata for a companion table of the same kind as `md` (None stays None)"""
    if md is None or n == 0 or not md:
        return None
    proto = md[0] or {}
    out = []
    for k in range(n):
        d = {}
        for key, val in proto.items():
            if isinstance(val, list):
                d[key] = list(val[:-1]) + ['%s%d' % (tag, k)]
            elif isinstance(val, bool):
                d[key] = bool(k % 2)
            elif isinstance(val, (int, float)):
                d[key] = type(val)(k + 7)
            else:
                d[key] = '%s%d' % (tag, k)
        out.append(d)
    return out


def build(content, type=None, table_id=None):
    """a fresh canonical table with the given content, through the constructor"""
    from biom import Table
    return Table(sp.csr_matrix(np.nan_to_num(content.A)), list(content.obs), list(content.samp),
                 copy.deepcopy(content.obs_md), copy.deepcopy(content.samp_md), table_id=table_id, type=type)


def companion(v, kind, axis=None):
    """the second table of a binary operation, derived from the receiver's view.
    Returns (table, Content of that table)."""
    A = np.nan_to_num(v.A)
    m, n = A.shape
    if kind in ('rev', 'rot', 'rev_samp_only', 'rev_obs_only'):
        # same ID sets, different order, different values and metadata (align_to)
        po = list(range(m))[::-1] if kind in ('rev', 'rev_obs_only') else (list(range(1, m)) + [0] if kind == 'rot' and m else list(range(m)))
        ps = list(range(n))[::-1] if kind in ('rev', 'rev_samp_only') else (list(range(1, n)) + [0] if kind == 'rot' and n else list(range(n)))
        obs = [v.obs[k] for k in po]
        samp = [v.samp[k] for k in ps]
        if kind == 'rev_samp_only':
            obs = _fresh_ids(v.obs, m, 'Q')
        if kind == 'rev_obs_only':
            samp = _fresh_ids(v.samp, n, 'Q')
        B = np.arange(1, m * n + 1, dtype=float).reshape(m, n) + 100.0
        c = Content(obs, samp, B, _md_like(v.obs_md, m, 'co'), _md_like(v.samp_md, n, 'cs'))
    elif kind == 'overlap':
        # merge: shares all but the first ID on each axis, adds one new ID per axis
        obs = list(v.obs[1:]) + _fresh_ids(v.obs, 1, 'MO')
        samp = list(v.samp[1:])[::-1] + _fresh_ids(v.samp, 1, 'MS')
        B = np.arange(1, len(obs) * len(samp) + 1, dtype=float).reshape(len(obs), len(samp))
        B[0, 0] = 0.0
        c = Content(obs, samp, B, _md_like(v.obs_md, len(obs), 'mo'), _md_like(v.samp_md, len(samp), 'ms'))
    elif kind == 'same':
        B = np.ones((m, n))
        c = Content(v.obs, v.samp, B, copy.deepcopy(v.obs_md), copy.deepcopy(v.samp_md))
    elif kind in ('same_inv', 'extra_inv'):
        # concat along `axis`: disjoint IDs on `axis`, same (reversed) / one more ID on the other axis
        inv = other_axis(axis)
        k_ax = 2
        ax_ids = _fresh_ids(v.ids(axis), k_ax, 'CS' if axis == 'sample' else 'CO')
        inv_ids = list(v.ids(inv))[::-1]
        inv_md = v.md(inv)
        inv_md2 = None if inv_md is None else [copy.deepcopy(x) for x in inv_md][::-1]
        if kind == 'extra_inv':
            inv_ids = inv_ids + _fresh_ids(v.ids(inv), 1, 'CX')
            if inv_md2 is not None:
                inv_md2 = inv_md2 + (_md_like(inv_md, 1, 'cx') or [{}])
        ax_md = _md_like(v.md(axis), k_ax, 'ca')
        B = np.arange(1, len(inv_ids) * k_ax + 1, dtype=float)
        if axis == 'sample':
            c = Content(inv_ids, ax_ids, B.reshape(len(inv_ids), k_ax), inv_md2, ax_md)
        else:
            c = Content(ax_ids, inv_ids, B.reshape(k_ax, len(inv_ids)), ax_md, inv_md2)
    else:
        raise ValueError(kind)
    return build(c), c


# --------------------------------------------------------------------------
# symbolic arguments -> literal arguments
# --------------------------------------------------------------------------

def perm_positions(n, perm):
    if isinstance(perm, (list, tuple)):
        return [int(k) for k in perm]
    if perm == 'id':
        return list(range(n))
    if perm == 'rev':
        return list(range(n))[::-1]
    if perm == 'rot':
        return list(range(1, n)) + ([0] if n else [])
    raise ValueError(perm)


def id_map_for(ids, a):
    """(id_map, strict, expected new ids or None when the renaming is not injective)"""
    kind = a['kind']
    ids = list(ids)
    n = len(ids)
    stem = 'z' if a.get('axis') == 'sample' else 'y'
    strict = True
    if kind == 'long':
        # toggles, so that deep histories do not grow IDs without bound
        m = {x: (x[:-len(LONG_SUFFIX)] if x.endswith(LONG_SUFFIX) and len(x) > len(LONG_SUFFIX) else x + LONG_SUFFIX)
             for x in ids}
    elif kind == 'short':
        m = {x: '%s%d' % (stem, k) for k, x in enumerate(ids)}
    elif kind == 'extra_keys':
        m = {x: '%s%d' % (stem, k) for k, x in enumerate(ids)}
        m['not-in-table'] = 'a-very-long-unused-replacement-identifier'
    elif kind == 'swap':
        strict = False
        m = {ids[0]: ids[1], ids[1]: ids[0]} if n >= 2 else {ids[0]: ids[0]}
    elif kind == 'partial':
        strict = False
        m = {ids[0]: ids[0] + LONG_SUFFIX}
    elif kind == 'partial_short':
        strict = False
        m = {ids[-1]: stem}
    elif kind == 'dup':
        strict = False
        m = {ids[0]: ids[1]}
    elif kind == 'explicit':
        strict = bool(a.get('strict', True))
        m = {ids[int(k)]: val for k, val in a['map'].items() if int(k) < n}
    else:
        raise ValueError(kind)
    new = [m.get(x, x) for x in ids]
    return m, strict, (new if len(set(new)) == len(new) else None)


def _part_fn(a, v):
    """(callable/dict for partition & collapse, python oracle id,md -> group)"""
    kind, axis = a['f'], a['axis']
    ids = v.ids(axis)
    if kind == 'parity':
        table = {x: ('gA' if k % 2 == 0 else 'gB') for k, x in enumerate(ids)}

        def f(i, md):
            return table[str(i)]
        return f
    if kind == 'one':
        def f(i, md):
            return 'all'
        return f
    if kind == 'none_first':
        first = ids[0] if ids else None

        def f(i, md):
            return None if str(i) == first else 'rest'
        return f
    if kind == 'grp':
        def f(i, md):
            return md['grp'] if (md is not None and md.get('grp') is not None) else 'nogrp'
        return f
    if kind == 'dict':
        return {x: ('dA' if k == 0 else 'dB') for k, x in enumerate(ids)}
    raise ValueError(kind)


class Outcome:
    __slots__ = ('result', 'results', 'others', 'other_contents', 'exc', 'inplace')

    def __init__(self):
        self.result = None       # the table a history continues with
        self.results = []        # every table returned (partition: all parts)
        self.others = []         # argument tables
        self.other_contents = []
        self.exc = None
        self.inplace = False


INPLACE_FLAGGED = ('filter', 'transform', 'norm', 'pa', 'rankdata', 'remove_empty', 'update_ids')
NEW_TABLE_OPS = ('sort', 'sort_order', 'transpose', 'copy', 'head', 'subsample', 'partition', 'collapse',
                 'merge', 'concat', 'align_to')
MUTATORS = ('add_metadata', 'del_metadata')


def is_inplace(a):
    return a['op'] in MUTATORS or (a['op'] in INPLACE_FLAGGED and bool(a.get('inplace', True)))


def apply(t, a, v=None):
    """run the real operation; never raises for library exceptions"""
    out = Outcome()
    out.inplace = is_inplace(a)
    v = v or rt.view(t)
    op = a['op']
    try:
        # ---- literal arguments (harness errors here propagate) ----------
        call = _prepare(t, a, v, out)
    except _Skip:
        out.exc = _Skip()
        return out
    try:
        res = call()
    except Exception as e:          # the library's own exception
        out.exc = e
        return out
    if op == 'partition':
        parts = list(res)
        out.results = [p[1] for p in parts]
        out.result = out.results[a.get('pick', 0) % len(out.results)] if out.results else None
    elif op in MUTATORS:
        out.result = t
        out.results = [t]
    else:
        out.result = res
        out.results = [res]
    return out


class _Skip(Exception):
    pass


def _prepare(t, a, v, out):
    op = a['op']
    axis = a.get('axis')
    if op == 'filter':
        ids = v.ids(axis)
        n = len(ids)
        sel = [k for k in a['sel'] if k < n]
        form = a['form']
        if form == 'list':
            arg = [ids[k] for k in sel]
        elif form == 'array':
            arg = np.array([ids[k] for k in sel]) if sel else np.array([], dtype=str)
        elif form == 'pred_id':
            chosen = set(ids[k] for k in sel)

            def arg(vals, i, md):
                return i in chosen
        elif form == 'pred_value':
            def arg(vals, i, md):
                return vals.sum() > 1
        elif form == 'pred_md':
            def arg(vals, i, md):
                return md is not None and md.get('grp') == 'g0'
        else:
            raise ValueError(form)
        return lambda: t.filter(arg, axis=axis, invert=a['invert'], inplace=a['inplace'])
    if op == 'remove_empty':
        return lambda: t.remove_empty(axis=axis, inplace=a['inplace'])
    if op == 'head':
        return lambda: t.head(a['n'], a['m'])
    if op == 'sort':
        if a['f'] == 'nat':
            return lambda: t.sort(axis=axis)
        return lambda: t.sort(sort_f=_rev_sort, axis=axis)
    if op == 'sort_order':
        ids = v.ids(axis)
        order = [ids[k] for k in perm_positions(len(ids), a['perm'])]
        if a.get('form') == 'array':
            order = np.array(order)
        return lambda: t.sort_order(order, axis=axis)
    if op == 'transpose':
        return lambda: t.transpose()
    if op == 'copy':
        return lambda: t.copy()
    if op == 'update_ids':
        ids = v.ids(axis)
        if not ids or (a['kind'] in ('dup',) and len(ids) < 2):
            raise _Skip()
        m, strict, _ = id_map_for(ids, a)
        return lambda: t.update_ids(m, axis=axis, strict=strict, inplace=a['inplace'])
    if op == 'add_metadata':
        ids = v.ids(axis)
        kind = a['kind']
        if kind == 'all':
            md = {x: {'added': 'v%d' % k} for k, x in enumerate(ids)}
        elif kind == 'one':
            md = {x: {'added': 'only', 'grp': 'g1'} for x in ids[:1]}
        else:
            md = {x: {'added': 'v%d' % k} for k, x in enumerate(ids[:1])}
            md['no-such-id'] = {'added': 'ghost'}
        return lambda: t.add_metadata(md, axis=axis)
    if op == 'del_metadata':
        keys = a['keys']
        if keys == 'all':
            keys = sorted({k for md in (v.obs_md, v.samp_md) if md for d in md for k in (d or {})})
        return lambda: t.del_metadata(keys=keys, axis=axis)
    if op == 'transform':
        return lambda: t.transform(TRANSFORMS[a['f']], axis=axis, inplace=a['inplace'])
    if op == 'norm':
        return lambda: t.norm(axis=axis, inplace=a['inplace'])
    if op == 'pa':
        return lambda: t.pa(inplace=a['inplace'])
    if op == 'rankdata':
        return lambda: t.rankdata(axis=axis, inplace=a['inplace'], method=a.get('method', 'average'))
    if op == 'subsample':
        return lambda: t.subsample(a['n'], axis=axis, by_id=a['by_id'], with_replacement=a['with_replacement'],
                                   seed=a.get('seed', 7))
    if op == 'collapse':
        if a['f'] == 'one_to_many':
            def f(i, md):
                tax = md['taxonomy']
                for k in range(len(tax)):
                    yield (list(tax[:k + 1]), tax[k])
            return lambda: t.collapse(f, norm=False, one_to_many=True, one_to_many_mode=a.get('mode', 'add'),
                                      axis=axis)
        f = _part_fn(a, v)
        kw = {}
        if a.get('collapse_f') == 'first':
            def collapse_first(tab, ax):
                return np.asarray([vals[0] for vals in tab.iter_data(axis=ax)], dtype=float)
            kw['collapse_f'] = collapse_first
        if 'include_md' in a:
            kw['include_collapsed_metadata'] = a['include_md']
        return lambda: t.collapse(f, norm=a['norm'], axis=axis, min_group_size=a.get('min_group_size', 1), **kw)
    if op == 'partition':
        f = _part_fn(a, v)
        return lambda: t.partition(f, axis=axis, remove_empty=a.get('remove_empty', False),
                                   ignore_none=a.get('ignore_none', False))
    if op == 'merge':
        o, oc = companion(v, a['other'])
        out.others, out.other_contents = [o], [oc]
        return lambda: t.merge(o, sample=a['sample'], observation=a['observation'])
    if op == 'concat' and a['other'] == 'nothing':
        return lambda: t.concat([], axis=axis)
    if op == 'concat':
        o, oc = companion(v, a['other'], axis)
        out.others, out.other_contents = [o], [oc]
        if a.get('as_list', True):
            return lambda: t.concat([o], axis=axis)
        return lambda: t.concat(o, axis=axis)
    if op == 'align_to':
        o, oc = companion(v, a['other'])
        out.others, out.other_contents = [o], [oc]
        return lambda: t.align_to(o, axis=axis)
    raise ValueError('unknown operation %r' % (op,))


# --------------------------------------------------------------------------
# argument alphabets
# --------------------------------------------------------------------------

def _sels(n, level):
    if n == 0:
        return [[]]
    cand = [[], [0], list(range(n))]
    if n >= 2:
        cand += [list(range(1, n))]
        if level == 'full':
            cand += [[n - 1]]
    if level == 'reduced':
        cand = [[0], list(range(1, n))] if n >= 2 else [[0], []]
    seen, out = set(), []
    for c in cand:
        if tuple(c) not in seen:
            seen.add(tuple(c))
            out.append(c)
    return out


def alphabet(v, level='full'):
    """finite argument alphabet as a function of the state's view"""
    full = level == 'full'
    m, n = len(v.obs), len(v.samp)
    out = []
    add = out.append
    fin = finite(v)
    for axis in AXES:
        k = n if axis == 'sample' else m
        has_md = v.md(axis) is not None
        # filter
        for sel in _sels(k, level):
            forms = ['list', 'pred_id'] if full else ['list']
            for form in forms:
                for invert in ((False, True) if full else (False,)):
                    for inplace in (True, False):
                        add({'op': 'filter', 'axis': axis, 'sel': sel, 'form': form, 'invert': invert, 'inplace': inplace})
        add({'op': 'filter', 'axis': axis, 'sel': [], 'form': 'pred_value', 'invert': False, 'inplace': True})
        if not full and k:
            add({'op': 'filter', 'axis': axis, 'sel': [], 'form': 'list', 'invert': False, 'inplace': True})
        if full:
            add({'op': 'filter', 'axis': axis, 'sel': [], 'form': 'pred_value', 'invert': True, 'inplace': False})
            add({'op': 'filter', 'axis': axis, 'sel': list(range(k)), 'form': 'array', 'invert': False, 'inplace': True})
            if has_md:
                add({'op': 'filter', 'axis': axis, 'sel': [], 'form': 'pred_md', 'invert': False, 'inplace': True})
        # sort / sort_order
        add({'op': 'sort', 'axis': axis, 'f': 'rev'})
        if full:
            add({'op': 'sort', 'axis': axis, 'f': 'nat'})
        if k:
            for perm in (('rev', 'rot', 'id') if full else ('rev',)):
                add({'op': 'sort_order', 'axis': axis, 'perm': perm})
            if full:
                add({'op': 'sort_order', 'axis': axis, 'perm': [k - 1]})       # a sub-selection: only the last ID
        # update_ids
        if k:
            kinds = ['long', 'short', 'extra_keys', 'partial', 'partial_short'] if full else ['long', 'partial_short']
            if k >= 2:
                kinds += ['swap', 'dup'] if full else ['swap']
            for kind in kinds:
                for inplace in ((True, False) if (full or kind == 'long') else (True,)):
                    add({'op': 'update_ids', 'axis': axis, 'kind': kind, 'inplace': inplace})
            if not full and k >= 2:
                add({'op': 'update_ids', 'axis': axis, 'kind': 'dup', 'inplace': False})     # must be rejected
        # metadata
        for kind in (('all', 'one', 'unknown') if full else ('one',)):
            add({'op': 'add_metadata', 'axis': axis, 'kind': kind})
        # value transforms
        if fin:
            for f in (('double', 'zero_big', 'plus1', 'ident') if full else ('zero_big',)):
                for inplace in ((True, False) if full else (True,)):
                    add({'op': 'transform', 'axis': axis, 'f': f, 'inplace': inplace})
            if np.all(v.A >= 0):
                sums = v.A.sum(axis=0 if axis == 'sample' else 1)
                if np.all(np.isfinite(sums)):
                    for inplace in ((True, False) if full else (True,)):
                        add({'op': 'norm', 'axis': axis, 'inplace': inplace})
            for inplace in ((True, False) if full else (False,)):
                add({'op': 'rankdata', 'axis': axis, 'inplace': inplace})
            if full:
                add({'op': 'rankdata', 'axis': axis, 'inplace': True, 'method': 'min'})
                add({'op': 'rankdata', 'axis': axis, 'inplace': False, 'method': 'dense'})
        # subsample
        if k and m and n:
            for nn in ((1, 2) if full else (1,)):
                add({'op': 'subsample', 'axis': axis, 'n': nn, 'by_id': True, 'with_replacement': False})
                if full and nn == 1 and counts_like(v):
                    add({'op': 'subsample', 'axis': axis, 'n': 10 ** 6, 'by_id': False, 'with_replacement': False})
                if counts_like(v):
                    add({'op': 'subsample', 'axis': axis, 'n': nn, 'by_id': False, 'with_replacement': False})
                    if full and np.all(v.A.sum(axis=0) > 0) and np.all(v.A.sum(axis=1) > 0):
                        add({'op': 'subsample', 'axis': axis, 'n': nn, 'by_id': False, 'with_replacement': True})
        # collapse / partition
        if k and m and n and fin:
            fs = ['parity', 'one'] + (['grp'] if has_md else [])
            for f in (fs if full else fs[:1] + fs[2:]):
                for nrm in ((True, False) if full else (False,)):
                    add({'op': 'collapse', 'axis': axis, 'f': f, 'norm': nrm})
            if full:
                add({'op': 'collapse', 'axis': axis, 'f': 'parity', 'norm': False, 'min_group_size': 2})
                add({'op': 'collapse', 'axis': axis, 'f': 'parity', 'norm': False, 'include_md': False})
                add({'op': 'collapse', 'axis': axis, 'f': 'parity', 'norm': True, 'collapse_f': 'first'})
                add({'op': 'partition', 'axis': axis, 'f': 'parity', 'pick': 0, 'remove_empty': True})
                add({'op': 'partition', 'axis': axis, 'f': 'none_first', 'pick': 0, 'ignore_none': True})
                add({'op': 'partition', 'axis': axis, 'f': 'none_first', 'pick': 0, 'ignore_none': False})
                mdv = v.md(axis)
                if mdv and all(isinstance(d.get('taxonomy'), list) for d in mdv):
                    for mode in ('add', 'divide'):
                        add({'op': 'collapse', 'axis': axis, 'f': 'one_to_many', 'norm': False, 'mode': mode})
            for f in ((fs + ['dict']) if full else ['parity']):
                for pick in ((0, 1) if full else (1,)):
                    add({'op': 'partition', 'axis': axis, 'f': f, 'pick': pick})
        # concat
        if m and n and max(m, n) <= GROW_LIMIT and fin:
            for other in (('same_inv', 'extra_inv') if full else ('extra_inv',)):
                add({'op': 'concat', 'axis': axis, 'other': other})
            if full:
                add({'op': 'concat', 'axis': axis, 'other': 'same_inv', 'as_list': False})
                add({'op': 'concat', 'axis': axis, 'other': 'nothing'})
    for axis in ('sample', 'observation', 'whole'):
        for inplace in (True, False):
            if full or (axis == 'whole') or inplace:
                add({'op': 'remove_empty', 'axis': axis, 'inplace': inplace})
        for keys in ((None, ['grp'], ['nokey'], 'all') if full else (['grp'],)):
            if full or axis != 'whole':
                add({'op': 'del_metadata', 'axis': axis, 'keys': keys})
    if not full:
        add({'op': 'del_metadata', 'axis': 'whole', 'keys': None})
    for nm in (((1, 1), (1, 5), (5, 1), (2, 2)) if full else ((1, 5), (2, 1))):
        add({'op': 'head', 'n': nm[0], 'm': nm[1]})
    add({'op': 'transpose'})
    add({'op': 'copy'})
    if fin:
        for inplace in (True, False):
            if full or inplace:
                add({'op': 'pa', 'inplace': inplace})
    if m and n and fin:
        if max(m, n) <= GROW_LIMIT:
            for s, o in ((('union', 'union'), ('intersection', 'union'), ('union', 'intersection'),
                          ('intersection', 'intersection')) if full else (('union', 'union'),)):
                add({'op': 'merge', 'other': 'overlap', 'sample': s, 'observation': o})
            if full:
                add({'op': 'merge', 'other': 'same', 'sample': 'union', 'observation': 'union'})
        for axis in (('sample', 'observation', 'both', 'detect') if full else ('both',)):
            add({'op': 'align_to', 'axis': axis, 'other': 'rev'})
        if full:
            add({'op': 'align_to', 'axis': 'detect', 'other': 'rev_samp_only'})
            add({'op': 'align_to', 'axis': 'detect', 'other': 'rev_obs_only'})
            add({'op': 'align_to', 'axis': 'both', 'other': 'rot'})
    return out


# --------------------------------------------------------------------------
# cheap oracles on views
# --------------------------------------------------------------------------

def oracle(v, a):
    """expected Content of the result from the dense view, or None where no
    cheap independent oracle exists (subsample, collapse, merge, ...)"""
    c = Content.of(v)
    op, axis = a['op'], a.get('axis')
    if op == 'copy':
        return c
    if op == 'transpose':
        return Content(c.samp, c.obs, c.A.T.copy(), c.samp_md, c.obs_md)
    if op == 'sort_order':
        return c.take(axis, perm_positions(len(c.ids(axis)), a['perm']))
    if op == 'sort' and a['f'] == 'rev':
        ids = c.ids(axis)
        return c.take(axis, sorted(range(len(ids)), key=lambda k: ids[k], reverse=True))
    if op == 'head':
        return c.take('observation', range(min(a['n'], len(c.obs)))).take('sample', range(min(a['m'], len(c.samp))))
    if op == 'filter' and a['form'] in ('list', 'array', 'pred_id'):
        n = len(c.ids(axis))
        keep = [k for k in range(n) if (k in a['sel']) != bool(a['invert'])]
        return c.take(axis, keep)
    if op == 'update_ids':
        ids = c.ids(axis)
        if not ids or (a['kind'] == 'dup' and len(ids) < 2):
            return None
        _, _, new = id_map_for(ids, a)
        return None if new is None else c.with_axis(axis, ids=new)
    if op == 'align_to':
        oc = companion(v, a['other'])[1]
        axes = []
        for ax in AXES:
            if a['axis'] in (ax, 'both') or (a['axis'] == 'detect' and set(oc.ids(ax)) == set(c.ids(ax))):
                axes.append(ax)
        for ax in axes:
            pos = {x: k for k, x in enumerate(c.ids(ax))}
            c = c.take(ax, [pos[x] for x in oc.ids(ax)])
        return c
    if op == 'pa':
        c.A = np.where(c.A != 0, 1.0, 0.0)
        return c
    if op == 'transform' and a['f'] in ('double', 'ident', 'zero_big'):
        c.A = {'double': lambda x: x * 2.0, 'ident': lambda x: x, 'zero_big': lambda x: np.where(x >= 2, 0.0, x)}[a['f']](c.A)
        return c
    return None


# --------------------------------------------------------------------------
# witness classes: which representation features of the state(s) are needed
# for the failure (greedy one-at-a-time canonicalisation; classification only,
# never part of a verdict)
# --------------------------------------------------------------------------

def _ids_kind(t):
    ids = [str(x) for x in t._observation_ids.tolist()] + [str(x) for x in t._sample_ids.tolist()]
    if not ids:
        return None
    if any(ord(ch) > 127 for x in ids for ch in x):
        return 'ids-nonascii'
    if any(len(x) > 100 for x in ids):
        return 'ids-long'
    if any(re.search(r'[^A-Za-z0-9_.]', x) for x in ids):
        return 'ids-punct'
    if any(x[:1].isdigit() for x in ids):
        return 'ids-numeric'
    return None


def _rebuild(t, plain_ids=False, drop_md=False):
    from biom import Table
    fmt = t._data.getformat()
    mat = t._data.copy()
    if fmt != 'csr':
        mat = mat.tocsr()
    m, n = mat.shape
    obs = ['O%d' % (k + 1) for k in range(m)] if plain_ids else t._observation_ids.tolist()
    samp = ['S%d' % (k + 1) for k in range(n)] if plain_ids else t._sample_ids.tolist()
    omd = None if drop_md or t._observation_metadata is None else [dict(d) for d in copy.deepcopy(t._observation_metadata)]
    smd = None if drop_md or t._sample_metadata is None else [dict(d) for d in copy.deepcopy(t._sample_metadata)]
    u = Table(mat, obs, samp, omd, smd, table_id=t.table_id, type=t.type)
    if fmt == 'csc':
        u._data = u._data.tocsc()
    return u


def _v_plain_ids(t):
    return _rebuild(t, plain_ids=True)


def _v_drop_md(t):
    return _rebuild(t, drop_md=True)


def _v_abs(t):
    t._data.data[:] = np.abs(t._data.data)
    return t


def _v_csr(t):
    t._data = t._data.tocsr()
    return t


def _v_sort(t):
    t._data.sort_indices()
    return t


def _v_elim(t):
    t._data.eliminate_zeros()
    return t


def _has_md(t):
    return t._observation_metadata is not None or t._sample_metadata is not None


FEATURES = [
    ('ids', lambda t: _ids_kind(t) is not None, _v_plain_ids),
    ('metadata', _has_md, _v_drop_md),
    ('negative-values', lambda t: bool(len(t._data.data) and t._data.data.min() < 0), _v_abs),
    ('csc', lambda t: t._data.getformat() == 'csc', _v_csr),
    ('unsorted-indices', lambda t: not rt.layout(t).get('sorted', True), _v_sort),
    ('stored-zeros', lambda t: rt.layout(t).get('stored_zeros', 0) > 0, _v_elim),
]
_ORDER = ['unsorted-indices', 'csc', 'stored-zeros', 'negative-values', 'metadata']
_class_cache = {}


def raw_features(tables):
    f = []
    for name, has, _ in FEATURES:
        if any(has(t) for t in tables):
            f.append(name if name != 'ids' else next(_ids_kind(t) for t in tables if _ids_kind(t)))
    if any(0 in t._data.shape for t in tables):
        f.append('empty-axis')
    return f


def reduce_class(tables, fails, cache_key=None):
    """tables: the table(s) in the raw state on which a clause failed;
    fails(list of fresh clones) -> bool re-runs the scenario.  Returns the
    '+'-joined list of features that cannot be canonicalised away."""
    feats = raw_features(tables)
    ck = None
    if cache_key is not None:
        ck = (cache_key, tuple(feats))
        if ck in _class_cache:
            return _class_cache[ck]
    cur = [clone(t) for t in tables]
    kept = []
    for name, has, variant in FEATURES:
        if not any(has(t) for t in cur):
            continue
        label = name if name != 'ids' else next(_ids_kind(t) for t in cur if _ids_kind(t))
        try:
            alt = [variant(clone(t)) if has(t) else clone(t) for t in cur]
            still = bool(fails([clone(t) for t in alt]))
        except Exception:
            still = False
        if still:
            cur = alt
        else:
            kept.append(label)
    if 'empty-axis' in feats:
        kept.append('empty-axis')
    kept.sort(key=lambda x: (_ORDER.index(x) if x in _ORDER else len(_ORDER), x))
    cls = '+'.join(kept) or 'canonical'
    if ck is not None:
        _class_cache[ck] = cls
    return cls


def short(a):
    """compact operation tag for clause / class names"""
    return a['op']


def describe_exc(e):
    return '%s: %s' % (type(e).__name__, str(e)[:200])
