"""What MANIFEST.json claims per property (tools_manifest.py renders it)."""

TECH = ('contract-based deductive verification: sidecar contracts on the real /repo functions, own AST->SMT '
        'verification-condition generator (z3 5.1 / z3 4.8 / cvc5), obligations discharged function by function; '
        'the same contracts evaluated at run time over enumerated small states as the bounded stand-in')
TECH_B = ('contract-based: run-time evaluation of sidecar contracts (the property statement against an independent '
          'oracle) on the real functions over an enumerated small scope - bounded stand-in, never counted as proved')

NOTE_B = ('bounded stand-in only for the parts listed as bounded: holds on the enumerated scope, nothing is proved beyond it; '
          '.pyx kernels judged on mechanically extracted source (compiled .so cannot be rebuilt here); numpy / scipy / '
          'h5py / pandas / click trusted')


def _b(text, note=NOTE_B, level='other', technique=TECH_B):
    return dict(level=level, technique=technique, text=text, note=note)


CHECKS = {
 'C01': _b('Contract of to_hdf5 / from_hdf5 / load_table / parse_table (round trip = identity on views, values compared '
           'bit for bit) evaluated on real files for every small table x layout x stored zeros x ID alphabet x metadata '
           'kind x compression x loader. No function of this property is under a discharged deductive contract yet: '
           'h5py I/O and float bit-exactness are outside the verifier (DESIGN.md 8/C01, 9).'),
 'C02': _b('Contract of to_json (string and direct_io form) and of the four readers: json.loads (independent) of the real '
           'output equals the document described by the source view; adversarial header strings, values below 1e-6, '
           'numpy scalars in metadata. Bounded only: string building / float formatting are outside the verifier.'),
 'C03': _b('Contract of to_tsv / from_tsv / _convert / load_table on real text (plain and gzip), incl. one metadata '
           'category through formatter and inverse processor. Bounded only.'),
 'C04': _b('FileSpec21 (an independent decoder written from biom-2.1.rst with raw h5py) evaluated on every file written '
           'by to_hdf5 / save_table / biom convert, incl. empty-axis and all-zero tables. Bounded only.'),
 'C05': _b('Representation invariant Inv and accessor agreement evaluated after every operation of the alphabet on every '
           'small state, exhaustive histories to depth 2 (thorough 3, random to 8). Deductive part: Tier P - the row-compaction '
           'kernel _remove_rows_csr (see C08), _axis_to_num, _index, ids, index, exists, length, is_empty (accessors answer from the '
           'id arrays / lookup tables of the right axis and change nothing), metadata (entry at the position the lookup of the '
           'requested axis gives); Tier A (view-level scipy model) - _index_ids, sum, nnz, get_table_density, filter, _get_row, '
           '_get_col, __getitem__ (element form), get_value_by_ids (the cell at the positions the two lookups give), data (the '
           'vector of an id on the requested axis, dense or sparse, cell by cell) and the constructor for scipy input (see C17). '
           'The errcheck machinery the invariant rests on is proved under C20; the other constructor forms and the '
           'other operations are bounded.', technique=TECH),
 'C06': _b('Contracts of sort / sort_order / align_to / transpose / copy / update_ids (permute or relabel only; inverse '
           'laws) over all permutations of axes up to 4, injective / partial renamings, all layouts. Deductive part (Tier A, '
           'view-level scipy model): Table.sort_order (the ids of the axis become exactly the requested order, every cell and '
           'every metadata entry travels with its id, the other axis and the receiver are untouched, unknown ids refused), '
           'Table.sort (sort_f sees the ids of the axis once; what it returns is handed to sort_order on the same axis; a second '
           'contract of the same method covers the default natural order: natsort is asked once for the ids of the axis and '
           'its answer is the order of the result, whatever the ids look like), '
           'Table.transpose (cells mirrored, ids and metadata of the axes swapped, receiver untouched), Table.copy, '
           'Table.update_ids (every id becomes what the map says or stays, never truncated by the fixed-width array; other axis, '
           'metadata and cells untouched; lookups rebuilt; in-place never leaves duplicates; a refused update changes nothing). '
           'align_to is bounded.', technique=TECH),
 'C07': _b('Frame and freshness contracts of every in-place-flag operation and every new-table operation: deep snapshots '
           'of receiver and arguments, show-through test by in-place operations on the result. Deductive part: the frame '
           '(modifies) clauses - checked as frame obligations - of the _filter / _transform kernels (Tier P) and of Table.copy, '
           'filter, transform, norm, pa, rankdata, subsample, sort, sort_order, transpose (Tier A): result is the receiver exactly '
           'when inplace is set, otherwise the receiver keeps its matrix object and cells. The remaining operations are bounded.',
           technique=TECH),
 'C08': dict(level='other', technique=TECH,
  text='Tier P (proved for all inputs, no library axioms): _remove_rows_csr (row compaction keeps exactly the selected '
       'rows, entry by entry, in order), _make_filter_array_general (predicate called once per id, in order, with the true '
       'dense vector, id and metadata; result = truth xor invert) - loop invariants over ghost rank / kept-entry prefix '
       'functions. Tier A: Table.filter (id collection or predicate, invert, axis mapping, layout handed to the kernel, ids / '
       'metadata kept in step, inplace), Table.head (first n x m in order) and Table.remove_empty (the ids handed to filter are '
       'exactly those of the vectors with at least one non-zero cell, on the right axes, on the copy or the receiver). Bounded: the contract of Table.filter / head / '
       'remove_empty on every matrix over {0,1,2} up to 2x2 (thorough 3x3) x every layout x every subset x invert x axis x '
       'inplace x ID forms.',
  note='kernel proofs: C integers treated as mathematical, numpy slices modelled as copies, callbacks pure; the module-level '
       '_filter glue is bounded, not proved; scipy conversions assumed (view-level model)'),
 'C09': _b('Contract of merge (pointwise sum over union / intersection, metadata policy, fast path = general path) over '
           'pairs and k-tuples with disjoint / nested / partial / identical / permuted ID sets. Deductive part (Tier P): the two '
           'helpers that decide which ids the merged table has and where they go - Table._union_id_order (exactly the union of '
           'the two id lists, numbered 0..len-1 without gaps or repeats, in order of first occurrence in a followed by b) and '
           'Table._intersect_id_order (exactly the ids of a that occur in b, numbered without gaps in the order of a; a '
           'pairwise distinct as the representation invariant says), and biom.util.prefer_self, the default metadata policy. merge itself '
           'and _fast_merge are bounded only.',
           technique=TECH),
 'C10': _b('Contract of Table.concat / biom.concat (blocks unchanged, zero padding, disjointness refused) for k = 1..3 '
           'operands, both axes. Bounded only.'),
 'C11': _b('Contracts of partition (exact split) and collapse (conservation; one-to-many add / divide) on exact '
           '(integer / dyadic) values. Bounded only.'),
 'C12': _b('Contract of Table.subsample / biom.subsample / generate_subsamples (exactly n per vector, never more than the '
           'original, retained = total >= n, by_id, same seed, input unchanged) over all count vectors up to length 3 '
           'x n x axes x seeds; thorough adds an exact small-vector frequency check (6 sigma). The distributional conjunct '
           'is not decided by contracts (DESIGN.md 9). Deductive part (Tier P): both kernels of biom/_subsample.pyx and the '
           'dispatcher - without replacement every vector with at least n counts sums to exactly n afterwards, every entry is '
           'a non-negative integer not exceeding the original count, vectors below n are zeroed, nothing outside the slices is '
           'written; with replacement every slice is replaced by the multinomial draw over counts / total; Tier A: '
           'Table.subsample hands the kernel the copy\'s matrix compressed along the requested axis and filters both axes.',
           technique=TECH),
 'C13': dict(level='other', technique=TECH,
  text='Tier P: _transform (f receives exactly the stored values of each vector as they were at entry, with its id and '
       'metadata; results written back to the same positions; nothing else changes). Tier A: Table.transform (the kernel '
       'gets the matrix of the copy or the receiver in the layout of the axis, stored zeros eliminated before and after, ids '
       'and metadata of that axis), norm / pa / rankdata (one transform call on the same receiver, axis and inplace flag). '
       'Bounded: contract of Table.transform / norm / pa / rankdata / _normalize_table over functions x axes x layouts x '
       'stored zeros (the arithmetic of the fixed functions of norm / pa / rankdata is bounded only).',
  note='kernel proof as for C08; scipy conversions / eliminate_zeros assumed (view-level model)'),
 'C14': _b('Contract "subset while reading = read all, then filter" for from_hdf5(ids=) with / without metadata, '
           'parse_table(ids=), _subset_table on JSON text (compact / spaced / indented) and HDF5, unknown-ID refusal. '
           'Bounded only: the string scanners are outside the verifier.'),
 'C15': _b('Validator soundness on a mutation grammar (single mutations quick, double thorough) of written JSON / HDF5 '
           'files, completeness on everything the writers produce, accepted => loads. Deductive part (Tier P, soundness of the '
           'JSON validator): _validate_json reports valid only if all twelve required fields are present, the declared shape is '
           'a pair of integers equal to the numbers of row and column records, every record has a non-empty id and null-or-object '
           'metadata, no id occurs twice on its axis, matrix type and element type are from the vocabulary, every sparse '
           'coordinate is an integer triple inside the shape whose value has the declared type, every dense row has the '
           'declared width and element type - proved function by function: _valid_sparse_data, _valid_dense_data, _valid_data, '
           '_valid_rows / _valid_columns, _valid_id, _valid_metadata, _valid_shape, _valid_matrix_type, '
           '_valid_matrix_element_type, _valid_format / _format_url / _type / _generated_by / _nullable_id and the composing '
           'loop of _validate_json. Assumed: _is_int, _valid_date, str.lower on the two literals, reduce(and_). Of the HDF5 '
           'half the attribute-level validators are under contract (Tier A: an open file is an object whose attrs hold '
           'JSON-like values): _valid_nnz (a non-negative integer), and second contracts of _valid_shape, _valid_format_url, '
           '_valid_type, _valid_generated_by for an HDF5 table (they look the attribute up under its hyphenated name), '
           '_valid_creation_date (hands the attribute to _valid_date once); and _valid_hdf5_axis over a model of datasets as '
           'functions of (file, path): no complaint only if the ids of the axis are text, none is empty and none occurs twice, '
           'data is numeric, indices and indptr are integers, and every stored index names an id of the other axis. The '
           'composition _validate_hdf5 (presence of groups / datasets, shape against the id counts), the metadata checks, '
           'completeness and "accepted => loads" are bounded only.',
           technique=TECH),
 'C16': _b('Contract of == / != / descriptive_equality (depends on content only; equivalence relation; accessors do not '
           'change content; equal tables export equally) over equal-content routes x accessor interleavings, and all '
           'single-difference pairs. Deductive part (Tier A, view-level scipy model): __eq__, __ne__, descriptive_equality and '
           '_data_equality decide equality by type, ids, metadata and cells only (no stored-entry counts, no layout).',
           technique=TECH),
 'C17': _b('All accepted construction inputs agree pairwise; adjacency / uc importers; malformed input always rejected '
           'with TableException. Deductive part (Tier A): Table.__init__ for a scipy matrix as data (fresh float csr matrix with '
           'the cells of the input, ids installed as given, metadata entry by entry or absent when no entry holds anything, '
           'lookups rebuilt from the ids, the new table validated exactly when validate is set) - this is the constructor '
           'contract every table-producing method relies on. The coordinate routes: coo_arrays_to_sparse, list_list_to_sparse '
           '(coordinate triples) and dict_to_sparse (coordinate dictionary, a loop over a dict with tuple keys) - over an '
           'assumed, natively probed contract of scipy.sparse.coo_matrix: the result is a csr matrix without stored zeros of '
           'the shape asked for (or largest index + 1 per axis), every coordinate named once holds its value, every cell no '
           'coordinate names is zero, and ValueError is raised only for an empty input without shape, a negative index or an '
           'index outside the requested shape. The dispatcher Table._to_sparse and the dense / row-wise converters '
           '(nparray_, list_nparray_, list_sparse_, list_dict_to_sparse) are bounded only (the error profile that turns a '
           'triggered structural test into the table error is proved under C20).', technique=TECH),
 'C18': _b('Contracts of add_metadata / del_metadata (exactly the named ids and keys), MetadataMap.from_file on files from '
           'the row grammar, _add_metadata. Deductive part (Tier A; per-id metadata modelled as a tuple of dicts held by value): '
           'Table.add_metadata (every key of the mapping entry of an id is set / overwritten on that id, every other key and '
           'every other id keeps what it had, ids not in the table are ignored, an axis without metadata gets exactly the '
           'mapping entries, the other axis is untouched, no entry is None afterwards) and Table.del_metadata (every named key '
           'is gone from every id of the chosen axes, every other key keeps its value, an axis that was not chosen keeps its '
           'metadata object, metadata becomes absent only when nothing is left or all of it was to be deleted). Assumed: '
           'Table._cast_metadata (entries re-cast with the same items; absent when no entry holds anything). The mapping-file '
           'parser and the add-metadata command are bounded only.', technique=TECH),
 'C19': _b('Every summary / report figure / export equals the value computed from the dense view (non-square tables so '
           'that axis mix-ups show). Deductive part (Tier A): Table.sum (axis mapping), nnz, get_table_density, '
           'nonzero_counts (per vector of the requested axis the number of its non-zero cells or, with binary=False, its sum; '
           'for any other axis value one number for the whole table), min / max (per vector of the requested axis the least / '
           'greatest non-zero cell, stored zeros eliminated first; for the whole table the running minimum / maximum over the '
           'per-sample values) - over an assumed contract of iter_data and ghost functions '
           'for the per-vector quantities. biom.util.compute_counts_per_sample_stats (every sample id keyed to its sum or, binary, its number of non-zero cells; minimum and maximum are figures of samples that bound all of them; zeros for a table without samples) over an assumed contract of Table.iter. reduce, median / mean, the CLI reports and the exports are bounded only. One '
           'known finding (pandas sparse fill value).', technique=TECH),
 'C20': dict(level='proof', technique=TECH,
  text='Every function of biom/err.py is verified against its contract for all inputs (Tier P): _create_error_states, '
       'ErrorProfile._handle_error / test / state setter / setcall / getcall, geterr, seterr, seterrcall, geterrcall, '
       'errcheck and the errstate context manager (enter / normal exit / exceptional exit). The statement of C20 is the '
       'conjunction of the postconditions of errcheck (configured reaction is what happens for exactly-one triggering '
       'kind), seterr / state setter (unknown kinds or reactions refused, profile unchanged) and errstate (override in '
       'force, previous profile restored on both exits). The bounded scopes are the CPython cross-check of the same '
       'statements and of the assumed module invariant.',
  note='trusted: semantics of dict / sorted / contextlib.contextmanager / warnings.warn / sys.stdout.write as listed in the '
       'evidence; the module-level profile invariant (seven registered kinds) is assumed by the proofs and re-checked '
       'natively on every run; registered test predicates and callbacks assumed pure / non-reentrant; register / '
       'unregister are not under contract'),
}

NOTE_DED = 'deductive part: proved for all inputs modulo the assumptions listed in the evidence file (library models, C integers as mathematical integers, numpy slices as copies, pure callbacks); bounded part: a stand-in that holds only on the enumerated scope; .pyx kernels judged on mechanically extracted source; numpy / scipy / h5py / pandas / click trusted'

NOT_APPLICABLE = {}
