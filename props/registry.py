"""What MANIFEST.json claims per property (tools_manifest.py renders it)."""

CHECKS = {
 'C08': dict(
  level='other',
  technique='contract-based deductive verification (own AST->SMT VC generator on the real source) + bounded run-time contract evaluation',
  text='Contracts of Table.filter/head/remove_empty and the _filter.pyx kernels. Bounded stand-in: the contract is '
       'evaluated on the real functions for every matrix over {0,1,2} up to 2x2 (thorough 3x3) x every layout reachable '
       'through the public API x every subset x invert x axis x inplace x ID-collection/predicate forms.',
  note='bounded part is a stand-in, not a proof; .pyx kernels judged on mechanically extracted source; scipy/numpy trusted'),
}

_PENDING = 'check under construction in this session (listed so that MANIFEST.json stays valid); see DESIGN.md 8'
NOT_APPLICABLE = {('C%02d' % k): _PENDING for k in range(1, 21) if ('C%02d' % k) not in CHECKS}
