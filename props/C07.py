"""C07 - Non-in-place operations never modify their inputs; in-place is equivalent.

Bounded part (Tier B).  For every state (layouts x stored zeros x metadata x
prior history) and every operation + argument choice of the shared alphabet
(props/ops_util.py):

operations with an ``inplace`` flag (filter, transform, norm, pa, rankdata,
remove_empty, update_ids)
    * ``inplace=False``: returns a new object; the receiver's IDs, values,
      metadata and type are unchanged (also when the call raises);
    * ``inplace=True``: returns the receiver itself;
    * the receiver after the in-place call has exactly the content the
      non-in-place call returned (bit-for-bit values);
operations documented to return a new table (sort, sort_order, transpose, copy,
head, subsample, partition, collapse, merge, concat, align_to)
    * never return the receiver or an argument table; receiver and argument
      tables are unchanged;
no show-through
    * every public in-place operation (transform on both axes, pa, norm,
      rankdata, update_ids, add_metadata, del_metadata, filter, remove_empty) is
      then applied to the *result*, in two orders (row-wise first / column-wise
      first, because a layout conversion un-aliases arrays), and after each one
      the receiver and the argument tables are compared with their snapshots.

Oracle: raw-field snapshots (``rt.view``) taken before the call.  Sharing of
mutable metadata *values* (one list object referenced by two tables) is outside
the property (DESIGN.md 8/C07) and is not tested.
"""
import numpy as np
import scipy.stats  # noqa: F401

from pyvc import rt
from props import ops_util as ou

LEVEL = 'other'
AXES = ou.AXES


def snap(t):
    v = rt.view(t)
    return ou.Content.of(v), v.type


def changed(t, s):
    """content fields of table t that differ from snapshot s"""
    v = rt.view(t)
    d = ou.content_diff(v, s[0])
    if v.type != s[1]:
        d.append('type')
    bad = rt.inv(t)
    if bad:
        d.append('Inv:' + ','.join(bad))
    return d


# the in-place operations applied to a result to see whether they reach the original
def _mutators(first_axis):
    a1, a2 = first_axis, ou.other_axis(first_axis)
    return [
        {'op': 'transform', 'axis': a1, 'f': 'double', 'inplace': True},
        {'op': 'transform', 'axis': a2, 'f': 'double', 'inplace': True},
        {'op': 'add_metadata', 'axis': a1, 'kind': 'all'},
        {'op': 'add_metadata', 'axis': a2, 'kind': 'one'},
        {'op': 'del_metadata', 'axis': 'whole', 'keys': ['grp', 'taxonomy', 'depth']},
        {'op': 'update_ids', 'axis': a1, 'kind': 'long', 'inplace': True},
        {'op': 'update_ids', 'axis': a2, 'kind': 'short', 'inplace': True},
        {'op': 'rankdata', 'axis': a1, 'inplace': True},
        {'op': 'transform', 'axis': a1, 'f': 'plus1', 'inplace': True},
        {'op': 'pa', 'inplace': True},
        {'op': 'norm', 'axis': a2, 'inplace': True},
        {'op': 'filter', 'axis': a1, 'sel': [0], 'form': 'list', 'invert': True, 'inplace': True},
        {'op': 'filter', 'axis': a2, 'sel': [0], 'form': 'pred_id', 'invert': True, 'inplace': True},
        {'op': 'transform', 'axis': a2, 'f': 'zero_big', 'inplace': True},
        {'op': 'remove_empty', 'axis': 'whole', 'inplace': True},
        {'op': 'del_metadata', 'axis': 'whole', 'keys': None},
    ]


def show_through(results, originals):
    """apply in-place operations to the result tables; originals = [(name, table, snapshot)].
    Returns (clause, expected, observed) of the first show-through or None."""
    for r in results:
        for mu in _MUT[show_through.first_axis]:
            try:
                o = ou.apply(r, mu)
            except Exception:
                continue
            if o.exc is not None:
                continue
            for name, tab, s in originals:
                d = changed(tab, s)
                if d:
                    return ('show-through/%s' % name, [], {'after in-place': mu, 'changed': d})
    return None


show_through.first_axis = 'observation'
_MUT = {ax: _mutators(ax) for ax in AXES}


def with_inplace(a, flag):
    b = dict(a)
    b['inplace'] = flag
    return b


def scenario(S, a):
    """all clauses of the property for raw state S (never modified) and operation a.
    Returns [(clause, expected, observed)]."""
    out = []
    op = a['op']
    s0 = snap(S)
    if 'inplace' in a:
        T1, T2 = ou.clone(S), ou.clone(S)
        o1 = ou.apply(T1, with_inplace(a, False))
        o2 = ou.apply(T2, with_inplace(a, True))
        if isinstance(o1.exc, ou._Skip):
            return out
        d = changed(T1, s0)
        if d:
            out.append(('not-inplace/receiver-unchanged', [], {'changed': d, 'raised': o1.exc is not None}))
        if (o1.exc is None) != (o2.exc is None):
            out.append(('inplace-equivalence/same-outcome', 'both variants return or both raise',
                        {'inplace=False': ou.describe_exc(o1.exc) if o1.exc else 'returned',
                         'inplace=True': ou.describe_exc(o2.exc) if o2.exc else 'returned'}))
        if o1.exc is not None or o2.exc is not None:
            return out
        if o1.result is T1:
            out.append(('not-inplace/returns-new-object', 'a new table', 'the receiver itself'))
        if o2.result is not T2:
            out.append(('inplace/returns-self', 'the receiver itself', 'another object'))
        d = changed(T2, snap(o1.result))
        if d:
            out.append(('inplace-equivalence/state', 'content returned by the inplace=False variant',
                        {'differs in': d, 'inplace=True': rt.view(T2).describe(),
                         'inplace=False': rt.view(o1.result).describe()}))
        if o1.result is not T1:
            for first in AXES:
                U = ou.clone(S)
                o = ou.apply(U, with_inplace(a, False))
                if o.exc is not None or o.result is U:
                    break
                show_through.first_axis = first
                r = show_through([o.result], [('receiver', U, s0)])
                if r:
                    out.append(r)
                    break
        return out
    if op in ou.NEW_TABLE_OPS:
        for k, first in enumerate(AXES):
            T = ou.clone(S)
            o = ou.apply(T, a)
            if isinstance(o.exc, ou._Skip):
                return out
            originals = [('receiver', T, s0)] + [('argument', ot, (oc, None)) for ot, oc in zip(o.others, o.other_contents)]
            if k == 0:
                d = changed(T, s0)
                if d:
                    out.append(('new-table/receiver-unchanged', [], {'changed': d, 'raised': o.exc is not None}))
                for ot, oc in zip(o.others, o.other_contents):
                    d = ou.content_diff(rt.view(ot), oc)
                    if d:
                        out.append(('new-table/argument-unchanged', [], {'changed': d}))
            if o.exc is not None:
                return out
            if k == 0 and any(r is T or any(r is ot for ot in o.others) for r in o.results):
                out.append(('new-table/returns-new-object', 'a new table', 'the receiver or an argument'))
                return out
            show_through.first_axis = first
            r = show_through(o.results, originals)
            if r:
                out.append(r)
                break
    return out


def ops_for(v):
    """the full argument alphabet with the inplace flag factored out"""
    seen, out = set(), []
    for a in ou.alphabet(v, 'full'):
        if a['op'] in ou.MUTATORS:
            continue
        b = dict(a)
        if 'inplace' in b:
            b['inplace'] = True
        key = repr(sorted(b.items()))
        if key not in seen:
            seen.add(key)
            out.append(b)
    return out


def run_state_case(case):
    S = rt.table_from_case(case)
    for a in case.get('prior', ()):
        o = ou.apply(S, a)
        if o.exc is not None or o.result is None:
            return {'fails': [], 'n': 0, 'nontrivial': False}
        S = o.result
    v = rt.view(S)
    if not ou.finite(v) or 0 in v.A.shape or rt.inv(S):
        return {'fails': [], 'n': 0, 'nontrivial': False}     # the prior history left the domain (non-empty, finite)
    fails, n, seen = [], 0, set()
    ops = ops_for(v)
    if 'only_ops' in case:
        ops = [a for a in ops if a['op'] in case['only_ops']]
    for a in ops:
        n += 1
        probs = scenario(S, a)
        for clause, exp, obs in probs:
            def again(tabs, clause=clause, a=a):
                return any(p[0] == clause for p in scenario(tabs[0], a))
            cls = '%s:%s' % (a['op'], ou.reduce_class([S], again, cache_key=(clause, a['op'])))
            if (clause, cls) in seen:
                continue
            seen.add((clause, cls))
            fails.append(rt.fail(clause, cls, exp, obs, witness=dict(case, operation=a)))
    return {'fails': fails, 'n': n, 'nontrivial': n > 0,
            'keys': {hash(repr((case, k))) for k in range(n)}}


SCOPES = {'states': run_state_case, 'histories': run_state_case}


# --------------------------------------------------------------------------
# states
# --------------------------------------------------------------------------

_MATS = [np.array([[1., 0., 2.], [0., 3., 0.]]), np.array([[0., 2.], [1., 1.], [0., 0.]]),
         np.array([[1., 0.], [2., 1.]]), np.array([[3.]]), np.array([[2., 4., 1.], [1., 5., 3.], [6., 1., 2.]])]


def _variants(dm):
    for lay in rt.LAYOUTS:
        for z in rt.ZEROS:
            if z != 'nz' and not np.any(dm == 0):
                continue
            yield lay, z


def state_cases(tier):
    # metadata on both axes, on neither, and on exactly one axis
    mds = [('none', 'none'), ('text', 'tax'), ('num', 'slash'), ('text', 'none'), ('none', 'tax')]
    j = 0
    for dm in (_MATS[:4] if tier == 'quick' else _MATS):
        for lay, z in _variants(dm):
            for omd, smd in mds:
                ids = list(rt.ID_ALPHABETS)[j % len(rt.ID_ALPHABETS)]
                j += 1
                yield {'A': dm.tolist(), 'layout': lay, 'zeros': z, 'obs_md': omd, 'samp_md': smd, 'ids': ids,
                       'type': 'OTU table' if j % 2 else None}
    for dm in rt.stress_matrices():
        for lay in rt.LAYOUTS:
            yield {'A': dm.tolist(), 'layout': lay, 'zeros': 'z1' if np.any(dm == 0) else 'nz', 'obs_md': 'text',
                   'samp_md': 'none'}
    if tier != 'quick':
        for dm in rt.matrices(0, 0, shapes=[(1, 1), (1, 2), (2, 1), (2, 2)]):
            for lay, z in _variants(dm):
                yield {'A': dm.tolist(), 'layout': lay, 'zeros': z}


def history_cases(tier):
    """states reached by one prior public operation (the reduced alphabet of the start state)"""
    q = tier == 'quick'
    bases = [{'A': _MATS[0].tolist(), 'obs_md': 'text', 'samp_md': 'tax'},
             {'A': _MATS[2].tolist(), 'obs_md': 'none', 'samp_md': 'none'}]
    for b in bases:
        for lay in rt.LAYOUTS:
            for z in (('z1',) if q else ('nz', 'zall')):
                st = dict(b, layout=lay, zeros=z)
                v = rt.view(rt.table_from_case(st))
                al = ou.alphabet(v, 'reduced')
                for k, a in enumerate(al):
                    if q and k % 4:
                        continue
                    yield dict(st, prior=[a])


def run(rep):
    from props import common
    if 'deductive' in rep.only:
        common.run_deductive(rep, 'C07')
    if 'bounded' in rep.only:
        rt.install_extracted_kernels()
        q = rep.tier == 'quick'
        rt.run_scope(rep, 'states', 'every operation x full argument alphabet (inplace flag factored out: both variants '
                     'run) x in-place operations applied to the result in two axis orders; states: matrices 2x3, '
                     '3x2, 2x2, 1x1 (thorough: + dense 3x3) + value-stress x layouts (csr, csr-unsorted, csc) x stored zeros '
                     '(none/one/all) x metadata (none, text+taxonomy, numeric+slash) x ID alphabets x type%s'
                     % ('' if q else '; every matrix over {0,1,2} up to 2x2 x layouts x stored zeros'),
                     state_cases(rep.tier), run_state_case, chunk=2, exhaustive=True)
        rt.run_scope(rep, 'histories', 'the same contract on states reached by one prior operation of the reduced '
                     'alphabet (%s) from 2x3 (text+taxonomy metadata) and 2x2 start tables x layouts x stored zeros'
                     % ('every 4th' if q else 'all'), history_cases(rep.tier), run_state_case, chunk=2, exhaustive=True)
        _fold(rep)
        rep.explanation = ('Bounded stand-in for C07: frame (receiver / arguments unchanged), identity of the returned '
                           'object, equivalence of in-place and non-in-place variants, and absence of show-through, '
                           'on the real library.')
    common.finish_notes(rep, 'C07')


def _fold(rep):
    first = {}
    for key in sorted(rep.violations, key=lambda k: 0 if k[0].startswith('states/') else 1):
        scope, clause = key[0].split('/', 1)
        base = (clause, key[1])
        if base in first:
            rep.violations[first[base]].count += rep.violations[key].count
            del rep.violations[key]
        else:
            first[base] = key


def replay(case):
    return rt.replay_case('C07', case)
