"""C04 - Written HDF5 files conform to the BIOM 2.1 layout; both matrix views agree.

Bounded part (this file).  Every file is written by the library (``Table.to_hdf5`` on an h5py handle or on a
``biom_open(path, 'w')`` handle, ``biom.save_table``, ``biom convert --to-hdf5``) into a fresh temp dir and then
read with ``h5_util.decode21`` - an independent decoder written from doc/documentation/format_versions/
biom-2.1.rst with raw h5py only.  Clauses:

  spec/<item>                   a required attribute / group / dataset is missing or has not the specified
                                element type or shape (attr-present, attr-type, group-present, dataset-present,
                                dataset-type/ids, dataset-type/matrix/indices, ...), or a matrix copy is not well
                                formed (matrix-indptr-length, -monotone, -end, matrix-index-range, matrix-length,
                                matrix-stored-zero, matrix-duplicate-entry), or metadata / group-metadata datasets
                                are not laid out as specified
  shape-attr, nnz-attr          equal the table's true dimensions and number of non-zero cells
  ids/observation, ids/sample   one entry per ID in axis order
  metadata/observation, /sample one entry per ID in axis order, decoding to the table's metadata
  matrix/observation, /sample   the compressed-row / compressed-column copy decodes to the table's matrix
                                (bit-identical); hence both copies agree
  header/<attr>                 id (placeholder "No Table ID" when absent), type ("" when absent),
                                generated-by, creation-date, group-metadata payload and data_type
  writes                        the writer does not raise on the property's domain

Oracle: the source table's raw view (``rt.view``) taken before writing; for ``biom convert`` the JSON input
decoded with the standard library.
"""
import json
import os

import numpy as np

from pyvc import rt
from props import h5_util as U

LEVEL = 'other'
WRITERS = ('to_hdf5', 'biom_open', 'save_table', 'save_table_default')


def _write(t, path, writer, gen, compress, date):
    import h5py
    import biom
    from biom.util import biom_open
    if writer == 'to_hdf5':
        with h5py.File(path, 'w') as h:
            t.to_hdf5(h, gen, compress=compress, creation_date=date)
    elif writer == 'biom_open':
        with biom_open(path, 'w') as h:
            t.to_hdf5(h, gen, compress=compress, creation_date=date)
    elif writer == 'save_table':
        biom.save_table(t, path, generated_by=gen, compress=compress, creation_date=date)
    elif writer == 'save_table_default':
        biom.save_table(t, path)
    else:
        raise ValueError(writer)


def check_file(path, exp, gen, date, gmd_types=None):
    """raw failure records of one written file against the expected view"""
    import h5py
    fails = []
    with h5py.File(path, 'r') as h:
        doc, problems = U.decode21(h)
    seen = set()
    for clause, where, detail in problems:
        if clause in seen:
            continue
        seen.add(clause)
        fails.append(U.raw('spec/' + clause, 'as specified in biom-2.1.rst', '%s: %s' % (where, detail)))
    A = np.asarray(exp.A, dtype=float)
    if doc['shape'] is not None and tuple(doc['shape']) != tuple(A.shape):
        fails.append(U.raw('shape-attr', list(A.shape), list(doc['shape'])))
    if doc['nnz'] is not None and doc['nnz'] != int(np.count_nonzero(A)):
        fails.append(U.raw('nnz-attr', int(np.count_nonzero(A)), doc['nnz']))
    got = U.doc_view(doc)
    for axis, ids in (('observation', exp.obs), ('sample', exp.samp)):
        dec = doc[axis]
        if dec.get('ids') is not None and dec['ids'] != ids:
            fails.append(U.raw('ids/' + axis, ids, dec['ids']))
        if dec.get('dense') is not None and not U.bits_equal(dec['dense'], A):
            fails.append(U.raw('matrix/' + axis, A.tolist(), dec['dense'].tolist()))
    if got.obs is not None and U.md_norm(got.obs_md) != U.md_norm(exp.obs_md):
        fails.append(U.raw('metadata/observation', U.md_norm(exp.obs_md), U.md_norm(got.obs_md)))
    if got.samp is not None and U.md_norm(got.samp_md) != U.md_norm(exp.samp_md):
        fails.append(U.raw('metadata/sample', U.md_norm(exp.samp_md), U.md_norm(got.samp_md)))
    a = doc['attrs']
    if 'id' in a and exp.table_id is not Ellipsis and a['id'] != (exp.table_id or U.PLACEHOLDER_ID):
        fails.append(U.raw('header/id', exp.table_id or U.PLACEHOLDER_ID, a['id']))
    if 'type' in a and exp.type is not Ellipsis and a['type'] != (exp.type or ''):
        fails.append(U.raw('header/type', exp.type or '', a['type']))
    if 'generated-by' in a:
        if gen is None:
            if not a['generated-by']:
                fails.append(U.raw('header/generated-by', 'a non-empty string', a['generated-by']))
        elif a['generated-by'] != gen:
            fails.append(U.raw('header/generated-by', gen, a['generated-by']))
    if 'creation-date' in a and date is not None and a['creation-date'] != date.isoformat():
        fails.append(U.raw('header/creation-date', date.isoformat(), a['creation-date']))
    if exp.obs_gmd is not Ellipsis:
        for axis, g in (('observation', exp.obs_gmd), ('sample', exp.samp_gmd)):
            want = {k: (v[0], v[1]) for k, v in (g or {}).items()}
            have = {k: (v[0], v[1]) for k, v in doc[axis].get('gmd', {}).items()}
            if want != have:
                fails.append(U.raw('header/group-metadata', want, have))
    return fails


def evaluate(case):
    t = U.build(case)
    src = U.V.of(rt.view(t))
    writer = case.get('writer', 'to_hdf5')
    gen = U.GENERATED_BY[case.get('gen', 'plain')]
    date = U.FIXED_DATE if case.get('date', True) else None
    if writer == 'save_table_default':
        gen, date = None, None
    with U.tmpdir() as d:
        path = os.path.join(d, 'table.biom')
        try:
            _write(t, path, writer, gen, bool(case.get('compress', True)), date)
        except Exception as e:
            return [U.raw('writes', writer + ' returns', U.exc_text(e))]
        return check_file(path, src, gen, date)


def run_case(case):
    try:
        raw = evaluate(case)
    except U.SkipCase:
        return {'fails': [], 'nontrivial': False, 'n': 0}
    return {'fails': U.reduce_fails(case, raw, evaluate) if raw else [], 'nontrivial': True, 'n': 1}


# ---- biom convert --to-hdf5 ----------------------------------------------

def evaluate_convert(case):
    import biom.cli  # noqa
    from biom.cli.table_converter import convert as convert_cmd
    t = U.build(case)
    text = t.to_json('verif-check 1.0')
    try:
        exp = U.json_view(json.loads(text))
    except ValueError as e:
        raise U.SkipCase('JSON input not decodable (C02 territory): %s' % e)
    # convert names an untyped table "Table" and stamps id/date/generated-by itself: not compared
    exp.type = Ellipsis
    exp.table_id = Ellipsis
    exp.obs_gmd = Ellipsis
    with U.tmpdir() as d:
        src, dst = os.path.join(d, 'in.json'), os.path.join(d, 'out.biom')
        with open(src, 'w', encoding='utf-8') as fh:
            fh.write(text)
        try:
            # the real click sub-command (argument parsing included) without click's sys.exit wrapper; the
            # `biom` group itself is bypassed because its on-close hook re-opens fd 1 in the calling process
            convert_cmd.main(args=['-i', src, '-o', dst, '--to-hdf5'], prog_name='biom convert',
                             standalone_mode=False)
        except BaseException as e:
            if isinstance(e, KeyboardInterrupt):
                raise
            return [U.raw('writes', 'biom convert --to-hdf5 succeeds', U.exc_text(e))]
        if not os.path.exists(dst):
            return [U.raw('writes', 'biom convert --to-hdf5 writes the output file', 'no file')]
        return check_file(dst, exp, None, None)


def run_convert_case(case):
    try:
        raw = evaluate_convert(case)
    except U.SkipCase:
        return {'fails': [], 'nontrivial': False, 'n': 0}
    return {'fails': U.reduce_fails(case, raw, evaluate_convert) if raw else [], 'nontrivial': True, 'n': 1}


SCOPES = {'conformance': run_case, 'convert-cli': run_convert_case}


def empty_axis_states(tier):
    """0 x M and N x 0 tables produced by filtering everything away, with and without metadata"""
    mats = ([[1.0]], [[1.0, 0.0], [2.0, 3.0]], [[0.0, 0.0, 0.0], [0.0, 0.0, 0.0]], [[1.0, 2.0, 0.0]])
    for A in mats:
        for axis in U.AXES:
            for lay in rt.LAYOUTS:
                for ids in ('plain', 'punct', 'long'):
                    for md in ('none', 'text', 'mixed'):
                        yield {'A': A, 'layout': lay, 'zeros': 'nz', 'ids': ids, 'obs_md': md,
                               'samp_md': 'none' if md == 'none' else 'text', 'empty': axis}
    yield {'A': [[1.0, 2.0], [0.0, 3.0]], 'empty': 'sample', 'history': ['transpose']}
    yield {'A': [[1.0, 2.0], [0.0, 3.0]], 'empty': 'observation', 'history': ['sort_rev_samp'], 'gmd': 'tree'}


def cases(tier, seed=0):
    q = tier == 'quick'
    k = 0
    for st in U.base_states(tier, seed):
        k += 1
        yield dict(st, compress=bool(k % 2), writer='to_hdf5')
        if not q or k % 4 == 0:
            yield dict(st, compress=not (k % 2), writer=WRITERS[1 + k % 3])
    for st in U.rich_states(tier):
        k += 1
        yield dict(st, compress=bool(k % 2), writer=WRITERS[k % 4])
    for st in U.header_states():
        for w in WRITERS:
            yield dict(st, compress=True, writer=w)
        yield dict(st, compress=False, writer='to_hdf5', date=False)
    for st in U.history_states(tier, seed):
        k += 1
        yield dict(st, compress=bool(k % 2), writer=WRITERS[k % 2])
    for st in empty_axis_states(tier):
        for w in (('to_hdf5', 'save_table') if q else WRITERS):
            for compress in (True, False):
                yield dict(st, compress=compress, writer=w)


def convert_cases(tier):
    q = tier == 'quick'
    k = 0
    for A in U.RICH_BASE + ([[0.0, 2.0], [0.0, 0.0]], [[5.0]], [[0.0, 0.0], [0.0, 0.0]]):
        for ids in sorted(rt.ID_ALPHABETS):
            for omd, smd in (('none', 'none'), ('tax', 'text'), ('mixed', 'num'), ('tax_ragged', 'text_edge')):
                k += 1
                if q and k % 3:
                    continue
                yield {'A': A, 'layout': rt.LAYOUTS[k % 3], 'zeros': rt.ZEROS[k % 3], 'ids': ids, 'obs_md': omd,
                       'samp_md': smd, 'type': (None, 'OTU table')[k % 2]}


def run(rep):
    from props import common
    if 'deductive' in rep.only:
        common.run_deductive(rep, 'C04')
    if 'bounded' in rep.only:
        q = rep.tier == 'quick'
        bound = ('files written by to_hdf5(h5py handle), to_hdf5(biom_open handle), save_table(path, ...) and '
                 'save_table(path) read by the independent BIOM 2.1 decoder: every matrix over {0,1,2} up to 2x2%s '
                 '(incl. all-zero) x layouts x stored zeros; value-stress matrices; %s random tables; ID alphabets x '
                 'metadata kinds (%s); header fields/group metadata; tables left by 17 public operations; '
                 '0 x M and N x 0 tables (4 matrices x axis x layouts x 3 alphabets x 3 metadata kinds x writers x '
                 'compression)' % ('' if q else ' (+ 2x3, 3x2, 3x3 over {0,1})', '24' if q else '560',
                                   'every 2nd' if q else 'all'))
        rt.run_scope(rep, 'conformance', bound, cases(rep.tier, rep.seed), run_case, chunk=16,
                     exhaustive=False, module='C04')
        rt.run_scope(rep, 'convert-cli', '`biom convert -i table.json -o out.biom --to-hdf5` on JSON written by '
                     'to_json: 6 matrices (one all-zero) x 5 ID alphabets x 4 metadata pairs%s; expected content = the JSON input '
                     'decoded with the standard library' % (' (every 3rd)' if q else ''),
                     convert_cases(rep.tier), run_convert_case, chunk=4, exhaustive=False, module='C04')
        rep.trust('h5py reads back what is in the file (dtypes, shapes, attributes)',
                  'the reading of biom-2.1.rst encoded in props/h5_util.decode21 (indptr has major+1 entries, as in '
                  'the specification\'s example; IDs and text are UTF-8)')
    common.finish_notes(rep, 'C04')


def replay(case):
    return rt.replay_case('C04', case)
