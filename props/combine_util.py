"""Shared helpers of the C09 / C10 / C11 / C17 bounded contracts.

* operands with controlled ID overlap: every operand names its IDs as ordered
  lists of *positions* in a per-axis pool of six IDs of one ID alphabet, so
  disjoint / nested / partial / identical / permuted ID sets are spelled out
  in the (JSON-able) case;
* per-operand representation (rt.LAYOUTS x rt.ZEROS) and a prior public
  operation ("history");
* dense oracles keyed by (observation id, sample id), computed from raw views;
* witness-class minimisation: a clause that also fails on the canonical
  re-encoding of the same case (csr, no stored zeros, plain IDs, no history)
  is not caused by the representation and is filed under the canonical class,
  so one representation-independent root cause yields one (clause, class).
"""
import copy
import math

import numpy as np

from pyvc import rt

POOL = 6
AXES = ('sample', 'observation')
HISTORIES = ('none', 'sort_rev', 'filter_all', 'transpose2', 'nnz')


def other_axis(axis):
    return 'observation' if axis == 'sample' else 'sample'


_NATLEX = [2, 10, 1, 21, 3, 100, 11, 20, 9, 30, 12, 200]


def pool_ids(kind, axis):
    if kind == 'natlex':
        # ids whose natural order (x2 < x10) and lexicographic order ('x10' < 'x2') differ
        return ['%s%d' % ('o' if axis == 'observation' else 'x', _NATLEX[k % len(_NATLEX)] + 1000 * (k // len(_NATLEX)))
                for k in range(POOL)]
    return rt.make_ids(kind, axis, POOL)


def op_md(kind, axis, positions, opidx):
    """metadata of one operand: depends on the pool position of the ID *and*
    on the operand, so that two operands disagree about a shared ID"""
    if kind in (None, 'none'):
        return None
    out = []
    for p in positions:
        if kind == 'text':
            out.append({'grp': 'g%d' % (p % 2), 'name': 'n%d%s.t%d' % (p, axis[0], opidx)})
        elif kind == 'num':
            out.append({'depth': float(p) + 0.5 + opidx, 'count': p * 3 + opidx, 'flag': bool((p + opidx) % 2)})
        elif kind == 'tax':
            out.append({'taxonomy': ['k__A', 'p__B%d' % (p % 2), 's__C%d_%d' % (p, opidx)]})
        elif kind == 'slash':
            out.append({'a/b': 'v%d.%d' % (p, opidx), 'grp': 'g%d' % (p % 2)})
        else:
            raise ValueError(kind)
    return out


_VALUES = (0, 1, 2, 0, 3, 5, 0, 4)


def gen_matrix(r, c, salt, values=_VALUES):
    """deterministic small-integer matrix with zeros in it"""
    out = []
    for i in range(r):
        row = []
        for j in range(c):
            h = (salt * 7919 + i * 104729 + j * 1299709 + (salt + 1) * (i + 2) * (j + 3) * 31) % 1000003
            row.append(float(values[h % len(values)]))
        out.append(row)
    return out


def operand(obs, samp, salt=0, layout='csr', zeros='nz', omd='none', smd='none', hist='none', A=None):
    """JSON-able operand spec"""
    return {'obs': list(obs), 'samp': list(samp),
            'A': A if A is not None else gen_matrix(len(obs), len(samp), salt),
            'layout': layout, 'zeros': zeros, 'omd': omd, 'smd': smd, 'hist': hist}


def apply_history(t, hist):
    """a prior public operation; the oracle is taken from the view afterwards"""
    if hist in (None, 'none'):
        return t
    if hist == 'sort_rev':
        # new table through sort_order (scipy fancy indexing leaves unsorted indices)
        return t.sort_order(list(t.ids())[::-1], axis='sample')
    if hist == 'filter_all':
        t.filter(lambda v, i, m: True, axis='sample', inplace=True)
        return t
    if hist == 'transpose2':
        return t.transpose().transpose()
    if hist == 'nnz':
        t.nnz           # public accessor that rewrites the representation
        return t
    raise ValueError(hist)


def build_operand(spec, opidx, ids_kind='plain'):
    po, ps = pool_ids(ids_kind, 'observation'), pool_ids(ids_kind, 'sample')
    oid = [po[p] for p in spec['obs']]
    sid = [ps[p] for p in spec['samp']]
    A = np.array(spec['A'], dtype=float).reshape(len(oid), len(sid))
    zeros = spec.get('zeros', 'nz')
    if zeros != 'nz' and not np.any(A == 0):
        zeros = 'nz'
    t = rt.make_table(A, spec.get('layout', 'csr'), zeros,
                      ids={'observation': oid, 'sample': sid},
                      obs_md=op_md(spec.get('omd'), 'observation', spec['obs'], opidx),
                      samp_md=op_md(spec.get('smd'), 'sample', spec['samp'], opidx))
    return apply_history(t, spec.get('hist', 'none'))


def build_operands(case):
    return [build_operand(s, k, case.get('ids', 'plain')) for k, s in enumerate(case['ops'])]


# --------------------------------------------------------------------------
# oracles on views
# --------------------------------------------------------------------------

def cellmap(v):
    """{(obs id, sample id): value} of a view"""
    out = {}
    for i, o in enumerate(v.obs):
        for j, s in enumerate(v.samp):
            out[(o, s)] = float(v.A[i, j])
    return out


def md_of(v, axis):
    """{id: plain metadata dict or None}"""
    ids, md = v.ids(axis), v.md(axis)
    return {x: (None if md is None else (md[k] or None)) for k, x in enumerate(ids)}


def md_same(a, b):
    """'no metadata' is None or an empty mapping"""
    return (a or None) == (b or None)


def total(v):
    try:
        return math.fsum(float(x) for x in v.A.ravel())
    except OverflowError:       # the exact sum exceeds the double range
        return float(np.sum(v.A))


def is_dyadic(vals, bits=20, big=2.0 ** 40):
    for x in vals:
        x = float(x)
        if not math.isfinite(x) or abs(x) > big or (x * (1 << bits)) != math.floor(x * (1 << bits)):
            return False
    return True


def close(a, b, exact):
    if exact:
        return a == b
    if math.isinf(a) or math.isinf(b) or math.isnan(a) or math.isnan(b):
        return repr(a) == repr(b)
    return math.isclose(a, b, rel_tol=1e-12, abs_tol=0.0)


def compare_cells(got, want, exact=True):
    """-> list of ((obs, samp), want, got) differences (first 6)"""
    bad = []
    for key in want:
        if key not in got:
            bad.append((key, want[key], 'missing'))
        elif not close(got[key], want[key], exact):
            bad.append((key, want[key], got[key]))
    for key in got:
        if key not in want:
            bad.append((key, 'absent', got[key]))
    return bad[:6]


# --------------------------------------------------------------------------
# witness classes
# --------------------------------------------------------------------------

def multi_state_class(case, specs=None):
    """union of rt.state_class features over all operands of a case"""
    feats = []
    order = ['unsorted-indices', 'csc', 'stored-zeros', 'negative-values']
    seen = set()
    specs = case['ops'] if specs is None else specs
    for s in specs:
        c = rt.state_class({'A': s['A'], 'layout': s.get('layout', 'csr'), 'zeros': s.get('zeros', 'nz')})
        for p in c.split('+'):
            if p != 'canonical':
                seen.add(p)
        if s.get('hist', 'none') not in (None, 'none'):
            seen.add('history')
    feats = [p for p in order if p in seen]
    if 'history' in seen:
        feats.append('history')
    if case.get('ids', 'plain') != 'plain':
        feats.append('ids-' + case['ids'])
    return '+'.join(feats) or 'canonical'


def _abs(A):
    return [[abs(x) for x in row] for row in A]


def canonical_case(case, abs_values=False):
    """same operation on the canonical re-encoding of the same operands
    (optionally with |values|, to tell value-sign dependent failures apart)"""
    c = copy.deepcopy(case)
    c['ids'] = 'plain'
    for s in c.get('ops', []):
        s['layout'], s['zeros'], s['hist'] = 'csr', 'nz', 'none'
        if abs_values:
            s['A'] = _abs(s['A'])
    for k in ('layout', 'zeros', 'hist'):
        if k in c:
            c[k] = {'layout': 'csr', 'zeros': 'nz', 'hist': 'none'}[k]
    if abs_values and 'A' in c:
        c['A'] = _abs(c['A'])
    c['_canonical'] = True
    return c


def _has_negative(case):
    mats = [s['A'] for s in case.get('ops', [])] + ([case['A']] if 'A' in case else [])
    return any(x < 0 for A in mats for row in A for x in row)


def is_canonical(case):
    if case.get('_canonical'):
        return True
    if case.get('ids', 'plain') != 'plain':
        return False
    if case.get('layout', 'csr') != 'csr' or case.get('zeros', 'nz') != 'nz' or case.get('hist', 'none') != 'none':
        return False
    return all(s.get('layout', 'csr') == 'csr' and s.get('zeros', 'nz') == 'nz' and s.get('hist', 'none') == 'none'
               for s in case.get('ops', []))


def minimise_classes(case, fails, core, sclass):
    """fails: list of rt.fail dicts whose wclass is '<state class>|<tag>' or
    '<state class>'.  Re-run ``core`` on canonical variants of the case (first
    with |values|, then with the values kept); every clause that fails there
    too is re-filed under that variant's (smaller) state class."""
    neg = _has_negative(case)
    if not fails or (is_canonical(case) and not neg):
        return fails
    state = sclass(case)
    variants = ([canonical_case(case, abs_values=True)] if neg else []) + \
        ([] if is_canonical(case) else [canonical_case(case)])
    out = list(fails)
    todo = set(range(len(out)))
    for canon in variants:
        if not todo:
            break
        try:
            cf = core(canon)
        except Exception:
            continue
        cstate = sclass(canon)
        still = {(f['clause'], tag_of(f['wclass'], cstate)) for f in cf}
        for i in sorted(todo):
            tag = tag_of(out[i]['wclass'], state)
            if (out[i]['clause'], tag) in still:
                out[i] = dict(out[i], wclass=join_class(cstate, tag))
                todo.discard(i)
    return out


def join_class(state, tag):
    return state + ('|' + tag if tag else '')


def tag_of(wclass, state):
    return wclass.split('|', 1)[1] if '|' in wclass else ''
