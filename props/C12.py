"""C12 - Subsampling (rarefaction) draws exactly n counts per vector, never inventing any.

Bounded part: the statement of C12 evaluated on the real Table.subsample,
the biom.subsample kernel (as extracted from _subsample.pyx) and
biom.util.generate_subsamples over every count vector up to length 3 over
{0,1,2,5} embedded in a non-square table, n in 1..6, both axes, with/without
replacement, by_id, seeds, every layout reachable through the public API and
every stored-zero mode, plus large counts and operation histories.

The distributional conjunct ("each original unit count (or ID) is equally
likely to be kept") is evaluated only in the thorough tier, as an exact
expectation check of per-entry means over many fixed seeds with a 6-sigma
band (scope `unbiased`); seeds are fixed, so the outcome is deterministic.
"""
import itertools
import math

import numpy as np
import scipy.sparse as sp

from pyvc import rt
from props import values_util as vu

LEVEL = 'other'
AXES = vu.AXES
ALPHABET = (0, 1, 2, 5)


# --------------------------------------------------------------------------
# the statement as predicates on (pre-view, post-view)
# --------------------------------------------------------------------------

def _vectors(v, axis):
    """{id: dense vector} along axis, and the list of other-axis ids"""
    ids = v.ids(axis)
    return {ids[k]: np.array(v.vec(axis, k), dtype=float) for k in range(len(ids))}


def _check_structure(pre, out, axis, n, mode):
    """-> list of (clause, expected, observed); clause names are the conjuncts
    of the statement.  Later conjuncts are only evaluated when the earlier
    ones they build on hold (a wrong set of retained IDs makes a cell-by-cell
    comparison meaningless and would only multiply the reports)."""
    fails = []
    oax = vu.other(axis)
    pids, poth = pre.ids(axis), pre.ids(oax)
    oids, ooth = out.ids(axis), out.ids(oax)
    pvec = _vectors(pre, axis)
    totals = {i: float(pvec[i].sum()) for i in pids}
    # --- IDs are original IDs, no duplicates
    if len(set(oids)) != len(oids) or not set(oids) <= set(pids):
        return [('%s/retained-ids' % mode, 'distinct original IDs', oids)]
    if len(set(ooth)) != len(ooth) or not set(ooth) <= set(poth):
        return [('%s/other-axis-ids' % mode, 'distinct original IDs', ooth)]
    if out.A.shape != (len(out.obs), len(out.samp)):
        return [('%s/shape' % mode, (len(out.obs), len(out.samp)), out.A.shape)]
    # --- which vectors are retained
    if mode == 'without-replacement':
        want = [i for i in pids if totals[i] >= n]
        if set(oids) != set(want):
            return [('%s/retained-exactly-total>=n' % mode, want, oids)]
    elif mode == 'with-replacement':
        must = [i for i in pids if totals[i] > 0]
        if not set(must) <= set(oids):
            return [('%s/positive-total-retained' % mode, must, oids)]
    else:
        k = min(n, len(pids))
        if len(oids) != k:
            return [('%s/keeps-min(n,N)-ids' % mode, k, oids)]
    # --- values, aligned by ID on both axes
    opos = {j: k for k, j in enumerate(poth)}
    ovec = _vectors(out, axis)
    kept_other = [opos[j] for j in ooth]
    for i in oids:
        new = ovec[i]
        old = pvec[i][kept_other]
        if mode == 'by-id':
            if not np.array_equal(new, old):
                fails.append(('%s/values-unchanged' % mode, {i: old.tolist()}, {i: new.tolist()}))
                break
            continue
        if np.any(new != np.floor(new)) or np.any(new < 0):
            fails.append(('%s/entries-nonneg-integers' % mode, 'non-negative integers', {i: new.tolist()}))
            break
        if mode == 'without-replacement':
            if new.sum() != n:
                fails.append(('%s/vector-sums-to-n' % mode, {i: n}, {i: new.tolist()}))
                break
            if np.any(new > old):
                fails.append(('%s/entry<=original' % mode, {i: old.tolist()}, {i: new.tolist()}))
                break
        else:
            if totals[i] > 0 and new.sum() != n:
                fails.append(('%s/vector-sums-to-n' % mode, {i: n}, {i: new.tolist()}))
                break
            if np.any((new != 0) & (old == 0)):
                fails.append(('%s/nonzero-only-where-original' % mode, {i: old.tolist()}, {i: new.tolist()}))
                break
    if fails:
        return fails
    # --- other-axis vectors left all-zero are dropped
    if mode == 'by-id':
        rows = [pre.ids(axis).index(i) for i in oids]
        M = pre.A[:, rows] if axis == 'sample' else pre.A[rows, :].T      # other x kept
        want = [j for k, j in enumerate(poth) if np.any(M[k] != 0)]
        if set(ooth) != set(want):
            fails.append(('%s/other-axis-all-zero-dropped' % mode, want, ooth))
    else:
        M = out.A if axis == 'observation' else out.A.T        # on-axis x other
        empty = [ooth[k] for k in range(len(ooth)) if not np.any(M[:, k] != 0)] if len(oids) else list(ooth)
        if empty:
            fails.append(('%s/other-axis-all-zero-dropped' % mode, [], empty))
    return fails


MODES = {'without-replacement': dict(by_id=False, with_replacement=False),
         'with-replacement': dict(by_id=False, with_replacement=True),
         'by-id': dict(by_id=True, with_replacement=False)}


def _core(case):
    t = vu.build(case)
    pre = rt.view(t)
    bad = rt.inv(t)
    if bad:
        return [('pre/Inv', [], bad)], 0, False
    axis, n, mode = case['axis'], case['n'], case['mode']
    kw = MODES[mode]
    fails, nev = [], 0
    names = set()

    def add(fl):
        for f in fl:
            if f[0] not in names:
                names.add(f[0])
                fails.append(f)
    for seed in case['seeds']:
        nev += 1
        st, res = vu.call_f(lambda: t.subsample(n, axis=axis, seed=seed, **kw))
        if st == 'exc':
            add([('%s/returns-a-table' % mode, 'a table', res)])
            continue
        out = rt.view(res)
        add(_check_structure(pre, out, axis, n, mode))
        bad = rt.inv(res)
        if bad:
            add([('%s/post/Inv' % mode, [], bad)])
        if res is t:
            add([('%s/returns-fresh-table' % mode, 'a new table', 'self')])
        # same seed reproduces
        st2, res2 = vu.call_f(lambda: t.subsample(n, axis=axis, seed=seed, **kw))
        if st2 == 'ok':
            d = rt.view(res2).diff(out, fields=('obs', 'samp', 'A'))
            if d:
                add([('%s/same-seed-same-result' % mode, out.describe(), rt.view(res2).describe())])
    d = rt.view(t).diff(pre)
    if d:
        add([('%s/input-not-modified' % mode, [], d)])
    pv = _vectors(pre, axis)
    tot = [float(x.sum()) for x in pv.values()]
    nontrivial = (any(x >= n for x in tot) and (mode != 'by-id')) or (mode == 'by-id' and n < len(tot))
    return fails, nev, nontrivial


def _tag(case):
    return 'axis-%s' % case['axis']


def run_subsample_case(case):
    fails, nev, nontrivial = _core(case)
    # failures of a random operation are draw dependent: the class-minimising
    # re-runs use 16 seeds so that "still fails on the simpler state" is robust
    return {'fails': vu.classify(case, fails, lambda c: _core(dict(c, seeds=list(range(16))))[0], _tag(case),
                                 family=lambda clause: clause.split('/')[0]),
            'n': nev, 'nontrivial': nontrivial}


# --------------------------------------------------------------------------
# biom.subsample: the kernel on raw compressed matrices
# --------------------------------------------------------------------------

def _kernel_matrix(case):
    slices = case['slices']
    width = max([len(s) for s in slices] + [1])
    indptr, indices, data = [0], [], []
    for s in slices:
        cols = list(range(len(s)))
        if case.get('reverse'):
            cols = cols[::-1]
        indices.extend(cols)
        data.extend(float(x) for x in s)
        indptr.append(len(indices))
    args = (np.array(data, dtype=np.float64), np.array(indices, dtype=np.int32), np.array(indptr, dtype=np.int32))
    if case['fmt'] == 'csr':
        return sp.csr_matrix(args, shape=(len(slices), width))
    return sp.csc_matrix(args, shape=(width, len(slices)))


def run_kernel_case(case):
    import biom
    n, wr = case['n'], case['wr']
    mode = 'with-replacement' if wr else 'without-replacement'
    wcls = 'kernel-%s' % case['fmt'] + ('+stored-zeros' if any(0 in s for s in case['slices']) else '')
    fails, nev = [], 0
    names = set()

    def add(clause, exp, obs):
        if clause not in names:
            names.add(clause)
            fails.append(rt.fail(clause, wcls, exp, obs))
    for seed in case['seeds']:
        nev += 1
        m = _kernel_matrix(case)
        ip0, ix0, d0 = m.indptr.copy(), m.indices.copy(), m.data.copy()
        st, res = vu.call_f(lambda: biom.subsample(m, n, wr, np.random.default_rng(seed)))
        if st == 'exc':
            add('%s/returns' % mode, 'returns', res)
            continue
        if not (np.array_equal(m.indptr, ip0) and np.array_equal(m.indices, ix0) and len(m.data) == len(d0)):
            add('%s/structure-untouched' % mode, [ip0.tolist(), ix0.tolist()], [m.indptr.tolist(), m.indices.tolist()])
            continue
        for k in range(len(ip0) - 1):
            old, new = d0[ip0[k]:ip0[k + 1]], m.data[ip0[k]:ip0[k + 1]]
            tot = old.sum()
            if np.any(new != np.floor(new)) or np.any(new < 0):
                add('%s/entries-nonneg-integers' % mode, 'non-negative integers', new.tolist())
            elif not wr:
                if tot < n:
                    if np.any(new != 0):
                        add('%s/total<n-zeroed' % mode, [0] * len(old), new.tolist())
                elif new.sum() != n:
                    add('%s/vector-sums-to-n' % mode, n, new.tolist())
                elif np.any(new > old):
                    add('%s/entry<=original' % mode, old.tolist(), new.tolist())
            else:
                if tot > 0 and new.sum() != n:
                    add('%s/vector-sums-to-n' % mode, n, new.tolist())
                elif np.any((new != 0) & (old == 0)):
                    add('%s/nonzero-only-where-original' % mode, old.tolist(), new.tolist())
        m2 = _kernel_matrix(case)
        biom.subsample(m2, n, wr, np.random.default_rng(seed))
        if not np.array_equal(m2.data, m.data):
            add('%s/same-seed-same-result' % mode, m.data.tolist(), m2.data.tolist())
    return {'fails': fails, 'n': nev, 'nontrivial': any(sum(s) >= n for s in case['slices'])}


# --------------------------------------------------------------------------
# biom.util.generate_subsamples
# --------------------------------------------------------------------------

def _gen_core(case):
    from biom.util import generate_subsamples
    t = vu.build(case)
    pre = rt.view(t)
    axis, n, mode = case['axis'], case['n'], case['mode']
    fails = []
    names = set()
    st, gen = vu.call_f(lambda: generate_subsamples(t, n, axis=axis, by_id=(mode == 'by-id')))
    if st == 'exc':
        return [('generate/returns-generator', 'generator', gen)], 1, False
    nev = 0
    for _ in range(case['draws']):
        nev += 1
        st, res = vu.call_f(lambda: next(gen))
        if st == 'exc':
            fl = [('generate/%s/returns-a-table' % mode, 'a table', res)]
        else:
            fl = [('generate/' + c, e, o) for c, e, o in _check_structure(pre, rt.view(res), axis, n, mode)]
        for f in fl:
            if f[0] not in names:
                names.add(f[0])
                fails.append(f)
    if rt.view(t).diff(pre):
        fails.append(('generate/input-not-modified', [], rt.view(t).diff(pre)))
    return fails, nev, True


def run_generate_case(case):
    # the generator cannot be seeded, so a failure cannot be re-run for class
    # minimisation: one class per axis, the state is in the witness
    fails, nev, nt = _gen_core(case)
    return {'fails': [rt.fail(c, 'any-state+' + _tag(case), e, o) for c, e, o in fails], 'n': nev, 'nontrivial': nt}


# --------------------------------------------------------------------------
# unbiasedness (thorough only): exact expectations over many fixed seeds
# --------------------------------------------------------------------------

def run_unbiased_case(case):
    """per-entry mean over seeds 0..S-1 against the exact expectation:
    without replacement entry i ~ Hypergeometric(T, v_i, n): mean n v_i/T,
    variance n p (1-p) (T-n)/(T-1); with replacement Binomial(n, v_i/T);
    by_id: each ID kept with probability min(n,N)/N (Bernoulli).  Band:
    6 standard errors + 1e-9.  Seeds are fixed, hence deterministic.  When the
    structural conjuncts fail for the case nothing is evaluated here: those
    failures are reported once, by scope `subsample`."""
    t = vu.build(case)
    pre = rt.view(t)
    axis, n, mode, S = case['axis'], case['n'], case['mode'], case['nseeds']
    kw = MODES[mode]
    ids = pre.ids(axis)
    oth = pre.ids(vu.other(axis))
    k0 = case['k']                                  # position of the vector under study
    v = np.array(pre.vec(axis, k0), dtype=float)
    T = v.sum()
    acc = np.zeros(len(v))
    kept = np.zeros(len(ids))
    for seed in range(S):
        st, res = vu.call_f(lambda: t.subsample(n, axis=axis, seed=seed, **kw))
        if st == 'exc':
            return {'fails': [], 'n': 0, 'nontrivial': False}
        out = rt.view(res)
        if _check_structure(pre, out, axis, n, mode):
            return {'fails': [], 'n': 0, 'nontrivial': False}
        oids, ooth = out.ids(axis), out.ids(vu.other(axis))
        for i in oids:
            kept[ids.index(i)] += 1
        if mode != 'by-id' and ids[k0] in oids:
            new = out.vec(axis, oids.index(ids[k0]))
            for pos, j in enumerate(ooth):
                acc[oth.index(j)] += new[pos]
    fails = []
    wcls = vu.base_class(case) + '+' + _tag(case)
    if mode == 'by-id':
        N = len(ids)
        p = min(n, N) / N
        se = math.sqrt(p * (1 - p) / S)
        dev = np.abs(kept / S - p)
        if np.any(dev > 6 * se + 1e-9):
            fails.append(rt.fail('by-id/each-id-equally-likely', wcls,
                                 {'p': p, 'band': 6 * se}, (kept / S).tolist()))
    else:
        if mode == 'without-replacement' and T < n:
            return {'fails': [], 'n': 0, 'nontrivial': False}
        p = v / T
        if mode == 'without-replacement':
            var = n * p * (1 - p) * ((T - n) / (T - 1) if T > 1 else 0.0)
        else:
            var = n * p * (1 - p)
        se = np.sqrt(var / S)
        dev = np.abs(acc / S - n * p)
        if np.any(dev > 6 * se + 1e-9):
            fails.append(rt.fail('%s/each-unit-equally-likely' % mode, wcls,
                                 {'mean': (n * p).tolist(), 'band': (6 * se).tolist()}, (acc / S).tolist()))
    return {'fails': fails, 'n': S, 'nontrivial': True}


run_subsample_case, run_generate_case = vu.history_guard(run_subsample_case), vu.history_guard(run_generate_case)
SCOPES = {'subsample': run_subsample_case, 'kernel': run_kernel_case, 'generate_subsamples': run_generate_case,
          'unbiased': run_unbiased_case}


# --------------------------------------------------------------------------
# enumeration
# --------------------------------------------------------------------------

def count_vectors(maxlen=3):
    for L in range(1, maxlen + 1):
        for cells in itertools.product(ALPHABET, repeat=L):
            yield list(cells)


def embed(vec, idx, axis):
    """the vector as the *second* vector along `axis` of a non-square count
    table with L+1 vectors of length L; companions are other vectors of the
    same enumeration (so all-zero and single-entry companions occur)."""
    L = len(vec)
    VL = [list(c) for c in itertools.product(ALPHABET, repeat=L)]
    comps = [VL[(idx + 1 + 5 * j) % len(VL)] for j in range(L)]
    cols = [comps[0], vec] + comps[1:]
    M = np.array(cols, dtype=float).T            # L x (L+1): vectors are columns (samples)
    return M if axis == 'sample' else M.T


LARGE = [([10 ** 6, 3, 0], (1, 6, 50, 10 ** 6 + 3)), ([2 ** 40, 1], (1, 6, 50)), ([12345, 0, 54321], (1, 50, 66666)),
         ([2 ** 31, 2 ** 31 + 7, 5], (1, 6, 2 ** 12))]


def subsample_cases(tier):
    q = tier == 'quick'
    seeds = [0, 1] if q else list(range(20))
    vecs = list(count_vectors(3))
    for idx, vec in enumerate(vecs):
        if q and len(vec) == 3 and idx % 4:
            continue
        for axis in AXES:
            M = embed(vec, idx, axis)
            for k, st in enumerate(vu.rep_states(M)):
                if q and len(vec) == 3 and st['layout'] != rt.LAYOUTS[(idx // 4 + k) % 3]:
                    continue
                for n in range(1, 7):
                    if q and len(vec) > 1 and n in (4, 5) and (idx + n) % 2:
                        continue
                    for mode in MODES:
                        yield dict(st, axis=axis, n=n, mode=mode, seeds=seeds)
    # large counts
    for vec, ns in LARGE:
        for axis in AXES:
            M = embed(vec, 0, axis)
            M[M == 5] = 7.0
            for st in vu.rep_states(M, zeros=('nz', 'zall')):
                for n in ns:
                    for mode in ('without-replacement', 'with-replacement'):
                        yield dict(st, axis=axis, n=n, mode=mode, seeds=seeds[:3])
    # ID alphabets (by_id compares numpy strings with a Python set) and metadata
    for ids, omd, smd in vu.md_id_variants():
        for axis in AXES:
            M = embed([2, 0, 5], 7, axis)
            for lay in rt.LAYOUTS:
                for n in (1, 2, 5):
                    for mode in MODES:
                        yield dict(A=M.tolist(), layout=lay, zeros='z1', ids=ids, obs_md=omd, samp_md=smd,
                                   axis=axis, n=n, mode=mode, seeds=seeds[:4])
    # histories
    for hist in vu.STD_HISTORIES + (['subsample_ids'],):
        for vi in (21, 37, 58, 83) if q else range(4, 84, 3):
            vec = vecs[vi]
            for axis in AXES:
                M = embed(vec, vi, axis)
                for lay, z in (('csr', 'nz'), ('csr_unsorted', 'z1'), ('csc', 'zall')):
                    if z != 'nz' and not np.any(M == 0):
                        z = 'nz'
                    for n in (1, 2, 5):
                        for mode in MODES:
                            yield dict(A=M.tolist(), layout=lay, zeros=z, hist=list(hist), axis=axis, n=n,
                                       mode=mode, seeds=seeds[:5])


def kernel_cases(tier):
    q = tier == 'quick'
    seeds = [0, 1, 2] if q else list(range(20))
    vecs = list(count_vectors(3))
    for idx, vec in enumerate(vecs):
        if q and idx % 3 and len(vec) == 3:
            continue
        L = len(vec)
        others = [vecs[(idx * 7 + 3) % len(vecs)], [], vecs[(idx * 11 + 1) % len(vecs)]]
        for fmt in ('csr', 'csc'):
            for n in range(1, 7):
                for rev in (False, True):
                    # without replacement: stored zeros, empty and all-zero slices included
                    yield dict(slices=[others[0], vec, others[1], others[2]], fmt=fmt, n=n, wr=False,
                               reverse=rev, seeds=seeds)
                    # with replacement: the statement speaks about vectors with a positive total only
                    pos = [s for s in (others[0], vec, others[2]) if sum(s) > 0]
                    if pos:
                        yield dict(slices=pos, fmt=fmt, n=n, wr=True, reverse=rev, seeds=seeds)
    for vec, ns in LARGE:
        for fmt in ('csr', 'csc'):
            for n in ns:
                for wr in (False, True):
                    yield dict(slices=[[3, 1], vec, [n]], fmt=fmt, n=n, wr=wr, seeds=seeds[:3])


def generate_cases(tier):
    q = tier == 'quick'
    vecs = list(count_vectors(3))
    for vi in range(0, 84, 9 if q else 2):
        vec = vecs[vi]
        for axis in AXES:
            M = embed(vec, vi, axis)
            for st in vu.rep_states(M):
                for n in (1, 2, 6):
                    for mode in ('without-replacement', 'by-id'):
                        yield dict(st, axis=axis, n=n, mode=mode, draws=2 if q else 4)


UNBIASED_VECTORS = [[1, 2, 5], [2, 2], [5, 1], [1, 1, 1], [5, 5, 2], [0, 2, 1]]


def unbiased_cases(tier):
    S = 2000
    for vi, vec in enumerate(UNBIASED_VECTORS):
        for axis in AXES:
            M = embed(vec, 3 * vi + 2, axis)
            for lay, z in (('csr', 'nz'), ('csr_unsorted', 'zall'), ('csc', 'z1')):
                if z != 'nz' and not np.any(M == 0):
                    z = 'nz'
                for n in (1, 2, 3):
                    for mode in MODES:
                        yield dict(A=M.tolist(), layout=lay, zeros=z, axis=axis, n=n, mode=mode, k=1, nseeds=S)


def run(rep):
    from props import common
    if 'deductive' in rep.only:
        common.run_deductive(rep, 'C12')
    if 'bounded' in rep.only:
        q = rep.tier == 'quick'
        rt.run_scope(rep, 'subsample',
                     'every count vector up to length 3 over {0,1,2,5}%s embedded as one of L+1 vectors of a non-square '
                     'table x every layout (csr, csr-unsorted, csc) x stored zeros (none/one/all) x n in 1..6 x axis x '
                     '{without, with replacement, by_id} x seeds %s (each seed run twice: same-seed equality); plus large '
                     'counts (1e6, 2^31, 2^40), ID alphabets/metadata kinds, and 10 operation histories'
                     % (' (quick: every 4th of length 3, one layout each)' if q else '', '0..1' if q else '0..19'),
                     subsample_cases(rep.tier), run_subsample_case, chunk=16, exhaustive=not q)
        rt.run_scope(rep, 'kernel',
                     'biom.subsample on raw csr/csc matrices whose slices are the same count vectors (stored zeros, empty '
                     'and all-zero slices; index order forward/reversed) x n in 1..6 x with/without replacement x seeds; '
                     'with replacement only slices with a positive total',
                     kernel_cases(rep.tier), run_kernel_case, chunk=16, exhaustive=not q)
        rt.run_scope(rep, 'generate_subsamples',
                     'biom.util.generate_subsamples: first draws of the (unseeded) generator satisfy the structural '
                     'conjuncts; sampled vectors x layouts x stored zeros x n in {1,2,6} x axis x {counts, by_id}',
                     generate_cases(rep.tier), run_generate_case, chunk=16, exhaustive=False)
        if not q:
            rt.run_scope(rep, 'unbiased',
                         'per-entry mean over seeds 0..1999 vs exact hypergeometric / multinomial / ID-inclusion '
                         'expectation, 6-sigma band; 6 small vectors x 3 representations x n in 1..3 x axis x mode',
                         unbiased_cases(rep.tier), run_unbiased_case, chunk=1, exhaustive=False)
        else:
            rep.notes['unbiasedness'] = ('not evaluated in the quick tier (distributional conjunct; thorough tier '
                                         'runs the exact-expectation scope `unbiased`)')
    common.finish_notes(rep, 'C12')


def replay(case):
    return rt.replay_case('C12', case)
