"""C16 - Equality and serialisation depend only on content, never on representation.

Bounded part (Tier B).  Tables with *equal content* (type, IDs in order,
metadata, matrix values - judged from the raw view) are built through different
routes: constructor input forms (ndarray, dense list of lists, coordinate list,
dict, list of arrays, scipy csr/csc/coo/lil/dok), caller-supplied sparse
matrices with unsorted indices / explicitly stored zeros / duplicate
coordinates, the CSC layout reached in place, and operation histories that end
in the same content (sort + inverse sort, keep-all filters, subsample at full
depth, transpose twice, copy, rename + rename back, identity transform, pa on
0/1 data).  Contract:

* a copy equals its original; equal content  =>  ``T == U``, ``U == T``, not ``T != U``,
  ``descriptive_equality`` says equal, ``T == T`` - after every interleaving of
  the read accessors nnz / data / iter / == on either table, of length <= 2
  (quick) / <= 3 (thorough); accessors leave the content unchanged;
* triples: all six comparisons of three equal-content tables are True in every
  evaluation order (transitivity on the same objects); with a third table that
  differs, both equal tables are unequal to it;
* pairs that differ in exactly one value / ID / order / metadata entry / type
  are unequal, both ways, whatever the routes and accessor prefixes;
* equal-content tables export the same IDs, matrix values and metadata as
  TSV / JSON / HDF5 (files parsed with the standard library / raw h5py and
  normalised to dense) and answer every per-ID and per-cell query identically.

Domain: non-empty, NaN-free tables.
"""
import io
import itertools
import json
import os
import shutil
import tempfile

import numpy as np
import scipy.sparse as sp

from pyvc import rt
from props import ops_util as ou

LEVEL = 'other'
AXES = ou.AXES


# --------------------------------------------------------------------------
# content -> table, by route
# --------------------------------------------------------------------------

def content_of_case(case):
    A = np.array(case['A'], dtype=float)
    m, n = A.shape
    ids = case.get('ids', 'plain')
    obs = ids['observation'] if isinstance(ids, dict) else rt.make_ids(ids, 'observation', m)
    samp = ids['sample'] if isinstance(ids, dict) else rt.make_ids(ids, 'sample', n)
    omd = case.get('obs_md', 'none')
    smd = case.get('samp_md', 'none')
    omd = rt.make_md(omd, 'observation', m) if isinstance(omd, str) else omd
    smd = rt.make_md(smd, 'sample', n) if isinstance(smd, str) else smd
    return ou.Content(obs, samp, A, omd, smd), case.get('type')


def _kw(c, typ):
    import copy
    return dict(observation_ids=list(c.obs), sample_ids=list(c.samp),
                observation_metadata=copy.deepcopy(c.obs_md), sample_metadata=copy.deepcopy(c.samp_md), type=typ)


def _raw_csr(A, unsorted=False, zeros='nz'):
    return rt._csr_with(A, unsorted=unsorted, zeros=zeros)


def _keep_all(v, i, md):
    return True


class NotApplicable(Exception):
    pass


def build_route(route, c, typ):
    """table with content (c, typ) built through `route`; NotApplicable when the route does not exist for it"""
    from biom import Table
    A = c.A
    m, n = A.shape
    kw = _kw(c, typ)
    nz = [(i, j) for i in range(m) for j in range(n) if A[i, j] != 0]
    zc = [(i, j) for i in range(m) for j in range(n) if A[i, j] == 0]
    if route == 'dense':
        return Table(A.copy(), **kw)
    if route == 'dense_int':
        if not np.all(A == np.floor(A)) or np.abs(A).max() > 1e9:
            raise NotApplicable()
        return Table(A.astype(int), **kw)
    if route == 'listlist_dense':
        return Table(A.tolist(), input_is_dense=True, **kw)
    if route == 'coords':
        if not nz:
            raise NotApplicable()
        return Table([[i, j, A[i, j]] for i, j in nz], **kw)
    if route == 'dict':
        if not nz:
            raise NotApplicable()
        return Table({(i, j): A[i, j] for i, j in nz}, **kw)
    if route == 'list_arrays':
        return Table([A[i, :].copy() for i in range(m)], **kw)
    if route == 'csr':
        return Table(sp.csr_matrix(A), **kw)
    if route == 'csc':
        return Table(sp.csc_matrix(A), **kw)
    if route == 'coo':
        return Table(sp.coo_matrix(A), **kw)
    if route == 'lil':
        return Table(sp.lil_matrix(A), **kw)
    if route == 'dok':
        return Table(sp.dok_matrix(A), **kw)
    if route == 'coo_dup':
        # every non-zero value split into two coordinates that sum to it
        if not nz:
            raise NotApplicable()
        r = [i for i, j in nz] * 2
        cc = [j for i, j in nz] * 2
        half = [np.floor(A[i, j] / 2) for i, j in nz]
        vals = half + [A[i, j] - h for (i, j), h in zip(nz, half)]
        if any(a + b != A[i, j] for (i, j), a, b in zip(nz, vals[:len(nz)], vals[len(nz):])):
            raise NotApplicable()
        return Table(sp.coo_matrix((vals, (r, cc)), shape=(m, n)), **kw)
    if route == 'coo_cancel':
        # duplicates that cancel leave an explicitly stored 0.0 behind
        if not zc:
            raise NotApplicable()
        i0, j0 = zc[0]
        r = [i for i, j in nz] + [i0, i0]
        cc = [j for i, j in nz] + [j0, j0]
        vals = [A[i, j] for i, j in nz] + [5.0, -5.0]
        return Table(sp.coo_matrix((vals, (r, cc)), shape=(m, n)), **kw)
    if route in ('csr_unsorted', 'csr_z1', 'csr_zall', 'csr_unsorted_zall'):
        z = 'z1' if route.endswith('z1') else ('zall' if route.endswith('zall') else 'nz')
        if z != 'nz' and not zc:
            raise NotApplicable()
        return Table(_raw_csr(A, unsorted='unsorted' in route, zeros=z), **kw)
    if route == 'csc_zall':
        if not zc:
            raise NotApplicable()
        return Table(_raw_csr(A, zeros='zall').tocsc(), **kw)
    if route in ('csc_inplace', 'csc_inplace_zall'):
        if route.endswith('zall') and not zc:
            raise NotApplicable()
        t = Table(_raw_csr(A, zeros='zall' if route.endswith('zall') else 'nz'), **kw)
        t.data(c.samp[0], axis='sample', dense=False)
        return t
    # ---- histories that end in the same content --------------------------
    t = Table(sp.csr_matrix(A), **kw)
    if route == 'sort_inverse':
        u = t.sort_order(list(c.samp)[::-1], axis='sample').sort_order(list(c.obs)[::-1], axis='observation')
        return u.sort_order(list(c.samp), axis='sample').sort_order(list(c.obs), axis='observation')
    if route == 'sort_inverse_samples':
        if n < 2:
            raise NotApplicable()
        return t.sort_order(list(c.samp)[::-1], axis='sample').sort_order(list(c.samp), axis='sample')
    if route == 'filter_all_inplace':
        t.filter(list(c.samp), axis='sample', inplace=True)
        return t
    if route == 'filter_all_pred':
        return t.filter(_keep_all, axis='observation', inplace=False)
    if route == 'subsample_full':
        sums = A.sum(axis=0)
        if not ou.counts_like(rt.view(t)) or sums.min() <= 0 or np.any(sums != sums[0]) or np.any(A.sum(axis=1) == 0):
            raise NotApplicable()
        return t.subsample(int(sums[0]), axis='sample', seed=3)
    if route == 'subsample_drop':
        # stored zeros as subsampling leaves them: content = subsample of a larger table; rebuilt lazily by caller
        raise NotApplicable()
    if route == 'transpose_twice':
        if typ is not None:
            raise NotApplicable()
        return t.transpose().transpose()
    if route == 'copy':
        return t.copy()
    if route == 'copy_of_zall':
        if not zc:
            raise NotApplicable()
        return Table(_raw_csr(A, zeros='zall'), **kw).copy()
    if route == 'rename_back':
        fwd = {x: x + '_tmp' for x in c.samp}
        t.update_ids(fwd, axis='sample', inplace=True)
        t.update_ids({v: k for k, v in fwd.items()}, axis='sample', inplace=True)
        return t
    if route == 'transform_ident':
        t.transform(ou._tf_ident, axis='observation', inplace=True)
        t.transform(ou._tf_ident, axis='sample', inplace=True)
        return t
    if route == 'pa_binary':
        if not np.all((A == 0) | (A == 1)):
            raise NotApplicable()
        t.pa(inplace=True)
        return t
    if route == 'zeroed_by_transform':
        # content reached by zeroing entries of a larger table: transform eliminates them
        B = A.copy()
        if not zc or np.any(A >= 2):
            raise NotApplicable()
        for i, j in zc:
            B[i, j] = 7.0
        u = Table(sp.csr_matrix(B), **kw)
        u.transform(ou._tf_zero_big, axis='sample', inplace=True)
        return u
    if route == 'filtered_from_larger':
        # the content is what remains of a larger table after an in-place ID filter
        B = np.hstack([A, np.full((m, 1), 9.0)])
        kw2 = dict(kw)
        kw2['sample_ids'] = list(c.samp) + ['extra-sample']
        if c.samp_md is not None:
            import copy
            kw2['sample_metadata'] = copy.deepcopy(c.samp_md) + [copy.deepcopy(c.samp_md[0])]
        u = Table(sp.csr_matrix(B), **kw2)
        u.filter(['extra-sample'], axis='sample', invert=True, inplace=True)
        return u
    if route == 'md_added_then_filtered':
        # the content (no sample metadata) is what remains after metadata was added for one extra sample only and
        # that sample was filtered away in place: no remaining entry carries anything
        if c.samp_md is not None:
            raise NotApplicable()
        B = np.hstack([A, np.full((m, 1), 9.0)])
        kw2 = dict(kw)
        kw2['sample_ids'] = list(c.samp) + ['extra-sample']
        u = Table(sp.csr_matrix(B), **kw2)
        u.add_metadata({'extra-sample': {'note': 'only here'}}, axis='sample')
        u.filter(['extra-sample'], axis='sample', invert=True, inplace=True)
        return u
    raise ValueError(route)


FORM_ROUTES = ['dense', 'dense_int', 'listlist_dense', 'coords', 'dict', 'list_arrays', 'csr', 'csc', 'coo', 'lil', 'dok']
LAYOUT_ROUTES = ['coo_dup', 'coo_cancel', 'csr_unsorted', 'csr_z1', 'csr_zall', 'csr_unsorted_zall', 'csc_zall',
                 'csc_inplace', 'csc_inplace_zall']
HISTORY_ROUTES = ['sort_inverse', 'sort_inverse_samples', 'filter_all_inplace', 'filter_all_pred', 'subsample_full',
                  'transpose_twice', 'copy', 'copy_of_zall', 'rename_back', 'transform_ident', 'pa_binary',
                  'zeroed_by_transform', 'filtered_from_larger', 'md_added_then_filtered']
ALL_ROUTES = FORM_ROUTES + LAYOUT_ROUTES + HISTORY_ROUTES
KEY_ROUTES = ['dense', 'csr_zall', 'csr_unsorted', 'csc_inplace', 'coo_cancel', 'sort_inverse', 'filter_all_inplace',
              'copy_of_zall', 'md_added_then_filtered']


def make(route, c, typ):
    """(table, None) or (None, reason).  A route that does not end in the requested content (judged from the raw
    view) is not a witness for this property and is skipped - getting the content right is C06/C08/C12/C17's business."""
    try:
        t = build_route(route, c, typ)
    except NotApplicable:
        return None, 'n/a'
    except Exception as e:
        return None, 'route raised %s' % ou.describe_exc(e)
    v = rt.view(t)
    if ou.content_diff(v, c) or v.type != typ or rt.inv(t):
        return None, 'route does not end in the content'
    return t, None


# --------------------------------------------------------------------------
# read accessors and comparisons
# --------------------------------------------------------------------------

ACC = ('nnz', 'data', 'iter')


def do_acc(name, t):
    if name == 'nnz':
        return t.nnz
    if name == 'data':
        return [t.data(i, axis='observation') for i in t.ids(axis='observation')[:1]] + \
               [t.data(i, axis='sample', dense=False) for i in t.ids()[-1:]]
    if name == 'iter':
        return [x[1] for x in t.iter(axis='sample')] + [x[1] for x in t.iter(dense=False, axis='observation')]
    raise ValueError(name)


def symbols(k):
    """interleaving alphabet over k tables: accessor on a table, or a comparison of an ordered pair"""
    s = [('acc', a, i) for a in ACC for i in range(k)]
    s += [('eq', i, j) for i in range(k) for j in range(k) if i != j]
    return s


def verdicts(tabs, i, j):
    """all forms of the comparison of tabs[i] with tabs[j] -> dict name -> says-equal (bool)"""
    T, U = tabs[i], tabs[j]
    return {'T == U': bool(T == U), 'not (T != U)': not bool(T != U),
            'descriptive_equality says equal': T.descriptive_equality(U) == 'Tables appear equal'}


def walk_equal(tabs, contents, depth, prefix, problems, want_equal=True):
    """DFS over accessor/comparison interleavings; tabs are never modified (clones are)."""
    k = len(tabs)
    # final comparisons on clones of the state reached by `prefix`
    for i in range(k):
        for j in range(k):
            cl = [ou.clone(t) for t in tabs]
            if i == j:
                if not (cl[i] == cl[i]):
                    problems.append(('reflexive', True, False, prefix, None))
                continue
            want = want_equal
            got = verdicts(cl, i, j)
            if any(g != want for g in got.values()):
                clause = ('equal-content-compares-equal' if want else 'different-content-compares-unequal')
                problems.append((clause, {k: want for k in got}, got, prefix, (i, j)))
    if depth == 0:
        return
    for s in symbols(k):
        cl = [ou.clone(t) for t in tabs]
        if s[0] == 'acc':
            try:
                do_acc(s[1], cl[s[2]])
            except Exception as e:
                problems.append(('accessor-raises/' + s[1], 'a value', ou.describe_exc(e), prefix + [list(s)], None))
                continue
            d = ou.content_diff(rt.view(cl[s[2]]), contents[s[2]])
            if d:
                problems.append(('accessor-preserves-content/' + s[1], [], d, prefix + [list(s)], None))
                continue
        else:
            cl[s[1]] == cl[s[2]]       # verdict is checked as a 'final comparison' of the prefix; here: its side effects
            for x in (s[1], s[2]):
                d = ou.content_diff(rt.view(cl[x]), contents[x])
                if d:
                    problems.append(('accessor-preserves-content/==', [], d, prefix + [list(s)], None))
        walk_equal(cl, contents, depth - 1, prefix + [list(s)], problems, want_equal)


def _dedupe(problems):
    seen, out = set(), []
    for p in problems:
        if p[0] not in seen:
            seen.add(p[0])
            out.append(p)
    return out


def _classify(tabs, clause, rerun):
    def fails(ts):
        return any(p[0] == clause for p in rerun(ts))
    return ou.reduce_class(tabs, fails, cache_key=None)


# --------------------------------------------------------------------------
# scopes
# --------------------------------------------------------------------------

def run_pair_case(case):
    """two routes to the same content x every accessor interleaving"""
    c, typ = content_of_case(case)
    r1, r2 = case['routes']
    T, why1 = make(r1, c, typ)
    U, why2 = make(r2, c, typ)
    if T is None or U is None:
        return {'fails': [], 'n': 1, 'nontrivial': False}
    depth = case['depth']

    def rerun(tabs, depth=depth):
        probs = []
        for k, X in enumerate(tabs):
            # a copy equals its original (whatever the original's representation), both ways, and stays equal
            a = ou.clone(X)
            try:
                b = a.copy()
                got = [bool(b == a), bool(a == b), not bool(a != b), bool(ou.clone(X) == b)]
            except Exception as e:
                got = ou.describe_exc(e)
            if got != [True] * 4:
                probs.append(('copy-equals-original', [True] * 4, got, [], (k, 'copy')))
        walk_equal(tabs, [ou.Content.of(rt.view(t)) for t in tabs], depth, [], probs, True)
        return probs
    probs = _dedupe(rerun([T, U]))
    fails = []
    for clause, exp, obs, prefix, pair in probs:
        # classify on the shortest interleaving that shows it
        cls = _classify([T, U], clause, lambda ts, d=len(prefix): rerun(ts, d))
        fails.append(rt.fail(clause, cls, exp, {'observed': obs, 'after': prefix, 'compared': pair,
                                                  'layouts': [rt.layout(T), rt.layout(U)]}))
    nseq = sum(len(symbols(2)) ** d for d in range(depth + 1))
    return {'fails': fails, 'n': nseq, 'nontrivial': r1 != r2}


def run_triple_case(case):
    c, typ = content_of_case(case)
    tabs = []
    for r in case['routes']:
        t, why = make(r, c, typ)
        if t is None:
            return {'fails': [], 'n': 1, 'nontrivial': False}
        tabs.append(t)
    fails, n = [], 0

    def rerun(ts):
        probs = []
        pairs = [(0, 1), (1, 2), (0, 2), (1, 0), (2, 1), (2, 0)]
        for order in itertools.permutations(pairs, 3):
            cl = [ou.clone(t) for t in ts]
            res = {}
            for (i, j) in order:
                res[(i, j)] = bool(cl[i] == cl[j])
            for (i, j), got in res.items():
                if not got:
                    probs.append(('transitive/equal-content-triple', True, False, [list(p) for p in order], (i, j)))
                    break
        return probs
    probs = _dedupe(rerun(tabs))
    n = 120
    for clause, exp, obs, prefix, pair in probs:
        fails.append(rt.fail(clause, _classify(tabs, clause, rerun), exp,
                             {'observed': obs, 'evaluation order': prefix, 'compared': pair,
                              'layouts': [rt.layout(t) for t in tabs]}))
    return {'fails': fails, 'n': n, 'nontrivial': len(set(case['routes'])) == 3}


def differ(c, typ, kind):
    """content that differs from (c, typ) in exactly one value / ID / order / metadata entry / type, or None"""
    import copy
    A = c.A.copy()
    m, n = A.shape
    d = ou.Content(c.obs, c.samp, A, copy.deepcopy(c.obs_md), copy.deepcopy(c.samp_md))
    nz = [(i, j) for i in range(m) for j in range(n) if A[i, j] != 0]
    zc = [(i, j) for i in range(m) for j in range(n) if A[i, j] == 0]
    if kind == 'value':
        if not nz:
            return None
        i, j = nz[-1]
        d.A[i, j] = A[i, j] + 1.0 if A[i, j] + 1.0 not in (0.0, A[i, j]) else A[i, j] * 2
    elif kind == 'value-next-float':
        # the smallest possible difference: one value replaced by the next representable double
        if not nz:
            return None
        i, j = nz[0]
        d.A[i, j] = np.nextafter(A[i, j], np.inf)
    elif kind == 'value-tiny':
        # a relative difference of 1e-10 (far below any "close enough" tolerance, still another number)
        if not nz:
            return None
        i, j = nz[-1]
        d.A[i, j] = A[i, j] * (1.0 + 1e-10)
        if d.A[i, j] == A[i, j]:
            return None
    elif kind == 'value-to-zero':
        if not nz:
            return None
        d.A[nz[0]] = 0.0
    elif kind == 'zero-to-value':
        if not zc:
            return None
        d.A[zc[0]] = 1.0
    elif kind == 'value-moved':
        # same multiset of stored values, one moved to a zero cell of the same row
        cand = [(i, j, j2) for (i, j) in nz for j2 in range(n) if A[i, j2] == 0]
        if not cand:
            return None
        i, j, j2 = cand[0]
        d.A[i, j2], d.A[i, j] = A[i, j], 0.0
    elif kind == 'obs-id':
        d.obs[-1] = d.obs[-1] + 'x'
    elif kind == 'samp-id':
        d.samp[0] = 'other-' + d.samp[0]
    elif kind == 'order-ids-only':
        if n < 2:
            return None
        d.samp[0], d.samp[1] = d.samp[1], d.samp[0]
    elif kind == 'order-whole-vectors':
        if m < 2:
            return None
        d = d.take('observation', [1, 0] + list(range(2, m)))
    elif kind == 'obs-md-entry':
        if d.obs_md is None:
            return None
        k0 = sorted(d.obs_md[0])[0]
        v0 = d.obs_md[0][k0]
        d.obs_md[0][k0] = (v0[:-1] + ['changed']) if isinstance(v0, list) else ('changed' if isinstance(v0, str) else (not v0 if isinstance(v0, bool) else v0 + 1))
    elif kind == 'samp-md-key':
        if d.samp_md is None:
            return None
        for x in d.samp_md:
            x['extra'] = 'same'
        d.samp_md[-1]['extra'] = 'one-differs'
        c2 = ou.Content(c.obs, c.samp, c.A, c.obs_md, copy.deepcopy(d.samp_md))
        c2.samp_md[-1]['extra'] = 'same'
        return (c2, typ), (d, typ)
    elif kind in ('samp-md-extra-key', 'samp-md-extra-key-rev', 'obs-md-extra-key-rev'):
        # one record of one table carries a key the other table's record lacks (either operand order)
        which = 'obs_md' if kind.startswith('obs') else 'samp_md'
        if getattr(d, which) is None:
            return None
        getattr(d, which)[-1]['only-here'] = 'x'
        return ((d, typ), (c, typ)) if kind.endswith('-rev') else ((c, typ), (d, typ))
    elif kind == 'md-absent':
        if d.samp_md is None:
            return None
        d.samp_md = None
    elif kind == 'type':
        return (c, typ), (d, 'Gene table' if typ != 'Gene table' else 'OTU table')
    else:
        raise ValueError(kind)
    return (c, typ), (d, typ)


DIFFS = ['value', 'value-next-float', 'value-tiny', 'value-to-zero', 'zero-to-value', 'value-moved', 'obs-id', 'samp-id', 'order-ids-only',
         'order-whole-vectors', 'obs-md-entry', 'samp-md-key', 'md-absent', 'type',
         'samp-md-extra-key', 'samp-md-extra-key-rev', 'obs-md-extra-key-rev']


def run_differ_case(case):
    c, typ = content_of_case(case)
    pair = differ(c, typ, case['diff'])
    if pair is None:
        return {'fails': [], 'n': 1, 'nontrivial': False}
    (c1, t1), (c2, t2) = pair
    T, _ = make(case['routes'][0], c1, t1)
    U, _ = make(case['routes'][1], c2, t2)
    if T is None or U is None:
        return {'fails': [], 'n': 1, 'nontrivial': False}
    depth = case['depth']

    def rerun(tabs, depth=depth):
        probs = []
        vs = [rt.view(t) for t in tabs]
        if not ou.content_diff(vs[0], ou.Content.of(vs[1])) and vs[0].type == vs[1].type:
            return probs        # a classification variant erased the difference: premise not met
        walk_equal(tabs, [ou.Content.of(v) for v in vs], depth, [], probs, False)
        return probs
    probs = _dedupe(rerun([T, U]))
    fails = []
    for clause, exp, obs, prefix, pr in probs:
        cls = case['diff'] + ':' + _classify([T, U], clause, lambda ts, d=len(prefix): rerun(ts, d))
        fails.append(rt.fail(clause, cls, exp, {'observed': obs, 'after': prefix, 'compared': pr,
                                                  'layouts': [rt.layout(T), rt.layout(U)]}))
    # a table equal to T must also be unequal to U (mixed triple)
    W, _ = make('csr', c1, t1)
    n = sum(len(symbols(2)) ** d for d in range(depth + 1))
    if W is not None:
        n += 1
        cl = [ou.clone(x) for x in (T, W, U)]
        if (cl[0] == cl[1]) and (cl[1] == cl[2] or cl[0] == cl[2]):
            fails.append(rt.fail('transitive/mixed-triple', case['diff'] + ':canonical', 'T == W, T != U, W != U',
                                 'an equal pair is equal to the different table'))
    return {'fails': fails, 'n': n, 'nontrivial': True}


# ---- exports and queries --------------------------------------------------

def _tsv_content(text, n):
    """n = number of samples (value columns); anything after them is the metadata column"""
    lines = text.split('\n')
    head = lines[1].split('\t')
    rows = [ln.split('\t') for ln in lines[2:] if ln != '']
    return {'header': head, 'rows': [(r[0], [float(x) for x in r[1:n + 1]], r[n + 1:]) for r in rows]}


def _json_content(text):
    d = json.loads(text)
    m, n = d['shape']
    A = np.zeros((m, n))
    if d['matrix_type'] == 'sparse':
        for r, c_, v in d['data']:
            A[r, c_] += v
    else:
        A = np.array(d['data'], dtype=float).reshape(m, n)
    return {'rows': d['rows'], 'columns': d['columns'], 'shape': d['shape'], 'A': A.tolist(), 'type': d.get('type')}


def _h5_content(path):
    import h5py
    out = {}
    with h5py.File(path, 'r') as f:
        shape = tuple(int(x) for x in f.attrs['shape'])
        out['type'] = f.attrs['type']
        for axis, fmt in (('observation', sp.csr_matrix), ('sample', sp.csc_matrix)):
            g = f[axis]
            ids = [x.decode('utf8') if isinstance(x, bytes) else str(x) for x in g['ids'][:]]
            mat = fmt((g['matrix/data'][:], g['matrix/indices'][:], g['matrix/indptr'][:]), shape=shape)
            md = {}
            for name in sorted(g['metadata']):
                md[name] = [[y.decode('utf8') if isinstance(y, bytes) else y for y in np.atleast_1d(x).tolist()]
                            for x in g['metadata'][name][:]]
            out[axis] = {'ids': ids, 'A': np.asarray(mat.toarray()).tolist(), 'metadata': md}
    return out


def _exports(t, tmp, tag, tax):
    """parsed content of every export of t (t is a clone and may be modified)"""
    out = {}
    a = ou.clone(t)
    out['tsv'] = _tsv_content(a.to_tsv(), t.shape[1])
    if tax:
        a = ou.clone(t)
        out['tsv+md'] = _tsv_content(a.to_tsv(header_key='taxonomy', header_value='taxonomy'), t.shape[1])
    a = ou.clone(t)
    out['json'] = _json_content(a.to_json('verif'))
    a = ou.clone(t)
    buf = io.StringIO()
    a.to_json('verif', direct_io=buf)
    out['json-direct'] = _json_content(buf.getvalue())
    import h5py
    for compress in (True, False):
        a = ou.clone(t)
        path = os.path.join(tmp, '%s-%d.biom' % (tag, compress))
        with h5py.File(path, 'w') as f:
            a.to_hdf5(f, 'verif', compress=compress)
        out['hdf5' + ('' if compress else '-uncompressed')] = _h5_content(path)
    return out


def _queries(t):
    out = {}
    a = ou.clone(t)
    for axis in AXES:
        for i in [str(x) for x in t._sample_ids.tolist()] if axis == 'sample' else [str(x) for x in t._observation_ids.tolist()]:
            out['data(%s,%s)' % (i, axis)] = a.data(i, axis=axis).tolist()
            md = a.metadata(i, axis=axis)
            out['metadata(%s,%s)' % (i, axis)] = None if md is None else rt.plain(dict(md))
            out['index(%s,%s)' % (i, axis)] = a.index(i, axis)
            out['exists(%s,%s)' % (i, axis)] = a.exists(i, axis=axis)
    a = ou.clone(t)
    for o in t._observation_ids.tolist():
        for s in t._sample_ids.tolist():
            out['value(%s,%s)' % (o, s)] = float(a.get_value_by_ids(str(o), str(s)))
    a = ou.clone(t)
    out['nonzero-count'] = int(a.nnz)
    out['sum'] = [np.asarray(a.sum(ax)).tolist() for ax in ('whole', 'sample', 'observation')]
    return out


def run_export_case(case):
    c, typ = content_of_case(case)
    r1, r2 = case['routes']
    T, _ = make(r1, c, typ)
    U, _ = make(r2, c, typ)
    if T is None or U is None:
        return {'fails': [], 'n': 1, 'nontrivial': False}
    tax = bool(c.obs_md) and 'taxonomy' in c.obs_md[0]

    def rerun(tabs):
        probs = []
        tmp = tempfile.mkdtemp(prefix='verif-c16-')
        try:
            try:
                e1, e2 = _exports(tabs[0], tmp, 'a', tax), _exports(tabs[1], tmp, 'b', tax)
                for k in e1:
                    if e1[k] != e2[k]:
                        diffs = [x for x in e1[k] if e1[k][x] != e2[k][x]] if isinstance(e1[k], dict) else []
                        probs.append(('same-export/' + k, 'identical exported content',
                                      {'differs in': diffs, 'first': {x: e1[k][x] for x in diffs},
                                       'second': {x: e2[k][x] for x in diffs}}, [], None))
            except Exception as e:
                probs.append(('same-export/no-exception', 'both tables export', ou.describe_exc(e), [], None))
        finally:
            shutil.rmtree(tmp, ignore_errors=True)
        try:
            q1, q2 = _queries(tabs[0]), _queries(tabs[1])
            bad = [k for k in q1 if q1[k] != q2.get(k)]
            if bad:
                probs.append(('same-answers', 'identical answers', {k: (q1[k], q2.get(k)) for k in bad[:4]}, [], None))
        except Exception as e:
            probs.append(('same-answers/no-exception', 'both tables answer', ou.describe_exc(e), [], None))
        return probs
    probs = _dedupe(rerun([T, U]))
    fails = [rt.fail(p[0], _classify([T, U], p[0], rerun), p[1], p[2]) for p in probs]
    return {'fails': fails, 'n': 8, 'nontrivial': r1 != r2}


SCOPES = {'equal-pairs': run_pair_case, 'equal-triples': run_triple_case, 'single-difference': run_differ_case,
          'exports-queries': run_export_case}


# --------------------------------------------------------------------------
# cases
# --------------------------------------------------------------------------

def contents(tier):
    base = [
        {'A': [[1., 0., 2.], [0., 3., 0.]], 'obs_md': 'tax', 'samp_md': 'text', 'type': 'OTU table'},
        {'A': [[0., 1.], [1., 1.], [0., 0.]], 'obs_md': 'none', 'samp_md': 'none', 'type': None},       # 0/1 data, empty row
        {'A': [[2., 1.], [1., 2.]], 'obs_md': 'none', 'samp_md': 'num', 'type': None},                   # equal sample sums, dense
        {'A': [[0., 0.], [0., 4.]], 'obs_md': 'text', 'samp_md': 'none', 'type': 'Gene table', 'ids': 'punct'},
        {'A': [[-1.5, 0., 1e-7], [0., 1e22, 0.]], 'obs_md': 'slash', 'samp_md': 'tax', 'type': None, 'ids': 'nonascii'},
        {'A': [[3.]], 'obs_md': 'none', 'samp_md': 'none', 'type': None, 'ids': 'numeric'},
    ]
    if tier != 'quick':
        base += [
            {'A': [[0., 0.], [0., 0.]], 'obs_md': 'none', 'samp_md': 'none', 'type': None},
            {'A': [[1., 1., 0.], [0., 1., 1.], [1., 0., 1.]], 'obs_md': 'text', 'samp_md': 'text', 'type': 'Taxon table', 'ids': 'long'},
            {'A': [[5., 0.], [0., 5.], [0., 0.]], 'obs_md': 'num', 'samp_md': 'none', 'type': None},
        ]
    return base


def pair_routes(tier):
    """ordered route pairs: the canonical dense constructor against every route, and the representation-relevant
    routes against each other"""
    prs = [('dense', r) for r in ALL_ROUTES[1:]]
    prs += [(a, b) for a, b in itertools.combinations(LAYOUT_ROUTES + ['sort_inverse', 'filter_all_inplace', 'copy_of_zall',
                                                                        'transform_ident', 'subsample_full'], 2)]
    if tier == 'quick':
        prs = prs[:len(ALL_ROUTES) - 1] + prs[len(ALL_ROUTES) - 1::3]
    return prs


def pair_cases(tier):
    depth = 2 if tier == 'quick' else 3
    for ct in contents(tier):
        for a, b in pair_routes(tier):
            yield dict(ct, routes=[a, b], depth=depth)
    # every matrix over {0,1,2} up to 2x2: canonical against stored zeros / unsorted / csc, depth 1
    for dm in rt.matrices(0, 0, shapes=[(1, 1), (1, 2), (2, 1), (2, 2)]):
        for b in ('csr_zall', 'csr_z1', 'csr_unsorted', 'csc_inplace_zall', 'coo_cancel', 'sort_inverse'):
            yield {'A': dm.tolist(), 'routes': ['dense', b], 'depth': 1}


def triple_cases(tier):
    for ct in contents(tier):
        for tr in itertools.combinations(KEY_ROUTES, 3):
            yield dict(ct, routes=list(tr))


def differ_cases(tier):
    depth = 1 if tier == 'quick' else 2
    routes = [('dense', 'dense'), ('csr_zall', 'dense'), ('dense', 'csr_zall'), ('csr_unsorted', 'csc_inplace'),
              ('coo_cancel', 'csr_zall'), ('sort_inverse', 'filter_all_inplace')]
    for ct in contents(tier):
        for diff in DIFFS:
            for r in routes:
                yield dict(ct, routes=list(r), diff=diff, depth=depth)


def export_cases(tier):
    routes = [('dense', r) for r in LAYOUT_ROUTES + HISTORY_ROUTES + ['csc', 'coo', 'dict']]
    routes += [('csr_zall', 'csr_unsorted'), ('csc_inplace_zall', 'coo_cancel')]
    for ct in contents(tier):
        for a, b in routes:
            yield dict(ct, routes=[a, b])


def route_table(tier):
    """which routes exist for which content (evidence note)"""
    out = {}
    for k, ct in enumerate(contents(tier)):
        c, typ = content_of_case(ct)
        skipped = {}
        for r in ALL_ROUTES:
            t, why = make(r, c, typ)
            if t is None:
                skipped[r] = why
        out['content-%d' % k] = {'A': ct['A'], 'routes_built': len(ALL_ROUTES) - len(skipped), 'skipped': skipped}
    return out


def run(rep):
    from props import common
    if 'deductive' in rep.only:
        common.run_deductive(rep, 'C16')
    if 'bounded' in rep.only:
        rt.install_extracted_kernels()
        q = rep.tier == 'quick'
        cdesc = ('%d contents (2x3 with taxonomy/text metadata and type, 3x2 0/1 data with an empty row, dense 2x2, '
                 'single non-zero with punctuated IDs, negative/tiny/huge values with non-ASCII IDs, 1x1%s)'
                 % (len(contents(rep.tier)), '' if q else ', all-zero, 3x3 with 300-char IDs, 3x2'))
        rt.run_scope(rep, 'equal-pairs', 'pairs of routes to the same content (dense constructor x each of %d routes; '
                     'representation-relevant routes pairwise%s) x every interleaving of nnz/data/iter on either table '
                     'and == in either direction, length <= %d, all comparison forms after each; %s; plus every matrix '
                     'over {0,1,2} up to 2x2 x 6 representation routes, length <= 1'
                     % (len(ALL_ROUTES) - 1, ', every 3rd' if q else '', 2 if q else 3, cdesc),
                     pair_cases(rep.tier), run_pair_case, chunk=4, exhaustive=True)
        rt.run_scope(rep, 'equal-triples', 'every 3-subset of %d key routes x all 120 orders of three of the six '
                     'directed comparisons on the same objects; %s' % (len(KEY_ROUTES), cdesc),
                     triple_cases(rep.tier), run_triple_case, chunk=4, exhaustive=True)
        rt.run_scope(rep, 'single-difference', '%d kinds of single difference (value, value->0, 0->value, value moved, '
                     'one ID per axis, order of IDs only / of whole vectors, one metadata value, one metadata key, '
                     'metadata absent, type) x 6 route pairs x accessor interleavings of length <= %d; %s'
                     % (len(DIFFS), 1 if q else 2, cdesc), differ_cases(rep.tier), run_differ_case, chunk=8,
                     exhaustive=True)
        rt.run_scope(rep, 'exports-queries', 'equal-content pairs (dense x %d routes + 2 cross pairs): to_tsv (+ '
                     'taxonomy column), to_json (string and direct_io), to_hdf5 (compressed and not) parsed with json / '
                     'raw h5py and normalised to dense; data/metadata/index/exists/get_value_by_ids/nnz/sum answers; %s'
                     % (len(LAYOUT_ROUTES + HISTORY_ROUTES) + 3, cdesc), export_cases(rep.tier), run_export_case,
                     chunk=4, exhaustive=True)
        rep.notes['C16_routes'] = route_table(rep.tier)
        rep.explanation = ('Bounded stand-in for C16.  Routes that do not end in the requested content (raw view) are '
                           'skipped and listed under C16_routes.')
    common.finish_notes(rep, 'C16')


def replay(case):
    return rt.replay_case('C16', case)
