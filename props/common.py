"""Shared glue of the per-property checks."""
import os

from pyvc import rt

GENERAL_ASSUMPTIONS = [
    'bounded tier: the contract text is evaluated on the real functions only over the enumerated scope; '
    'it is a bounded stand-in, never counted as proved',
    '.pyx kernels are judged on their source: mechanically de-cythonised on every run (C types dropped and '
    'recorded; C integers treated as mathematical; buffer dtype checks of typed ndarrays not modelled) and '
    'installed in place of the compiled .so, which cannot be rebuilt in this sandbox (no Cython)',
    'callbacks are total, deterministic and do not touch the table they are applied to',
    'no threads; attribute and global lookups are static',
]


def run_deductive(rep, pid):
    try:
        from pyvc import prove
    except ImportError:
        rep.notes['deductive'] = 'engine not built yet'
        return
    prove.run_property(rep, pid)


def finish_notes(rep, pid):
    rep.assume(*GENERAL_ASSUMPTIONS)
    if not rep.explanation:
        from props.registry import CHECKS
        c = CHECKS.get(pid, {})
        n_ob = len(rep.obligations)
        n_ok = sum(1 for o in rep.obligations if o.status == 'proved')
        fns = ', '.join('%s [%s]' % (f['function'].split('::')[1], f['tier']) for f in rep.functions) or 'none'
        rep.explanation = (
            '%s  This run: deductive tier - %d obligations generated from /repo\'s current source, %d discharged '
            '(functions under contract: %s); bounded tier - %d contract evaluations over %d scope(s), labelled bounded and '
            'not counted as proved.' % (c.get('text', ''), n_ob, n_ok, fns,
                                        sum(s.evaluations for s in rep.scopes), len(rep.scopes)))
    ex = rt._installed.get('ex')
    if ex:
        rep.notes['pyx_extraction'] = {k: {'dropped_lines': len(v.dropped)} for k, v in ex.items()}
