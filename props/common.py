"""Shared glue of the per-property checks."""
import os

from pyvc import rt

GENERAL_ASSUMPTIONS = [
    'bounded tier: the contract text is evaluated on the real functions only over the enumerated scope; '
    'it is a bounded stand-in, never counted as proved',
    '.pyx kernels are judged on their source: mechanically de-cythonised on every run (C types dropped and '
    'recorded; C integers treated as mathematical; buffer dtype checks of typed ndarrays not modelled) and '
    'installed in place of the compiled .so, which cannot be rebuilt in this sandbox (no Cython)',
    'callbacks are total, deterministic and do not touch the table they are applied to',
    'no threads; attribute and global lookups are static',
]


def run_deductive(rep, pid):
    try:
        from pyvc import prove
    except ImportError:
        rep.notes['deductive'] = 'engine not built yet'
        return
    prove.run_property(rep, pid)


def finish_notes(rep, pid):
    rep.assume(*GENERAL_ASSUMPTIONS)
    ex = rt._installed.get('ex')
    if ex:
        rep.notes['pyx_extraction'] = {k: {'dropped_lines': len(v.dropped)} for k, v in ex.items()}
