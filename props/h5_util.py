"""Shared helpers of the file-format checks C01 / C04 / C14.

* ``build(case)``       table states (matrix x layout x stored zeros x ID alphabet x metadata kinds x
                        group metadata x header fields x operation history x emptied axis), built through the
                        public API only (``rt.make_table`` + public operations);
* ``decode21(h5grp)``   an *independent* reader of a BIOM 2.1 file written only from
                        /repo/doc/documentation/format_versions/biom-2.1.rst with raw h5py - it returns the
                        decoded document and the list of places where the file departs from the specification;
* ``doc_view(doc)``     the decoded document as a table view (IDs, dense matrix, per-ID metadata, header);
* ``json_view(doc)``    the same for a BIOM 1.0 JSON document decoded with the standard library;
* ``subset_view``       "load everything, then filter to these IDs [, then drop emptied vectors]" on views;
* ``minimise``          greedy reduction of a failing case to the state features the failure depends on, so
                        that one root cause yields one witness class;
* ``tmpdir``            files are only ever written below a fresh ``tempfile.mkdtemp()`` (outside /repo, /verif).

Nothing in here calls a reader of the library to compute an expected value.
"""
import contextlib
import datetime
import itertools
import json
import os
import shutil
import tempfile

import numpy as np

from pyvc import rt

AXES = ('sample', 'observation')
PLACEHOLDER_ID = 'No Table ID'          # biom-2.1.rst example: ATTRIBUTE "id" ... "No Table ID"
FIXED_DATE = datetime.datetime(2021, 3, 4, 5, 6, 7, 891011)
GENERATED_BY = {'plain': 'verif-check 1.0', 'nonascii': 'généré par ✓/verif'}
TABLE_IDS = {None: None, 'plain': 'tid-1', 'nonascii': 'tàble ✓ 7', 'comma': 'study 7, batch {2}'}


# --------------------------------------------------------------------------
# temp files
# --------------------------------------------------------------------------

@contextlib.contextmanager
def tmpdir():
    base = None
    for cand in ('/dev/shm', None):
        if cand is None or (os.path.isdir(cand) and os.access(cand, os.W_OK)):
            base = cand
            break
    d = tempfile.mkdtemp(prefix='verif-biom-', dir=base)
    real = os.path.realpath(d)
    if real.startswith('/repo') or real.startswith('/verif'):
        shutil.rmtree(d, ignore_errors=True)
        raise RuntimeError('temp dir inside /repo or /verif: %s' % d)
    try:
        yield d
    finally:
        shutil.rmtree(d, ignore_errors=True)


# --------------------------------------------------------------------------
# states
# --------------------------------------------------------------------------

MD_KINDS = ('none', 'text', 'num', 'tax', 'slash', 'tax_ragged', 'collapsed', 'text_edge', 'mixed')


def make_md(kind, axis, n):
    """per-category-homogeneous metadata of the C01 domain (same categories on every ID)"""
    a = axis[0]
    if kind in ('none', 'text', 'num', 'tax', 'slash'):
        return rt.make_md(kind, axis, n)
    if kind == 'tax_ragged':
        full = ['k__Bactéria', 'p__B b', 'c__C;c', 'g__日本']
        return [{'taxonomy': full[:1 + (k + 1) % 4] + ['s__%d%s' % (k, a)]} for k in range(n)]
    if kind == 'collapsed':
        return [{'collapsed_ids': ['m%d%s' % (j, a) for j in range(1 + k % 3)]} for k in range(n)]
    if kind == 'text_edge':
        vals = ['two words', 'ümläut ✓', 'x' * 70, 'a,b;c|d "q" \\ /', 'tab\there', '  padded  ']
        return [{'desc': vals[k % len(vals)] + a, 'e/f/g': 'v%d' % k, 'café': 'n°%d' % k} for k in range(n)]
    if kind == 'mixed':
        return [{'grp': 'g%d' % (k % 2), 'depth': 0.25 + k, 'count': 7 - k, 'flag': bool(k % 2),
                 'taxonomy': ['k__A', 'p__B%d' % k][:1 + k % 2] + ['s__x'], 'a/b': 'v%d' % k}
                for k in range(n)]
    raise ValueError(kind)


def make_gmd(kind):
    if kind in (None, 'none'):
        return None, None
    if kind == 'tree':
        return ({'phylogeny': ('newick', '((O1:0.1,O2:0.2):0.3,O3);')},
                {'graph': ('edge-list', 'S1→S2; S2→S3 ü'), 'note': ('text', 'plain note')})
    raise ValueError(kind)


def _ids_of(t, axis):
    return [str(x) for x in (t._sample_ids if axis == 'sample' else t._observation_ids).tolist()]


def _h_sort_rev(axis):
    def op(t):
        return t.sort_order(_ids_of(t, axis)[::-1], axis=axis)
    return op


def _h_filter_true(axis):
    def op(t):
        t.filter(lambda v, i, m: True, axis=axis, inplace=True)
        return t
    return op


def _h_transform_ones_to_zero(t):
    # a value transform that zeroes some cells: leaves explicitly stored zeros behind
    t.transform(lambda d, i, m: np.where(d == 1, 0.0, d), axis='sample', inplace=True)
    return t


def _h_subsample(t):
    # integer tables only (the caller pairs this history with count matrices)
    return t.subsample(1, axis='sample', seed=7)


def _h_collapse(axis):
    def op(t):
        return t.collapse(lambda i, m: m['grp'], axis=axis, norm=False)
    return op


def _h_update_ids(t):
    for axis in AXES:
        t.update_ids({i: i + '_r' for i in _ids_of(t, axis)}, axis=axis, inplace=True)
    return t


def _h_add_md(t):
    t.add_metadata({i: {'added': 'a%d' % k} for k, i in enumerate(_ids_of(t, 'sample'))}, axis='sample')
    return t


def _h_del_md(t):
    t.del_metadata(axis='whole')
    return t


def _h_data_csc(t):
    ids = _ids_of(t, 'sample')
    if ids:
        t.data(ids[0], axis='sample', dense=False)
    return t


HISTORY = {
    'sort_rev_samp': _h_sort_rev('sample'),          # new table from _data[:, order]: unsorted CSR indices
    'sort_rev_obs': _h_sort_rev('observation'),
    'transpose': lambda t: t.transpose(),
    'copy': lambda t: t.copy(),
    'filter_true_samp': _h_filter_true('sample'),    # in-place kernels: CSC layout afterwards
    'filter_true_obs': _h_filter_true('observation'),
    'ones_to_zero': _h_transform_ones_to_zero,
    'subsample': _h_subsample,
    'norm': lambda t: t.norm(axis='sample', inplace=False),
    'pa': lambda t: t.pa(inplace=False),
    'merge_self': lambda t: t.merge(t.copy()),
    'collapse_samp': _h_collapse('sample'),          # needs a 'grp' category on the axis
    'collapse_obs': _h_collapse('observation'),
    'update_ids': _h_update_ids,
    'add_md': _h_add_md,
    'del_md': _h_del_md,
    'data_csc': _h_data_csc,
}


class SkipCase(Exception):
    """the state of this case cannot be built (an operation of its history refused its input, or left the
    property's domain: non-finite values, duplicate IDs); the case is not evaluated"""


def build(case):
    """the Table of a case; public API only"""
    A = np.array(case['A'], dtype=float).reshape(case.get('shape', np.shape(case['A'])))
    m, n = A.shape
    ogmd, sgmd = make_gmd(case.get('gmd'))
    kw = {}
    if ogmd is not None:
        kw['observation_group_metadata'] = ogmd
        kw['sample_group_metadata'] = sgmd
    if case.get('layout') == 'coo':
        # caller-supplied COO matrix with duplicate coordinates: every non-zero cell is given as (v, 0.0), and,
        # unless zeros == 'nz', the first / every zero cell as (+1, -1), which the constructor's tocsr() sums to
        # an explicitly stored 0.0
        from biom import Table
        import scipy.sparse as sp
        rows, cols, vals = [], [], []
        first = True
        for i in range(m):
            for j in range(n):
                v = A[i, j]
                if v != 0:
                    rows += [i, i]
                    cols += [j, j]
                    vals += [v, 0.0]
                elif case.get('zeros', 'nz') == 'zall' or (case.get('zeros') == 'z1' and first):
                    first = False
                    rows += [i, i]
                    cols += [j, j]
                    vals += [1.0, -1.0]
        mat = sp.coo_matrix((np.array(vals, dtype=float), (np.array(rows, dtype=int), np.array(cols, dtype=int))),
                            shape=(m, n))
        t = Table(mat, rt.make_ids(case.get('ids', 'plain'), 'observation', m),
                  rt.make_ids(case.get('ids', 'plain'), 'sample', n),
                  make_md(case.get('obs_md', 'none'), 'observation', m),
                  make_md(case.get('samp_md', 'none'), 'sample', n),
                  type=case.get('type'), table_id=TABLE_IDS[case.get('table_id')], **kw)
    else:
        t = rt.make_table(A, case.get('layout', 'csr'), case.get('zeros', 'nz'), ids=case.get('ids', 'plain'),
                          obs_md=make_md(case.get('obs_md', 'none'), 'observation', m),
                          samp_md=make_md(case.get('samp_md', 'none'), 'sample', n),
                          type=case.get('type'), table_id=TABLE_IDS[case.get('table_id')], **kw)
    if case.get('history'):
        try:
            for op in case['history']:
                t = HISTORY[op](t)
        except Exception as e:
            raise SkipCase('history %r: %s' % (case['history'], exc_text(e)))
        if rt.inv(t) or not np.all(np.isfinite(rt.dense_of(t._data))) or 0 in t._data.shape:
            raise SkipCase('history %r left the domain' % (case['history'],))
    if case.get('empty'):
        # "0 x M / N x 0 produced by filtering everything away"
        t.filter(lambda v, i, md: False, axis=case['empty'], inplace=True)
    return t


def wclass(case, tag=None):
    """witness class: rt.state_class(case) + the other state features present + an operation tag"""
    parts = [p for p in rt.state_class(case).split('+') if p != 'canonical']
    if case.get('layout') == 'coo':
        parts.insert(0, 'from-coo-duplicates')
    A = np.asarray(case['A'], dtype=float)
    if A.size and not np.any(A != 0):
        parts.append('all-zero')
    kinds = sorted({case.get('obs_md', 'none'), case.get('samp_md', 'none')} - {'none'})
    parts += ['md-' + k for k in kinds]
    if case.get('gmd', 'none') not in (None, 'none'):
        parts.append('group-md')
    if case.get('type'):
        parts.append('typed')
    if case.get('table_id'):
        parts.append('table-id-' + case['table_id'])
    if case.get('gen', 'plain') != 'plain':
        parts.append('generated-by-' + case['gen'])
    if case.get('history'):
        parts.append('after-' + '-'.join(case['history']))
    if case.get('empty'):
        parts.append('empty-axis')
    cls = '+'.join(parts) or 'canonical'
    return cls + (':' + tag if tag else '')


RESETS = (('history', []), ('layout', 'csr'), ('zeros', 'nz'), ('ids', 'plain'), ('obs_md', 'none'),
          ('samp_md', 'none'), ('gmd', 'none'), ('type', None), ('table_id', None), ('gen', 'plain'),
          ('compress', False), ('writer', 'to_hdf5'))


def _materialised(case):
    """the state a history leads to, as a history-free case: same ID alphabet / metadata kinds, the matrix the
    history produced (None when the history changed more than the matrix can express)"""
    try:
        t = build(case)
    except Exception:
        return None
    A = rt.dense_of(t._data)
    if 0 in A.shape:
        return None
    trial = dict(case)
    trial['history'] = []
    trial['A'] = A.tolist()
    trial.pop('shape', None)
    trial['zeros'] = 'nz'
    return trial


def minimise(case, evaluate, clause, tag=None):
    """Greedy reduction: reset one state feature at a time to its default and keep the reset when the same
    clause (and operation tag) still fails.  Returns (reduced case, its failure record).  The class of the
    reduced case names only features the failure depends on, so one root cause gives one class."""
    def same(fs):
        for f in fs:
            if f['clause'] == clause and f.get('tag') == tag:
                return f
        return None

    def attempt(trial):
        try:
            if getattr(evaluate, 'supports_until', False):
                return same(evaluate(trial, until=(clause, tag)))    # may stop at the first such failure
            return same(evaluate(trial))
        except Exception:
            return None

    cur, cur_f = case, None
    if cur.get('history'):
        # does the failure depend on the history, or only on the matrix it produced?
        trial = _materialised(cur)
        if trial is not None:
            f = attempt(trial)
            if f is not None:
                cur, cur_f = trial, f
    for k, default in RESETS:
        if cur.get(k, default) == default or (k == 'history' and not cur.get(k)):
            continue
        trial = dict(cur)
        trial[k] = default
        f = attempt(trial)
        if f is not None:
            cur, cur_f = trial, f
    # values: keep the sparsity pattern but make every non-zero 1; an all-zero matrix -> all ones
    A = np.asarray(cur['A'], dtype=float)
    trial_A = None
    if A.size and np.any((A != 0) & (A != 1)):
        trial_A = np.where(A != 0, 1.0, 0.0)
    elif A.size and not np.any(A != 0) and cur.get('zeros', 'nz') == 'nz':
        trial_A = np.ones(A.shape)
    if trial_A is not None:
        trial = dict(cur)
        trial['A'] = trial_A.tolist()
        f = attempt(trial)
        if f is not None:
            cur, cur_f = trial, f
    return cur, cur_f


_MIN_CACHE = {}


def _signature(case):
    A = np.asarray(case['A'], dtype=float)
    feats = tuple((k, repr(case.get(k, d))) for k, d in RESETS)
    return feats + (bool(A.size and not np.any(A != 0)), bool(np.any((A != 0) & (A != 1))), case.get('empty'),
                    case.get('axis'))


def reduce_fails(case, raw, evaluate):
    """raw failure records of ``evaluate(case)`` -> rt.fail records with reduced witness classes
    (one per distinct (clause, tag)).  Reductions are memoised per worker process on the state features of the
    failing case, so a defect that fails everywhere does not multiply the work."""
    out, seen = [], set()
    for f in raw:
        key = (f['clause'], f.get('tag'))
        if key in seen:
            continue
        seen.add(key)
        ckey = (getattr(evaluate, '__name__', ''), f['clause'], f.get('tag'), _signature(case))
        if ckey in _MIN_CACHE:
            red, rf = _MIN_CACHE[ckey]
        else:
            red, rf = minimise(case, evaluate, f['clause'], f.get('tag'))
            rf = rf or f
            _MIN_CACHE[ckey] = (red, rf)
        out.append(rt.fail(f['clause'], wclass(red, f.get('tag')), rf.get('expected'), rf.get('observed'),
                           witness=red))
    return out


class Found(Exception):
    """raised inside an evaluate(case, until=(clause, tag)) run to stop at the first such failure"""


def raw(clause, expected=None, observed=None, tag=None):
    return {'clause': clause, 'tag': tag, 'expected': expected, 'observed': observed}


def exc_text(e):
    return '%s: %s' % (type(e).__name__, str(e)[:300])


# --------------------------------------------------------------------------
# views as plain records
# --------------------------------------------------------------------------

class V:
    """a table view given by values (expected side of a comparison)"""
    FIELDS = ('obs', 'samp', 'A', 'obs_md', 'samp_md', 'type', 'table_id', 'create_date', 'generated_by',
              'obs_gmd', 'samp_gmd')

    def __init__(self, **kw):
        for f in self.FIELDS:
            setattr(self, f, kw.get(f))

    @classmethod
    def of(cls, view):
        return cls(**{f: getattr(view, f) for f in cls.FIELDS})

    def ids(self, axis):
        return self.samp if axis == 'sample' else self.obs


def md_norm(md):
    """metadata as comparable value: None when there is none on the axis"""
    if md is None:
        return None
    md = [rt.plain(dict(m)) if m is not None else None for m in md]
    if not any(md):
        return None
    return md


def bits_equal(a, b):
    a, b = np.asarray(a, dtype=float), np.asarray(b, dtype=float)
    return a.shape == b.shape and np.array_equal(np.ascontiguousarray(a + 0.0).view(np.int64),
                                                 np.ascontiguousarray(b + 0.0).view(np.int64))


def gmd_payload(g):
    """group metadata -> {key: text payload}; source tables hold (data_type, text), loaded ones the text"""
    if not g:
        return {}
    out = {}
    for k, v in g.items():
        if isinstance(v, (list, tuple)) and len(v) == 2:
            v = v[1]
        if isinstance(v, bytes):
            v = v.decode('utf8')
        out[k] = v
    return out


def compare_core(got, exp, prefix='', exact=True):
    """clauses (as raw records) in which view `got` departs from the expected record `exp`:
    ids in order, matrix values, per-ID metadata of both axes"""
    fs = []
    if got.obs != exp.obs:
        fs.append(raw(prefix + 'obs-ids', exp.obs, got.obs))
    if got.samp != exp.samp:
        fs.append(raw(prefix + 'samp-ids', exp.samp, got.samp))
    A = np.asarray(exp.A, dtype=float)
    ok = bits_equal(got.A, A) if exact else (got.A.shape == A.shape and np.array_equal(got.A, A))
    if not ok:
        fs.append(raw(prefix + 'values', A.tolist(), np.asarray(got.A).tolist()))
    if md_norm(got.obs_md) != md_norm(exp.obs_md):
        fs.append(raw(prefix + 'obs-md', md_norm(exp.obs_md), md_norm(got.obs_md)))
    if md_norm(got.samp_md) != md_norm(exp.samp_md):
        fs.append(raw(prefix + 'samp-md', md_norm(exp.samp_md), md_norm(got.samp_md)))
    return fs


def as_datetime(x):
    if isinstance(x, datetime.datetime):
        return x
    if isinstance(x, bytes):
        x = x.decode('utf8')
    if isinstance(x, str):
        try:
            return datetime.datetime.fromisoformat(x)
        except ValueError:
            return x
    return x


def compare_header(got, exp, prefix=''):
    fs = []
    if got.type != exp.type:
        fs.append(raw(prefix + 'type', exp.type, got.type))
    if got.table_id != exp.table_id:
        fs.append(raw(prefix + 'table-id', exp.table_id, got.table_id))
    if got.generated_by != exp.generated_by:
        fs.append(raw(prefix + 'generated-by', exp.generated_by, got.generated_by))
    if as_datetime(got.create_date) != as_datetime(exp.create_date):
        fs.append(raw(prefix + 'creation-date', repr(exp.create_date), repr(got.create_date)))
    if gmd_payload(got.obs_gmd) != gmd_payload(exp.obs_gmd):
        fs.append(raw(prefix + 'obs-group-md', gmd_payload(exp.obs_gmd), gmd_payload(got.obs_gmd)))
    if gmd_payload(got.samp_gmd) != gmd_payload(exp.samp_gmd):
        fs.append(raw(prefix + 'samp-group-md', gmd_payload(exp.samp_gmd), gmd_payload(got.samp_gmd)))
    return fs


def subset_view(full, axis, ids, drop):
    """the statement of C14 on views: keep the IDs named in `ids` on `axis` (file order), then, when `drop`,
    remove the vectors of the other axis that have no non-zero entry left"""
    want = set(ids)
    A = np.asarray(full.A, dtype=float)
    if axis == 'sample':
        ks = [k for k, i in enumerate(full.samp) if i in want]
        ko = list(range(len(full.obs)))
        if drop:
            ko = [i for i in ko if np.any(A[i, ks] != 0)]
    else:
        ko = [k for k, i in enumerate(full.obs) if i in want]
        ks = list(range(len(full.samp)))
        if drop:
            ks = [j for j in ks if np.any(A[ko, j] != 0)]
    sub = A[np.ix_(ko, ks)] if (ko and ks) else np.zeros((len(ko), len(ks)))

    def pick(md, keep):
        if md is None:
            return None
        return [md[k] for k in keep]
    out = V.of(full)
    out.obs = [full.obs[k] for k in ko]
    out.samp = [full.samp[k] for k in ks]
    out.A = sub
    out.obs_md = pick(md_norm(full.obs_md), ko)
    out.samp_md = pick(md_norm(full.samp_md), ks)
    return out


def orderings(n, full=True):
    """every non-empty subset of range(n) in every order (full) or in ascending and descending order"""
    for r in range(1, n + 1):
        for c in itertools.combinations(range(n), r):
            if full:
                for p in itertools.permutations(c):
                    yield list(p)
            else:
                yield list(c)
                if r > 1:
                    yield list(c[::-1])


# --------------------------------------------------------------------------
# independent BIOM 2.1 decoder (raw h5py, written from biom-2.1.rst only)
# --------------------------------------------------------------------------

REQUIRED_ATTRS = ('id', 'type', 'format-url', 'format-version', 'generated-by', 'creation-date', 'shape', 'nnz')
REQUIRED_GROUPS = ('observation', 'observation/matrix', 'observation/metadata', 'observation/group-metadata',
                   'sample', 'sample/matrix', 'sample/metadata', 'sample/group-metadata')
# required datasets: (relative name, element type)
REQUIRED_DATASETS = (('ids', 'string'), ('matrix/data', 'float64'), ('matrix/indices', 'int32'),
                     ('matrix/indptr', 'int32'))


def _is_string_dtype(dt):
    import h5py
    return h5py.check_string_dtype(dt) is not None or dt.kind in 'SU'


def _text(x):
    if isinstance(x, bytes):
        return x.decode('utf8')
    if isinstance(x, np.bytes_):
        return bytes(x).decode('utf8')
    return str(x)


def _attr_raw(h, name):
    """(python value, is_string, numpy kind, shape) of an attribute, read without h5py's str conversion
    getting in the way"""
    v = h.attrs[name]
    aid = h.attrs.get_id(name)
    dt = aid.dtype
    is_str = _is_string_dtype(dt)
    return v, is_str, dt.kind, tuple(aid.shape)


def decode21(h):
    """Read `h` (open h5py File/Group) as the specification describes a BIOM 2.1 table.

    Returns (doc, problems).  problems is a list of (clause, where, detail): every place where the file is
    not what biom-2.1.rst requires.  doc holds whatever could be decoded:
      attrs{...}, shape, nnz, and per axis ('observation'/'sample'):
      ids[list of str], md{category: list}, gmd{name: (data_type, text)}, dense (N x M matrix or None)
    """
    import h5py
    problems = []
    doc = {'attrs': {}, 'shape': None, 'nnz': None, 'observation': {}, 'sample': {}}

    def bad(clause, where, detail):
        problems.append((clause, where, detail))

    # ---- required top-level attributes ----------------------------------
    for name in REQUIRED_ATTRS:
        if name not in h.attrs:
            bad('attr-present/' + name, '/', 'missing attribute %r' % name)
            continue
        v, is_str, kind, shp = _attr_raw(h, name)
        if name in ('id', 'type', 'format-url', 'generated-by', 'creation-date'):
            # "<string or null>", "<string>", "<url>", "<datetime> (ISO 8601)"
            if not is_str and not (name == 'id' and isinstance(v, h5py.Empty)):
                bad('attr-type/' + name, '/', 'not a string attribute: %r' % (v,))
                continue
            if shp != ():
                bad('attr-type/' + name, '/', 'string attribute is not scalar: shape %r' % (shp,))
                continue
            doc['attrs'][name] = None if isinstance(v, h5py.Empty) else _text(v)
        elif name in ('format-version', 'shape'):
            # "<tuple> major and minor", "<list of ints> number of rows and number of columns"
            arr = np.asarray(v)
            if arr.dtype.kind not in 'iu' or arr.shape != (2,):
                bad('attr-type/' + name, '/', 'not two integers: %r' % (v,))
                continue
            doc['attrs'][name] = tuple(int(x) for x in arr.tolist())
        else:  # nnz: "<int>"
            arr = np.asarray(v)
            if arr.dtype.kind not in 'iu' or arr.shape != ():
                bad('attr-type/' + name, '/', 'not an integer scalar: %r' % (v,))
                continue
            doc['attrs'][name] = int(arr)
    a = doc['attrs']
    if 'format-version' in a and a['format-version'] != (2, 1):
        bad('attr-value/format-version', '/', a['format-version'])
    if 'creation-date' in a:
        try:
            datetime.datetime.fromisoformat(a['creation-date'])
        except (ValueError, TypeError):
            bad('attr-value/creation-date', '/', 'not ISO 8601: %r' % a['creation-date'])
    if 'format-url' in a and not a['format-url']:
        bad('attr-value/format-url', '/', 'empty')
    doc['shape'] = a.get('shape')
    doc['nnz'] = a.get('nnz')

    # ---- required groups ----------------------------------------------------
    for g in REQUIRED_GROUPS:
        obj = h.get(g)
        if obj is None or not isinstance(obj, h5py.Group):
            bad('group-present/' + g.split('/', 1)[-1] if '/' in g else 'group-present/axis', g,
                'missing or not a group')

    # ---- per axis ----------------------------------------------------------
    for axis, major_dim in (('observation', 0), ('sample', 1)):
        ax = doc[axis]
        ax.update(ids=None, md={}, gmd={}, dense=None, n=None)
        grp = h.get(axis)
        if grp is None or not isinstance(grp, h5py.Group):
            continue
        dsets = {}
        for rel, etype in REQUIRED_DATASETS:
            ds = grp.get(rel)
            where = '%s/%s' % (axis, rel)
            if ds is None or not isinstance(ds, h5py.Dataset):
                bad('dataset-present/' + rel, where, 'missing or not a dataset')
                continue
            if etype == 'string':
                ok = _is_string_dtype(ds.dtype)
            else:
                ok = ds.dtype == np.dtype(etype)
            if not ok:
                bad('dataset-type/' + rel, where, 'element type %s, specified: %s' % (ds.dtype, etype))
            if ds.ndim != 1:
                bad('dataset-shape/' + rel, where, 'not one-dimensional: %r' % (ds.shape,))
                continue
            dsets[rel] = ds
        # ids: "A (N,) dataset of the observation IDs, where N is the total number of IDs"
        n = None
        if 'ids' in dsets:
            rawids = dsets['ids'][()]
            n = int(rawids.shape[0])
            if _is_string_dtype(dsets['ids'].dtype):
                try:
                    ax['ids'] = [_text(x) for x in rawids.tolist()]
                except UnicodeDecodeError as e:
                    bad('ids-text', axis + '/ids', 'not decodable: %s' % e)
            elif n == 0:
                ax['ids'] = []
            if doc['shape'] is not None and n != doc['shape'][major_dim]:
                bad('ids-length', axis + '/ids', '%d ids but shape attribute %r' % (n, doc['shape']))
        ax['n'] = n
        # metadata: "a list of atomic type objects where the index order corresponds to the axis IDs";
        # special fields (taxonomy, KEGG_Pathways, collapsed_ids): "(N, ?) dataset" of strings
        mg = grp.get('metadata')
        if isinstance(mg, h5py.Group):
            for cat, ds in mg.items():
                where = '%s/metadata/%s' % (axis, cat)
                if not isinstance(ds, h5py.Dataset):
                    bad('metadata-dataset', where, 'not a dataset')
                    continue
                if ds.ndim not in (1, 2) or (n is not None and ds.shape[0] != n):
                    bad('metadata-length', where, 'shape %r for %r ids' % (ds.shape, n))
                    continue
                special = cat in ('taxonomy', 'KEGG_Pathways', 'collapsed_ids')
                if special and not (_is_string_dtype(ds.dtype) and ds.ndim == 2):
                    bad('metadata-special-layout', where, 'shape %r type %s' % (ds.shape, ds.dtype))
                if ds.ndim == 2 and not special:
                    bad('metadata-atomic', where, 'two-dimensional dataset for a general category')
                val = ds[()]
                if _is_string_dtype(ds.dtype):
                    try:
                        if ds.ndim == 1:
                            ax['md'][cat] = [_text(x) for x in val.tolist()]
                        else:
                            ax['md'][cat] = [[_text(x) for x in row] for row in val.tolist()]
                    except UnicodeDecodeError as e:
                        bad('metadata-text', where, 'not decodable: %s' % e)
                elif val.dtype.kind in 'biuf':
                    ax['md'][cat] = val.tolist()
                else:
                    bad('metadata-atomic', where, 'element type %s' % val.dtype)
        # group metadata: "a single string or variable length string" + attribute data_type
        gg = grp.get('group-metadata')
        if isinstance(gg, h5py.Group):
            for name, ds in gg.items():
                where = '%s/group-metadata/%s' % (axis, name)
                if not isinstance(ds, h5py.Dataset) or not _is_string_dtype(ds.dtype) or ds.size != 1:
                    bad('group-metadata-string', where, 'not a single string dataset')
                    continue
                if 'data_type' not in ds.attrs:
                    bad('group-metadata-data_type', where, 'attribute data_type missing')
                    dtp = None
                else:
                    dtp = _text(ds.attrs['data_type'])
                try:
                    ax['gmd'][name] = (dtp, _text(np.asarray(ds[()]).reshape(-1)[0]))
                except UnicodeDecodeError as e:
                    bad('group-metadata-string', where, 'not decodable: %s' % e)
        # matrix: compressed sparse row (observation) / column (sample)
        if all(k in dsets for k in ('matrix/data', 'matrix/indices', 'matrix/indptr')) and doc['shape'] is not None:
            data = np.asarray(dsets['matrix/data'][()])
            indices = np.asarray(dsets['matrix/indices'][()])
            indptr = np.asarray(dsets['matrix/indptr'][()])
            N, M = doc['shape']
            major, minor = (N, M) if axis == 'observation' else (M, N)
            where = axis + '/matrix'
            ok = True
            nnz = doc['nnz']
            if nnz is not None and (len(data) != nnz or len(indices) != nnz):
                bad('matrix-length', where, 'data %d indices %d, nnz attribute %d' % (len(data), len(indices), nnz))
            if len(data) != len(indices):
                ok = False
                bad('matrix-length', where, 'data %d != indices %d' % (len(data), len(indices)))
            if len(indptr) != major + 1:
                ok = False
                bad('matrix-indptr-length', where, 'indptr has %d entries for %d vectors' % (len(indptr), major))
            elif indptr[0] != 0 or np.any(np.diff(indptr.astype(np.int64)) < 0):
                ok = False
                bad('matrix-indptr-monotone', where, indptr.tolist())
            elif int(indptr[-1]) != len(data):
                ok = False
                bad('matrix-indptr-end', where, 'indptr ends at %d, %d values stored' % (indptr[-1], len(data)))
            if len(indices) and (indices.min() < 0 or indices.max() >= minor):
                ok = False
                bad('matrix-index-range', where, 'indices %r outside [0,%d)' % (indices.tolist(), minor))
            if data.dtype.kind == 'f' and np.any(data == 0):
                bad('matrix-stored-zero', where, '%d stored zeros' % int(np.sum(data == 0)))
            if ok and data.dtype.kind in 'fiu':
                dense = np.zeros((N, M), dtype=float)
                seen = set()
                dup = False
                for k in range(major):
                    for p in range(int(indptr[k]), int(indptr[k + 1])):
                        j = int(indices[p])
                        cell = (k, j) if axis == 'observation' else (j, k)
                        if cell in seen:
                            dup = True
                        seen.add(cell)
                        dense[cell] = data[p]
                if dup:
                    bad('matrix-duplicate-entry', where, 'a cell is stored twice')
                else:
                    ax['dense'] = dense
    return doc, problems


def doc_view(doc):
    """the decoded file as a table view (what "a reader following only the specification recovers").
    Library conventions that the specification leaves open are undone here, not in the decoder: the writer
    replaces '/' in category names by '@@SLASH@@'; (N, ?) list categories are padded with empty strings; an
    absent table type is written as the empty string."""
    def md_of(ax):
        ids, md = ax.get('ids'), ax.get('md') or {}
        if ids is None or not md:
            return None
        out = [dict() for _ in ids]
        for cat, vals in md.items():
            name = cat.replace('@@SLASH@@', '/')
            for d, v in zip(out, vals):
                if isinstance(v, list):
                    v = [x for x in v if x != '']
                d[name] = v
        return out
    a = doc['attrs']
    o, s = doc['observation'], doc['sample']
    return V(obs=o.get('ids'), samp=s.get('ids'), A=o.get('dense'), obs_md=md_of(o), samp_md=md_of(s),
             type=(a.get('type') or None), table_id=a.get('id'), create_date=a.get('creation-date'),
             generated_by=a.get('generated-by'),
             obs_gmd={k: v[1] for k, v in (o.get('gmd') or {}).items()},
             samp_gmd={k: v[1] for k, v in (s.get('gmd') or {}).items()})


def read_file_view(path):
    """decode a whole file independently; raises if it cannot be decoded at all"""
    import h5py
    with h5py.File(path, 'r') as h:
        doc, problems = decode21(h)
    v = doc_view(doc)
    if v.obs is None or v.samp is None or v.A is None:
        raise RuntimeError('file not decodable by the specification reader: %r' % (problems[:3],))
    return v, problems


# --------------------------------------------------------------------------
# BIOM 1.0 JSON documents, decoded with the standard library
# --------------------------------------------------------------------------

def json_view(doc):
    """view of a BIOM 1.0 JSON document (dict from json.loads); raises ValueError when it is not one"""
    if not isinstance(doc, dict):
        raise ValueError('top level is not an object')
    for k in ('rows', 'columns', 'data', 'shape', 'matrix_type'):
        if k not in doc:
            raise ValueError('key %r missing' % k)
    rows, cols = doc['rows'], doc['columns']
    shape = doc['shape']
    if (not isinstance(shape, list) or len(shape) != 2 or shape[0] != len(rows) or shape[1] != len(cols)):
        raise ValueError('shape %r does not match %d rows x %d columns' % (shape, len(rows), len(cols)))
    A = np.zeros((len(rows), len(cols)), dtype=float)
    if doc['matrix_type'] == 'sparse':
        seen = set()
        for e in doc['data']:
            if not isinstance(e, list) or len(e) != 3:
                raise ValueError('sparse data entry is not a [row, column, value] triple: %r' % (e,))
            r, c, v = e
            if not (isinstance(r, int) and isinstance(c, int) and 0 <= r < len(rows) and 0 <= c < len(cols)):
                raise ValueError('sparse data entry out of range: %r' % (e,))
            if (r, c) in seen:
                raise ValueError('cell stored twice: %r' % (e,))
            seen.add((r, c))
            A[r, c] = v
    elif doc['matrix_type'] == 'dense':
        A = np.array(doc['data'], dtype=float).reshape(len(rows), len(cols))
    else:
        raise ValueError('matrix_type %r' % doc['matrix_type'])

    def md_of(entries):
        md = [e.get('metadata') for e in entries]
        return md if any(md) else None
    return V(obs=[e['id'] for e in rows], samp=[e['id'] for e in cols], A=A, obs_md=md_of(rows),
             samp_md=md_of(cols), type=doc.get('type'), table_id=doc.get('id'),
             create_date=doc.get('date'), generated_by=doc.get('generated_by'))


JSON_FORMS = ('written', 'compact', 'spaced', 'indented')


def reserialise(text, form):
    """the same JSON document in another serialisation (key order unchanged)"""
    if form == 'written':
        return text
    doc = json.loads(text)
    if form == 'compact':
        return json.dumps(doc, separators=(',', ':'))
    if form == 'spaced':
        return json.dumps(doc)                      # default separators ', ' and ': '
    if form == 'indented':
        return json.dumps(doc, indent=2)
    raise ValueError(form)


# --------------------------------------------------------------------------
# common state enumerations
# --------------------------------------------------------------------------

def base_states(tier, seed=0, values=(0, 1, 2), small_only=False):
    """every matrix over {0,1,2} up to 2x2 (thorough: also 2x3, 3x2, and 3x3 over {0,1}) in every layout and
    stored-zero mode, the value-stress matrices, and seeded random tables up to 3x3 (thorough 6x6) whose
    values mix counts, fractions, negative, very large and very small numbers"""
    import random
    q = tier == 'quick'
    shapes = [(1, 1), (1, 2), (2, 1), (2, 2)]
    mats = list(rt.matrices(0, 0, values=values, shapes=shapes))
    if not q and not small_only:
        mats += list(rt.matrices(0, 0, values=values, shapes=[(2, 3), (3, 2)]))
        mats += list(rt.matrices(0, 0, values=(0, 1), shapes=[(3, 3)]))
    for dm in mats:
        has_zero = bool(np.any(dm == 0))
        for lay in rt.LAYOUTS:
            for z in rt.ZEROS:
                if z == 'nz' or has_zero:
                    yield {'A': dm.tolist(), 'layout': lay, 'zeros': z}
    for dm in rt.stress_matrices():
        for lay in rt.LAYOUTS + ('coo',):
            yield {'A': dm.tolist(), 'layout': lay, 'zeros': 'nz'}
            if np.any(dm == 0):
                yield {'A': dm.tolist(), 'layout': lay, 'zeros': 'zall'}
    # tables constructed from a COO matrix with duplicate coordinates (summed by the constructor)
    for dm in rt.matrices(0, 0, values=values, shapes=[(1, 2), (2, 2)]):
        yield {'A': dm.tolist(), 'layout': 'coo', 'zeros': rt.ZEROS[int(dm.sum()) % 3] if np.any(dm == 0) else 'nz'}
    rnd = random.Random(1000 + int(seed))
    shapes = [(2, 3), (3, 2), (3, 3)] if q else [(2, 3), (3, 2), (3, 3), (3, 4), (4, 3), (5, 6), (6, 6)]
    per = 8 if q else 80
    pool = [1, 2, 3, 7, 1000000] + rt.STRESS_VALUES
    for shp in shapes:
        for k in range(per):
            dens = rnd.choice((0.2, 0.5, 0.8, 1.0))
            vals = (1, 2, 3, 7) if k % 2 else pool
            cells = [rnd.choice(vals) if rnd.random() < dens else 0 for _ in range(shp[0] * shp[1])]
            dm = np.array(cells, dtype=float).reshape(shp)
            lay = rnd.choice(rt.LAYOUTS)
            z = rnd.choice(rt.ZEROS) if np.any(dm == 0) else 'nz'
            yield {'A': dm.tolist(), 'layout': lay, 'zeros': z}


RICH_BASE = ([[1., 0., 2.], [0., 3., 0.], [4., 5., 0.]], [[0., 2.], [1., 1.], [0., 0.]], [[2., 0., 0.5, 1.]])


def rich_states(tier):
    """ID alphabets x metadata kinds x layouts on a few fixed matrices (incl. an all-zero row)"""
    q = tier == 'quick'
    k = 0
    obs_kinds = ('none', 'text', 'num', 'tax', 'slash', 'tax_ragged', 'collapsed', 'text_edge', 'mixed')
    samp_kinds = ('none', 'text', 'num', 'slash', 'text_edge', 'collapsed', 'mixed')
    for A in RICH_BASE:
        for ids in sorted(rt.ID_ALPHABETS):
            for omd in obs_kinds:
                for smd in samp_kinds:
                    k += 1
                    if q and (k % 2):
                        continue
                    lay = rt.LAYOUTS[k % 3]
                    z = rt.ZEROS[(k // 3) % 3]
                    yield {'A': A, 'layout': lay, 'zeros': z, 'ids': ids, 'obs_md': omd, 'samp_md': smd}


def header_states():
    A = RICH_BASE[0]
    types = (None, 'OTU table', 'Pathway table', 'Function table', 'Ortholog table', 'Gene table',
             'Metabolite table', 'Taxon table')
    for k, ty in enumerate(types):
        yield {'A': A, 'layout': rt.LAYOUTS[k % 3], 'zeros': 'nz', 'type': ty,
               'table_id': (None, 'plain', 'nonascii')[k % 3], 'gen': ('plain', 'nonascii')[k % 2],
               'gmd': ('none', 'tree')[(k // 2) % 2], 'obs_md': 'tax', 'samp_md': 'text'}
    yield {'A': A, 'table_id': 'nonascii', 'gen': 'nonascii', 'gmd': 'tree', 'ids': 'nonascii'}
    yield {'A': A, 'table_id': 'plain', 'gmd': 'tree', 'ids': 'punct', 'obs_md': 'mixed', 'samp_md': 'mixed'}


COUNT_BASE = ([[3., 0., 2.], [1., 4., 0.], [0., 1., 5.]], [[1., 1.], [2., 0.], [0., 3.]])


def history_states(tier, seed=0):
    """tables left behind by public operations (depth 1; thorough: every ordered pair as well)"""
    import random
    q = tier == 'quick'
    singles = ['sort_rev_samp', 'sort_rev_obs', 'transpose', 'copy', 'filter_true_samp', 'filter_true_obs',
               'ones_to_zero', 'subsample', 'norm', 'pa', 'merge_self', 'collapse_samp', 'collapse_obs',
               'update_ids', 'add_md', 'del_md', 'data_csc']
    seqs = [[s] for s in singles]
    pairs = [[a, b] for a in singles for b in singles if a != b]
    if q:
        rnd = random.Random(77 + int(seed))
        seqs += rnd.sample(pairs, 24)
    else:
        seqs += pairs
        rnd = random.Random(78 + int(seed))
        seqs += [rnd.sample(singles, 3) for _ in range(150)]
    k = 0
    for A in COUNT_BASE:
        for hist in seqs:
            k += 1
            for ids in (('plain', 'punct') if q else ('plain', 'punct', 'long', 'numeric', 'nonascii')):
                yield {'A': A, 'layout': rt.LAYOUTS[k % 3], 'zeros': ('nz', 'z1')[k % 2], 'ids': ids,
                       'obs_md': 'mixed', 'samp_md': 'text', 'history': hist}
