"""C19 - Summaries and exports report the numbers that are in the matrix.

Bounded part: every summary / export named by the statement is run on the
real library over non-square asymmetric tables (so that axis mix-ups show) in
every layout reachable through the public API x every stored-zero mode, with
and without metadata, all ID alphabets, value-stress matrices and operation
histories, and compared with values computed from the dense matrix, IDs and
metadata of rt.view (numpy / math.fsum / the csv and json modules).

Sums are compared with the forward error bound of *any* summation order
(|got - fsum| <= 1e-12 * sum|a_i|); extremes and counts exactly; report
figures to the precision the report prints (3 decimals; '%d' truncation).
min/max are evaluated only where the statement defines them: every vector of
the axis has a non-zero entry (for 'whole': every sample has one).
"""
import csv
import functools
import math
import os

import numpy as np

from pyvc import rt
from props import values_util as vu

LEVEL = 'other'
AXES = vu.AXES


def _fsum(x):
    return math.fsum(float(v) for v in np.ravel(x))


def _tol(x):
    return 1e-12 * _fsum(np.abs(np.ravel(x)))


def _sum_ok(got, vec):
    with np.errstate(all='ignore'):
        want = _fsum(vec)
        return bool(got == want or abs(float(got) - want) <= _tol(vec))


def _vecs(v, axis):
    return [np.array(v.vec(axis, k), dtype=float) for k in range(len(v.ids(axis)))]


REDUCERS = {'add': lambda x, y: x + y, 'noncomm': lambda x, y: x * 0.5 + y}


def _median(xs):
    s = sorted(xs)
    n = len(s)
    return s[n // 2] if n % 2 else (s[n // 2 - 1] / 2.0 + s[n // 2] / 2.0)


def _num_close(got, want, scale=None):
    with np.errstate(all='ignore'):
        got, want = float(got), float(want)
        return bool(got == want or abs(got - want) <= 1e-12 * max(abs(want), abs(got), scale or 0.0))


# --------------------------------------------------------------------------
# return values of the summary methods
# --------------------------------------------------------------------------

def _summary_core(case):
    t = vu.build(case)
    pre = rt.view(t)
    if rt.inv(t):
        return [('pre/Inv', [], rt.inv(t))]
    A = pre.A
    fn, axis = case['fn'], case.get('axis')
    fails = []
    nvec = None if axis in (None, 'whole') else len(pre.ids(axis))
    with np.errstate(all='ignore'):
        if fn == 'sum':
            st, got = vu.call_f(lambda: t.sum(axis=axis))
            if st == 'exc':
                return [('sum/returns', 'a value', got)]
            if axis == 'whole':
                if np.shape(got) != () or not _sum_ok(got, A):
                    fails.append(('sum/whole', _fsum(A), vu.tolist(got)))
            else:
                want = [_fsum(x) for x in _vecs(pre, axis)]
                if np.shape(got) != (nvec,) or not all(_sum_ok(g, x) for g, x in zip(got, _vecs(pre, axis))):
                    fails.append(('sum/per-%s' % axis, want, vu.tolist(got)))
        elif fn in ('min', 'max'):
            st, got = vu.call_f(lambda: getattr(t, fn)(axis=axis))
            if st == 'exc':
                return [('%s/returns' % fn, 'a value', got)]
            pick = np.min if fn == 'min' else np.max
            if axis == 'whole':
                want = float(pick(A[A != 0]))
                if np.shape(got) != () or float(got) != want:
                    fails.append(('%s/whole-over-nonzero-values' % fn, want, vu.tolist(got)))
            else:
                want = [float(pick(x[x != 0])) for x in _vecs(pre, axis)]
                if np.shape(got) != (nvec,) or vu.tolist(got) != want:
                    fails.append(('%s/per-%s-over-nonzero-values' % (fn, axis), want, vu.tolist(got)))
        elif fn == 'nonzero_counts':
            binary = case['binary']
            st, got = vu.call_f(lambda: t.nonzero_counts(axis, binary=binary))
            if st == 'exc':
                return [('nonzero_counts/returns', 'a value', got)]
            vecs = [A] if axis == 'whole' else _vecs(pre, axis)
            if binary:
                want = [int(np.count_nonzero(x)) for x in vecs]
                ok = np.shape(got) == (len(vecs),) and vu.tolist(got) == want
            else:
                want = [_fsum(x) for x in vecs]
                ok = np.shape(got) == (len(vecs),) and all(_sum_ok(g, x) for g, x in zip(got, vecs))
            if not ok:
                fails.append(('nonzero_counts/%s-%s' % ('count' if binary else 'sum', axis), want, vu.tolist(got)))
        elif fn == 'density':
            st, got = vu.call_f(lambda: t.get_table_density())
            if st == 'exc':
                return [('density/returns', 'a value', got)]
            want = np.count_nonzero(A) / float(A.size)
            if not _num_close(got, want):
                fails.append(('density/fraction-of-nonzero-cells', want, vu.tolist(got)))
        elif fn == 'reduce':
            f = REDUCERS[case['f']]
            st, got = vu.call_f(lambda: t.reduce(f, axis))
            if st == 'exc':
                return [('reduce/returns', 'a value', got)]
            vecs = _vecs(pre, axis)
            want = [functools.reduce(f, x.tolist()) for x in vecs]
            ok = np.shape(got) == (nvec,) and all(_num_close(g, w, _fsum(np.abs(x))) for g, w, x in zip(got, want, vecs))
            if not ok:
                fails.append(('reduce/per-%s' % axis, want, vu.tolist(got)))
        elif fn == 'stats':
            from biom.util import compute_counts_per_sample_stats
            binary = case['binary']
            st, got = vu.call_f(lambda: compute_counts_per_sample_stats(t, binary_counts=binary))
            if st == 'exc':
                return [('stats/returns', 'a 5-tuple', got)]
            cols = _vecs(pre, 'sample')
            counts = [float(np.count_nonzero(x)) if binary else _fsum(x) for x in cols]
            scale = max([_fsum(np.abs(x)) for x in cols] + [0.0])
            mn, mx, med, mean, per = got
            per = {str(k): float(v) for k, v in per.items()}
            if sorted(per) != sorted(pre.samp) or not all(_num_close(per[i], c, scale) for i, c in zip(pre.samp, counts)):
                fails.append(('stats/per-sample-counts', dict(zip(pre.samp, counts)), per))
            else:
                want = (min(counts), max(counts), _median(counts), _fsum(counts) / len(counts))
                for name, g, w in zip(('min', 'max', 'median', 'mean'), (mn, mx, med, mean), want):
                    if not _num_close(g, w, scale):
                        fails.append(('stats/%s' % name, w, float(g)))
        else:
            raise ValueError(fn)
    return fails


def run_summary_case(case):
    return {'fails': vu.classify(case, _summary_core(case), _summary_core), 'nontrivial': True}


# --------------------------------------------------------------------------
# pandas exports
# --------------------------------------------------------------------------

def _md_table(md, ids):
    """{column: {id: value}} with list-valued entries expanded to key_0, key_1, ..."""
    out = {}
    for i, m in zip(ids, md):
        for k, v in m.items():
            if isinstance(v, (list, tuple)):
                for q, e in enumerate(v):
                    out.setdefault('%s_%d' % (k, q), {})[i] = e
            else:
                out.setdefault(k, {})[i] = v
    return out


def _cell_eq(got, want):
    got = rt.plain(got)
    if isinstance(want, bool) or isinstance(got, bool):
        return bool(got) == bool(want) and isinstance(got, (bool, int))
    if isinstance(want, (int, float)) and isinstance(got, (int, float)):
        return float(got) == float(want)
    return got == want


def _frames_core(case):
    t = vu.build(case)
    pre = rt.view(t)
    fn = case['fn']
    fails = []
    if fn == 'to_dataframe':
        st, df = vu.call_f(lambda: t.to_dataframe(dense=case['dense']))
        if st == 'exc':
            return [('to_dataframe/returns', 'a DataFrame', df)]
        idx, cols = [str(x) for x in df.index.tolist()], [str(x) for x in df.columns.tolist()]
        if idx != pre.obs or cols != pre.samp:
            fails.append(('to_dataframe/index-obs-ids-columns-sample-ids', [pre.obs, pre.samp], [idx, cols]))
        else:
            got = np.array([[float(df.iloc[i, j]) for j in range(len(cols))] for i in range(len(idx))]).reshape(pre.A.shape)
            if not np.array_equal(got, pre.A):
                nan_for_zero = np.isnan(got) & (pre.A == 0)
                if not case['dense'] and np.array_equal(np.where(nan_for_zero, 0.0, got), pre.A):
                    # every mismatch is an unstored zero cell shown as NaN (fill value of the pandas sparse dtype)
                    fails.append(('to_dataframe/sparse-zero-cells-read-as-zero', pre.A.tolist(), got.tolist()))
                else:
                    fails.append(('to_dataframe/cells', pre.A.tolist(), got.tolist()))
    elif fn == 'metadata_to_dataframe':
        axis = case['axis']
        st, df = vu.call_f(lambda: t.metadata_to_dataframe(axis))
        if st == 'exc':
            return [('metadata_to_dataframe/returns', 'a DataFrame', df)]
        ids = pre.ids(axis)
        want = _md_table(pre.md(axis), ids)
        idx, cols = [str(x) for x in df.index.tolist()], [str(x) for x in df.columns.tolist()]
        if idx != ids or sorted(cols) != sorted(want):
            fails.append(('metadata_to_dataframe/index-ids-columns-keys', [ids, sorted(want)], [idx, sorted(cols)]))
        else:
            bad = [(i, c, repr(df.loc[i, c]), repr(want[c][i])) for c in cols for i in ids
                   if not _cell_eq(df.loc[i, c], want[c][i])]
            if bad:
                fails.append(('metadata_to_dataframe/cells', 'every cell = the metadata value', bad[:4]))
    elif fn == 'export':
        from biom.cli.metadata_exporter import _export_metadata
        axis = case['axis']
        with vu.TmpFiles() as tmp:
            outp = tmp.path('md.tsv')
            st, res = vu.call_f(lambda: _export_metadata(t, axis, 'in.biom', outp))
            if st == 'exc':
                return [('export-metadata/returns', 'a file', res)]
            with open(outp, encoding='utf-8', newline='') as fh:
                rows = list(csv.reader(fh, delimiter='\t'))
        fails += _check_md_tsv(rows, pre, axis, 'export-metadata')
    return fails


def _check_md_tsv(rows, pre, axis, name):
    ids = pre.ids(axis)
    want = _md_table(pre.md(axis), ids)
    if not rows or sorted(rows[0][1:]) != sorted(want) or [r[0] for r in rows[1:]] != ids:
        return [('%s/ids-and-keys' % name, [ids, sorted(want)], [[r[0] for r in rows[1:]], rows[0][1:] if rows else None])]
    bad = []
    for r in rows[1:]:
        for c, cell in zip(rows[0][1:], r[1:]):
            w = want[c][r[0]]
            if isinstance(w, bool):
                ok = cell == str(w)
            elif isinstance(w, (int, float)):
                try:
                    ok = float(cell) == float(w)
                except ValueError:
                    ok = False
            else:
                ok = cell == str(w)
            if not ok:
                bad.append((r[0], c, cell, repr(w)))
    return [('%s/cells' % name, 'every cell = the metadata value', bad[:4])] if bad else []


def run_frames_case(case):
    return {'fails': vu.classify(case, _frames_core(case), _frames_core), 'nontrivial': True}


# --------------------------------------------------------------------------
# summarize-table report
# --------------------------------------------------------------------------

def _parse_report(text):
    head, detail, in_detail = {}, [], False
    for line in text.split('\n'):
        if in_detail:
            if line.strip():
                i, v = line.rsplit(': ', 1)
                detail.append((i, float(v.replace(',', ''))))
            continue
        if line.endswith('detail:'):
            in_detail = True
            continue
        if ': ' in line:
            k, v = line.strip().split(': ', 1)
            head[k] = v
    return head, detail


def _fig(s):
    return float(s.replace(',', ''))


def _fig_ok(got, want, prec=0.0005):
    if not math.isfinite(want):
        return got == want or (math.isnan(want) and math.isnan(got))
    return abs(got - want) <= prec + 1e-9 * abs(want)


def expected_report(pre, qualitative, observations):
    axis = 'observation' if observations else 'sample'
    vecs = _vecs(pre, axis)
    with np.errstate(all='ignore'):
        counts = [float(np.count_nonzero(x)) if qualitative else _fsum(x) for x in vecs]
        mean = _fsum(counts) / len(counts)
        try:
            std = math.sqrt(_fsum([(c - mean) ** 2 for c in counts]) / len(counts))
        except OverflowError:
            std = float('inf')          # not compared (see check_report)
    keys = lambda md: 'None provided' if md is None else '; '.join(md[0].keys())        # noqa
    exp = {'Num samples': len(pre.samp), 'Num observations': len(pre.obs),
           'Min': min(counts), 'Max': max(counts), 'Median': _median(counts), 'Mean': mean, 'Std. dev.': std,
           'Sample Metadata Categories': keys(pre.samp_md), 'Observation Metadata Categories': keys(pre.obs_md)}
    if not qualitative:
        exp['Total count'] = _fsum(counts)
        exp['Table density (fraction of non-zero values)'] = np.count_nonzero(pre.A) / float(pre.A.size)
    return exp, dict(zip(pre.ids(axis), counts))


def check_report(text, pre, qualitative, observations, name):
    fails = []
    try:
        head, detail = _parse_report(text)
    except Exception as e:        # noqa
        return [('%s/report-parses' % name, 'key: value lines', '%r in %r' % (e, text[:300]))]
    exp, per = expected_report(pre, qualitative, observations)
    bad = {}
    for k, w in exp.items():
        if k not in head:
            bad[k] = (w, 'missing')
        elif isinstance(w, str):
            if head[k] != w:
                bad[k] = (w, head[k])
        elif k in ('Num samples', 'Num observations'):
            if _fig(head[k]) != w:
                bad[k] = (w, head[k])
        elif k == 'Total count':
            if not (abs(_fig(head[k]) - w) < 1.0 + 1e-9 * abs(w)):
                bad[k] = (w, head[k])
        elif k == 'Std. dev.' and not math.isfinite(w):
            pass
        elif not _fig_ok(_fig(head[k]), w):
            bad[k] = (w, head[k])
    if bad:
        fails.append(('%s/figures' % name, {k: v[0] for k, v in bad.items()}, {k: v[1] for k, v in bad.items()}))
    got_ids = [i for i, _ in detail]
    if sorted(got_ids) != sorted(per):
        fails.append(('%s/listed-ids' % name, sorted(per), got_ids))
    else:
        wrong = [(i, v, per[i]) for i, v in detail if not _fig_ok(v, per[i])]
        if wrong:
            fails.append(('%s/per-id-counts' % name, {i: w for i, _, w in wrong}, {i: v for i, v, _ in wrong}))
        elif any(detail[k][1] > detail[k + 1][1] for k in range(len(detail) - 1)):
            fails.append(('%s/detail-sorted-by-count' % name, 'ascending', detail))
    return fails


def _report_core(case):
    from biom.cli.table_summarizer import _summarize_table
    os.environ['LC_ALL'] = 'C'
    os.environ['LANG'] = 'C'
    t = vu.build(case)
    pre = rt.view(t)
    q, o = case['qualitative'], case['observations']
    st, text = vu.call_f(lambda: _summarize_table(t, qualitative=q, observations=o))
    name = 'summarize-%s%s' % ('qualitative' if q else 'quantitative', '-observations' if o else '')
    if st == 'exc':
        return [('%s/returns' % name, 'a report', text)]
    return check_report(text, pre, q, o, name)


def run_report_case(case):
    return {'fails': vu.classify(case, _report_core(case), _report_core), 'nontrivial': True}


# --------------------------------------------------------------------------
# commands: head, table-ids, export-metadata, summarize-table (on a JSON file
# written with the json module)
# --------------------------------------------------------------------------

def _cmd_core(case):
    from click.testing import CliRunner
    os.environ['LC_ALL'] = 'C'
    os.environ['LANG'] = 'C'
    t = vu.build(case)
    pre = rt.view(t)
    cmd = case['cmd']
    fails = []
    tmpf = vu.TmpFiles()
    tmp = tmpf.__enter__()
    try:
        inp = tmp.write('in.biom', vu.json_biom_text(pre))
        if cmd == 'table-ids':
            from biom.cli.table_ids import summarize_table as table_ids
            r = CliRunner().invoke(table_ids, ['-i', inp] + (['--observations'] if case['observations'] else []))
            if r.exit_code != 0:
                return [('table-ids/runs', 'exit 0', '%s %r' % (r.exit_code, r.exception))]
            want = pre.obs if case['observations'] else pre.samp
            got = r.output.split('\n')
            if got and got[-1] == '':
                got = got[:-1]
            if got != want:
                fails.append(('table-ids/ids-in-order', want, got))
        elif cmd == 'head':
            from biom.cli.table_head import head
            n, m = case['n'], case['m']
            args = ['-i', inp] + ([] if n is None else ['-n', str(n)]) + ([] if m is None else ['-m', str(m)])
            if case.get('to_file'):
                args += ['-o', tmp.path('head.txt')]
            r = CliRunner().invoke(head, args)
            if r.exit_code != 0:
                return [('head/runs', 'exit 0', '%s %r' % (r.exit_code, r.exception))]
            text = r.output
            if case.get('to_file'):
                with open(tmp.paths[-1], encoding='utf-8') as fh:
                    text = fh.read()
            n, m = (5 if n is None else n), (5 if m is None else m)
            lines = [ln for ln in text.split('\n') if ln != '']
            want_ids = [pre.obs[:n], pre.samp[:m]]
            try:
                hdr = lines[1].split('\t')
                rows = [ln.split('\t') for ln in lines[2:]]
                got_ids = [[r_[0] for r_ in rows], hdr[1:]]
                got = np.array([[float(x) for x in r_[1:]] for r_ in rows]).reshape(len(rows), len(hdr) - 1)
            except Exception as e:      # noqa
                return [('head/output-parses', 'tab separated table', '%r in %r' % (e, text[:300]))]
            if got_ids != want_ids:
                fails.append(('head/first-n-obs-first-m-samples', want_ids, got_ids))
            elif not np.array_equal(got, pre.A[:n, :m]):
                fails.append(('head/values', pre.A[:n, :m].tolist(), got.tolist()))
        elif cmd == 'export-metadata':
            from biom.cli.metadata_exporter import export_metadata
            so, oo = tmp.path('s.tsv'), tmp.path('o.tsv')
            r = CliRunner().invoke(export_metadata, ['-i', inp, '-m', so, '--observation-metadata-fp', oo])
            if r.exit_code != 0:
                return [('export-metadata-cmd/runs', 'exit 0', '%s %r' % (r.exit_code, r.exception))]
            for axis, p in (('sample', so), ('observation', oo)):
                if pre.md(axis) is None:
                    continue
                if not os.path.exists(p):
                    fails.append(('export-metadata-cmd/writes-file', p, 'missing'))
                    continue
                with open(p, encoding='utf-8', newline='') as fh:
                    rows = list(csv.reader(fh, delimiter='\t'))
                fails += _check_md_tsv(rows, pre, axis, 'export-metadata-cmd')
        elif cmd == 'summarize-table':
            from biom.cli.table_summarizer import summarize_table
            q, o = case['qualitative'], case['observations']
            outp = tmp.path('sum.txt')
            args = ['-i', inp] + (['--qualitative'] if q else []) + (['--observations'] if o else [])
            if case.get('to_file'):
                args += ['-o', outp]
            r = CliRunner().invoke(summarize_table, args)
            if r.exit_code != 0:
                return [('summarize-table-cmd/runs', 'exit 0', '%s %r' % (r.exit_code, r.exception))]
            text = r.output
            if case.get('to_file'):
                with open(outp, encoding='utf-8') as fh:
                    text = fh.read()
            fails += check_report(text, pre, q, o, 'summarize-table-cmd')
        else:
            raise ValueError(cmd)
    finally:
        tmpf.__exit__()
    return fails


def run_cmd_case(case):
    return {'fails': vu.classify(case, _cmd_core(case), _cmd_core), 'nontrivial': True}


run_summary_case, run_frames_case = vu.history_guard(run_summary_case), vu.history_guard(run_frames_case)
run_report_case, run_cmd_case = vu.history_guard(run_report_case), vu.history_guard(run_cmd_case)
SCOPES = {'summaries': run_summary_case, 'dataframes': run_frames_case, 'summarize-report': run_report_case,
          'commands': run_cmd_case}


# --------------------------------------------------------------------------
# enumeration
# --------------------------------------------------------------------------

# vectors whose non-zero values are all negative next to zero cells (max must not see a zero)
NEG = [np.array([[-1., 0.], [-2., 3.], [0., -4.]]), np.array([[0., -5., -1.], [-2., 0., 0.5]]),
       np.array([[-1., 0., -3.], [0., -2., -5.]])]


def _states(tier):
    q = tier == 'quick'
    for dm in vu.ASYM + NEG:
        for st in vu.rep_states(dm):
            yield st
    for dm in rt.stress_matrices():
        for st in vu.rep_states(dm):
            yield st
    for k, dm in enumerate(vu.small_matrices(tier)):
        if q and k % 3:
            continue
        for st in vu.rep_states(dm):
            yield st
    for ids, omd, smd in vu.md_id_variants():
        for dm in vu.ASYM[:3]:
            for lay, z in (('csr', 'z1'), ('csr_unsorted', 'nz'), ('csc', 'zall')):
                yield dict(A=dm.tolist(), layout=lay, zeros=z, ids=ids, obs_md=omd, samp_md=smd)
    for hist in vu.STD_HISTORIES:
        for dm in vu.ASYM[:2] if q else vu.ASYM:
            for lay, z in (('csr', 'z1'), ('csr_unsorted', 'zall'), ('csc', 'nz')):
                yield dict(A=dm.tolist(), layout=lay, zeros=z, hist=list(hist), obs_md='text', samp_md='num')
    for dm in vu.random_tables(4321, 20 if q else 300):
        for st in vu.rep_states(dm):
            yield st


def _dense_after(st):
    return np.array(st['A'], dtype=float)


def summary_cases(tier):
    for st in _states(tier):
        A = _dense_after(st)
        for axis in ('whole', 'sample', 'observation'):
            yield dict(st, fn='sum', axis=axis)
            for binary in (True, False):
                yield dict(st, fn='nonzero_counts', axis=axis, binary=binary)
        yield dict(st, fn='density')
        for axis in AXES:
            for f in REDUCERS:
                yield dict(st, fn='reduce', axis=axis, f=f)
        for binary in (True, False):
            yield dict(st, fn='stats', binary=binary)
        # min / max: only where every vector of the axis has a non-zero entry
        nz_cols = bool(np.all(np.any(A != 0, axis=0)))
        nz_rows = bool(np.all(np.any(A != 0, axis=1)))
        for fn in ('min', 'max'):
            if nz_cols:
                yield dict(st, fn=fn, axis='sample')
                yield dict(st, fn=fn, axis='whole')
            if nz_rows:
                yield dict(st, fn=fn, axis='observation')


def frames_cases(tier):
    for st in _states(tier):
        for dense in (True, False):
            yield dict(st, fn='to_dataframe', dense=dense)
        for axis in AXES:
            if st.get('obs_md' if axis == 'observation' else 'samp_md', 'none') != 'none':
                yield dict(st, fn='metadata_to_dataframe', axis=axis)
                yield dict(st, fn='export', axis=axis)
    for st in _precise_states():
        for axis in AXES:
            yield dict(st, fn='metadata_to_dataframe', axis=axis)
            yield dict(st, fn='export', axis=axis)


def _precise_states():
    for A in ([[1., 0., 2.], [0., 3., 0.]], [[0., 1.], [2., 2.], [0., 5.]]):
        yield {'A': A, 'layout': 'csr', 'zeros': 'nz', 'obs_md': 'precise', 'samp_md': 'precise'}


def report_cases(tier):
    for st in _states(tier):
        for qual in (False, True):
            for obs in (False, True):
                yield dict(st, qualitative=qual, observations=obs)


def cmd_cases(tier):
    q = tier == 'quick'
    k = 0
    for st in _precise_states():
        yield dict(st, cmd='export-metadata')
    for st in _states(tier):
        A = _dense_after(st)
        if st.get('hist') or np.any(np.abs(A[A != 0]) < 1e-300) or not np.any(A != 0):
            continue      # the JSON input file is written from the view: histories add nothing; reading denormals
            #               and all-zero tables (empty "data" list) back from JSON is C02's topic, not C19's
        k += 1
        if k % (12 if q else 6) and 'ids' not in st:
            continue
        for obs in (False, True):
            yield dict(st, cmd='table-ids', observations=obs)
        for n, m, to_file in ((None, None, False), (1, 1, False), (2, 1, True), (1, 3, False), (7, 7, True)):
            yield dict(st, cmd='head', n=n, m=m, to_file=to_file)
        if st.get('obs_md', 'none') != 'none' or st.get('samp_md', 'none') != 'none':
            yield dict(st, cmd='export-metadata')
        for qual, obs, to_file in ((False, False, True), (True, False, False), (False, True, False), (True, True, True)):
            yield dict(st, cmd='summarize-table', qualitative=qual, observations=obs, to_file=to_file)


def run(rep):
    from props import common
    if 'deductive' in rep.only:
        common.run_deductive(rep, 'C19')
    if 'bounded' in rep.only:
        q = rep.tier == 'quick'
        states = ('7 non-square asymmetric tables + value-stress matrices + %s matrices over {0,1,2} up to 2x2 (+2x3/3x2'
                  '%s) + %d random non-square tables up to 6x6, each x every layout (csr, csr-unsorted, csc) x stored zeros '
                  '(none/one/all); 8 ID-alphabet/metadata-kind combinations; 9 operation histories'
                  % ('every 3rd of the' if q else 'all', '' if q else ', every 29th 3x3', 20 if q else 300))
        rt.run_scope(rep, 'summaries', states + ' x {sum, nonzero_counts binary/not} x {whole, sample, observation}, '
                     'density, reduce x axis x {+, non-commutative}, compute_counts_per_sample_stats x binary, min/max x '
                     'axis where every vector has a non-zero entry', summary_cases(rep.tier), run_summary_case,
                     exhaustive=True)
        with vu.shared_tmp():
            rt.run_scope(rep, 'dataframes', states + ' x to_dataframe dense/sparse cell by cell; metadata_to_dataframe and '
                         'metadata_exporter._export_metadata (TSV read back with csv) x axis where metadata exist',
                         frames_cases(rep.tier), run_frames_case, exhaustive=True)
            rt.run_scope(rep, 'summarize-report', states + ' x _summarize_table in quantitative / qualitative / per-observation '
                         '(both) modes: every figure, metadata category list, every listed ID and its count parsed back '
                         '(LC_ALL=C)', report_cases(rep.tier), run_report_case, exhaustive=True)
            rt.run_scope(rep, 'commands', 'sampled states written as BIOM-JSON with the json module x commands table-ids '
                         '(both axes), head (default, 1x1, 2x1, 1x3, 7x7; stdout or -o), export-metadata, summarize-table '
                         '(4 modes; stdout or -o) through click.testing.CliRunner', cmd_cases(rep.tier), run_cmd_case,
                         chunk=8, exhaustive=False)
        rep.trust('pandas (DataFrame construction, to_csv)', 'locale (C locale forced)', 'click (CliRunner, echo)',
                  'commands scope: biom.load_table on a BIOM-JSON file written with the json module')
    common.finish_notes(rep, 'C19')


def replay(case):
    return rt.replay_case('C19', case)
