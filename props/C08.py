"""C08 - Filtering keeps exactly the selected IDs, intact and in order.

Deductive part: contracts/filter_kernels.py on biom/_filter.pyx (Tier P) and the
skeleton of Table.filter / head / remove_empty (Tier A)  -- see DESIGN.md 8/C08.
Bounded part (this file): the contract of Table.filter/head/remove_empty
evaluated on the real functions over all small Inv-states.
"""
import itertools

import numpy as np

from pyvc import rt

LEVEL = 'other'
AXES = ('sample', 'observation')


def _sel_pred_value(v, i, md):
    return v.sum() > 1


def expected_filter(v, axis, keep_mask):
    """the statement of C08 as a function on views"""
    keep = [k for k, b in enumerate(keep_mask) if b]
    if axis == 'sample':
        A = v.A[:, keep]
        samp = [v.samp[k] for k in keep]
        smd = None if v.samp_md is None else [v.samp_md[k] for k in keep]
        return v.obs, samp, A, v.obs_md, smd
    A = v.A[keep, :]
    obs = [v.obs[k] for k in keep]
    omd = None if v.obs_md is None else [v.obs_md[k] for k in keep]
    return obs, v.samp, A, omd, v.samp_md


def compare(out, exp, wcls, prefix=''):
    fails = []
    obs, samp, A, omd, smd = exp
    if out.obs != obs:
        fails.append(rt.fail(prefix + 'obs-ids', wcls, obs, out.obs))
    if out.samp != samp:
        fails.append(rt.fail(prefix + 'samp-ids', wcls, samp, out.samp))
    if out.A.shape != A.shape or not np.array_equal(out.A, A):
        fails.append(rt.fail(prefix + 'values', wcls, A.tolist(), out.A.tolist()))
    # metadata: an axis emptied of IDs may hold () or None
    for name, got, want in (('obs-md', out.obs_md, omd), ('samp-md', out.samp_md, smd)):
        if (got or None) != (want or None):
            fails.append(rt.fail(prefix + name, wcls, want, got))
    return fails


def run_filter_case(case):
    """contract of Table.filter on one (state, axis, selection, invert, inplace, form)"""
    t = rt.table_from_case(case)
    wcls = rt.state_class(case)
    fails = []
    pre = rt.view(t)
    pre_inv = rt.inv(t)
    if pre_inv:
        return {'fails': [rt.fail('pre/Inv', wcls, [], pre_inv)]}
    axis, invert, inplace, form = case['axis'], case['invert'], case['inplace'], case['form']
    ids = pre.ids(axis)
    n = len(ids)
    sel = case['sel']                      # list of positions selected
    calls = []
    if form in ('list', 'set', 'tuple', 'array', 'list_rev'):
        chosen = [ids[k] for k in sel]
        if form == 'list_rev':
            chosen = chosen[::-1]
        arg = {'list': list, 'list_rev': list, 'set': set, 'tuple': tuple,
               'array': (lambda c: np.array(c, dtype=object) if not c else np.array(c))}[form](chosen)
        mask = [k in sel for k in range(n)]
    elif form == 'pred_id':
        chosen = set(ids[k] for k in sel)

        def arg(v, i, md):
            calls.append((np.array(v, dtype=float, copy=True), str(i), rt.plain(dict(md)) if md is not None else None))
            return i in chosen
        mask = [k in sel for k in range(n)]
    elif form == 'pred_value':
        def arg(v, i, md):
            calls.append((np.array(v, dtype=float, copy=True), str(i), rt.plain(dict(md)) if md is not None else None))
            return v.sum() > 1
        mask = [bool(pre.vec(axis, k).sum() > 1) for k in range(n)]
    elif form == 'pred_md':
        def arg(v, i, md):
            calls.append((np.array(v, dtype=float, copy=True), str(i), rt.plain(dict(md)) if md is not None else None))
            return md is not None and md.get('grp') == 'g0'
        mdv = pre.md(axis)
        mask = [bool(mdv is not None and mdv[k].get('grp') == 'g0') for k in range(n)]
    else:
        raise ValueError(form)
    keep = [bool(b) != bool(invert) for b in mask]
    try:
        res = t.filter(arg, axis=axis, invert=invert, inplace=inplace)
    except Exception as e:
        return {'fails': [rt.fail('no-exception', wcls, 'filter returns', '%s: %s' % (type(e).__name__, e))]}
    out = rt.view(res)
    exp = expected_filter(pre, axis, keep)
    fails += compare(out, exp, wcls)
    bad = rt.inv(res)
    if bad:
        fails.append(rt.fail('post/Inv', wcls, [], bad))
    if inplace and res is not t:
        fails.append(rt.fail('inplace-returns-self', wcls))
    if not inplace:
        if res is t:
            fails.append(rt.fail('not-inplace-returns-fresh', wcls))
        d = rt.view(t).diff(pre)
        if d:
            fails.append(rt.fail('receiver-unchanged', wcls, [], d))
    if (out.type, out.table_id) != (pre.type, pre.table_id):
        fails.append(rt.fail('header-fields', wcls, (pre.type, pre.table_id), (out.type, out.table_id)))
    if form.startswith('pred'):
        # called once per ID, in order, with the true complete vector, ID, metadata
        mdv = pre.md(axis)
        want = [(pre.vec(axis, k).tolist(), ids[k], None if mdv is None else mdv[k]) for k in range(n)]
        got = [(c[0].tolist(), c[1], c[2]) for c in calls]
        if [w[1] for w in want] != [g[1] for g in got]:
            fails.append(rt.fail('predicate-calls/ids-once-in-order', wcls, [w[1] for w in want], [g[1] for g in got]))
        elif [w[0] for w in want] != [g[0] for g in got]:
            fails.append(rt.fail('predicate-calls/true-vector', wcls, [w[0] for w in want], [g[0] for g in got]))
        elif [w[2] for w in want] != [g[2] for g in got]:
            fails.append(rt.fail('predicate-calls/metadata', wcls, [w[2] for w in want], [g[2] for g in got]))
    nontrivial = any(keep) and not all(keep)
    return {'fails': fails, 'nontrivial': nontrivial}


def run_unknown_case(case):
    """naming an unknown ID is an error that leaves the table unchanged"""
    t = rt.table_from_case(case)
    wcls = rt.state_class(case)
    pre = rt.view(t)
    ids = pre.ids(case['axis'])
    arg = [ids[k] for k in case['sel']] + ['no-such-id']
    if case['form'] == 'unknown_first':
        arg = arg[::-1]
    fails = []
    try:
        t.filter(arg, axis=case['axis'], invert=case['invert'], inplace=case['inplace'])
        fails.append(rt.fail('unknown-id/is-an-error', wcls, 'an exception', 'returned normally'))
    except Exception:
        pass
    d = rt.view(t).diff(pre)
    if d or rt.inv(t):
        fails.append(rt.fail('unknown-id/table-unchanged', wcls, [], d + rt.inv(t)))
    return {'fails': fails}


def run_head_case(case):
    t = rt.table_from_case(case)
    wcls = rt.state_class(case)
    pre = rt.view(t)
    n, m = case['n'], case['m']
    fails = []
    try:
        res = t.head(n, m)
    except Exception as e:
        return {'fails': [rt.fail('head/no-exception', wcls, 'returns', repr(e))]}
    out = rt.view(res)
    exp = (pre.obs[:n], pre.samp[:m], pre.A[:n, :m],
           None if pre.obs_md is None else pre.obs_md[:n], None if pre.samp_md is None else pre.samp_md[:m])
    fails += compare(out, exp, wcls, 'head/')
    if rt.inv(res):
        fails.append(rt.fail('head/post/Inv', wcls, [], rt.inv(res)))
    d = rt.view(t).diff(pre)
    if d or res is t:
        fails.append(rt.fail('head/receiver-unchanged', wcls, [], d))
    return {'fails': fails, 'nontrivial': n < len(pre.obs) or m < len(pre.samp)}


def run_remove_empty_case(case):
    t = rt.table_from_case(case)
    wcls = rt.state_class(case)
    pre = rt.view(t)
    axis, inplace = case['axis'], case['inplace']
    fails = []
    try:
        res = t.remove_empty(axis=axis, inplace=inplace)
    except Exception as e:
        return {'fails': [rt.fail('remove_empty/no-exception', wcls, 'returns', repr(e))]}
    A = pre.A
    keep_s = [True] * A.shape[1]
    keep_o = [True] * A.shape[0]
    if axis in ('sample', 'whole'):
        keep_s = [bool(np.any(A[:, j] != 0)) for j in range(A.shape[1])]
    A2 = A[:, keep_s]
    if axis in ('observation', 'whole'):
        keep_o = [bool(np.any(A2[i, :] != 0)) for i in range(A.shape[0])]
    exp = ([x for x, b in zip(pre.obs, keep_o) if b], [x for x, b in zip(pre.samp, keep_s) if b],
           A[np.ix_([i for i, b in enumerate(keep_o) if b], [j for j, b in enumerate(keep_s) if b])]
           if A.size else A,
           None if pre.obs_md is None else [x for x, b in zip(pre.obs_md, keep_o) if b],
           None if pre.samp_md is None else [x for x, b in zip(pre.samp_md, keep_s) if b])
    out = rt.view(res)
    fails += compare(out, exp, wcls, 'remove_empty/')
    if rt.inv(res):
        fails.append(rt.fail('remove_empty/post/Inv', wcls, [], rt.inv(res)))
    if inplace and res is not t:
        fails.append(rt.fail('remove_empty/inplace-returns-self', wcls))
    if not inplace and (res is t or rt.view(t).diff(pre)):
        fails.append(rt.fail('remove_empty/receiver-unchanged', wcls, [], rt.view(t).diff(pre)))
    return {'fails': fails, 'nontrivial': not (all(keep_s) and all(keep_o))}


SCOPES = {'filter': run_filter_case, 'filter-unknown-id': run_unknown_case,
          'head': run_head_case, 'remove_empty': run_remove_empty_case}


def _states(tier):
    """state descriptors: every matrix over {0,1,2} up to the tier's size in
    every layout; plus value-stress matrices and metadata/ID variants"""
    if tier == 'quick':
        shapes = [(1, 1), (1, 2), (2, 1), (2, 2)]
        extra_shapes = [(2, 3), (3, 2)]
    else:
        shapes = [(r, c) for r in (1, 2, 3) for c in (1, 2, 3)]
        extra_shapes = []
    for dm in rt.matrices(0, 0, shapes=shapes):
        for lay in rt.LAYOUTS:
            for z in rt.ZEROS:
                if z != 'nz' and not np.any(dm == 0):
                    continue
                yield {'A': dm.tolist(), 'layout': lay, 'zeros': z}
    # larger shapes in quick: sampled deterministically (every 7th matrix)
    for k, dm in enumerate(rt.matrices(0, 0, shapes=extra_shapes)):
        if k % 7:
            continue
        for lay in rt.LAYOUTS:
            yield {'A': dm.tolist(), 'layout': lay, 'zeros': 'z1' if np.any(dm == 0) and k % 2 else 'nz'}
    for dm in rt.stress_matrices():
        for lay in rt.LAYOUTS:
            yield {'A': dm.tolist(), 'layout': lay, 'zeros': 'nz'}


def _md_states():
    base = [np.array([[1., 0., 2.], [0., 3., 0.], [4., 5., 0.]]), np.array([[0., 2.], [1., 1.], [0., 0.]])]
    for dm in base:
        for lay in rt.LAYOUTS:
            for ids in ('plain', 'punct', 'nonascii', 'long'):
                for md in ('text', 'tax'):
                    yield {'A': dm.tolist(), 'layout': lay, 'zeros': 'z1', 'ids': ids, 'obs_md': md, 'samp_md': 'text'}
                # metadata on exactly one axis
                yield {'A': dm.tolist(), 'layout': lay, 'zeros': 'z1', 'ids': ids, 'obs_md': 'text', 'samp_md': 'none'}
                yield {'A': dm.tolist(), 'layout': lay, 'zeros': 'z1', 'ids': ids, 'obs_md': 'none', 'samp_md': 'tax'}


def filter_cases(tier):
    for st in _states(tier):
        A = np.array(st['A'])
        for axis in AXES:
            n = A.shape[1] if axis == 'sample' else A.shape[0]
            for sel in rt.subsets(range(n)):
                for invert in (False, True):
                    for inplace in (True, False):
                        forms = ['list', 'pred_id']
                        if len(sel) == n:
                            forms.append('pred_value')
                        for form in forms:
                            yield dict(st, axis=axis, sel=sel, invert=invert, inplace=inplace, form=form)
    for st in _md_states():
        A = np.array(st['A'])
        for axis in AXES:
            n = A.shape[1] if axis == 'sample' else A.shape[0]
            for sel in rt.subsets(range(n)):
                for form in ('list_rev', 'set', 'tuple', 'array', 'pred_md', 'pred_id', 'pred_value'):
                    yield dict(st, axis=axis, sel=sel, invert=bool(len(sel) % 2), inplace=bool(n % 2), form=form)


def unknown_cases(tier):
    for st in itertools.islice(_states(tier), 0, None, 5 if tier == 'quick' else 1):
        A = np.array(st['A'])
        for axis in AXES:
            n = A.shape[1] if axis == 'sample' else A.shape[0]
            for sel in ([], list(range(n))):
                for invert in (False, True):
                    for inplace in (True, False):
                        for form in ('unknown_last', 'unknown_first'):
                            yield dict(st, axis=axis, sel=sel, invert=invert, inplace=inplace, form=form)


def head_cases(tier):
    for st in itertools.islice(_states(tier), 0, None, 3 if tier == 'quick' else 1):
        A = np.array(st['A'])
        for n in range(1, A.shape[0] + 2):
            for m in range(1, A.shape[1] + 2):
                yield dict(st, n=n, m=m)
    for st in _md_states():
        yield dict(st, n=2, m=1)
        yield dict(st, n=1, m=2)


def remove_empty_cases(tier):
    for st in _states(tier):
        for axis in ('sample', 'observation', 'whole'):
            for inplace in (True, False):
                yield dict(st, axis=axis, inplace=inplace)
    for st in _md_states():
        yield dict(st, axis='whole', inplace=True)


def run(rep):
    from props import common
    if 'deductive' in rep.only:
        common.run_deductive(rep, 'C08')
    if 'bounded' in rep.only:
        q = rep.tier == 'quick'
        bound = ('every matrix over {0,1,2} up to %s x every layout (csr, csr-unsorted, csc) x stored zeros '
                 '(none/one/all) x axis x every subset x invert x inplace x {id list, id predicate}; '
                 'plus value-stress and metadata/ID-alphabet states x {reversed list,set,tuple,array,'
                 'metadata predicate}' % ('2x2 (+ every 7th of 2x3, 3x2)' if q else '3x3'))
        rt.run_scope(rep, 'filter', bound, filter_cases(rep.tier), run_filter_case, exhaustive=True)
        rt.run_scope(rep, 'filter-unknown-id', 'same states x axis x {none, all} known ids + one unknown id first/last',
                     unknown_cases(rep.tier), run_unknown_case, exhaustive=True)
        rt.run_scope(rep, 'head', 'same states x n in 1..rows+1 x m in 1..cols+1', head_cases(rep.tier),
                     run_head_case, exhaustive=True)
        rt.run_scope(rep, 'remove_empty', 'same states x axis in sample/observation/whole x inplace',
                     remove_empty_cases(rep.tier), run_remove_empty_case, exhaustive=True)
    common.finish_notes(rep, 'C08')


def replay(case):
    return rt.replay_case('C08', case)
