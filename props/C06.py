"""C06 - Reordering, transposing, copying and renaming keep every value with its IDs.

Bounded part (Tier B).  Contract evaluated on the real library (oracle: dense
numpy / python lists computed from the raw view only):

* ``sort_order(order, axis)``: result IDs on ``axis`` are exactly ``order``;
  ``A'(i,k) = A(i, idx(order[k]))``; each ID keeps its metadata; the other axis
  (IDs, metadata) is untouched; then the inverse permutation restores IDs,
  order, values and metadata.  Orders that are not permutations (unknown ID,
  duplicate) must not yield a table that gained, lost or duplicated an ID
  silently: they must be rejected and leave the receiver unchanged.
* ``sort(sort_f, axis)``: as ``sort_order`` with ``order = sort_f(ids)`` for a
  user ``sort_f``; for the default natural sort the result is a permutation
  (and equals the natural order for IDs of the form <letters><digits>).
* ``align_to(other, axis)``: aligned axes get exactly ``other``'s order,
  everything else as in ``sort_order``; ``res.align_to(self)`` restores.
* ``transpose()``: ``A'(j,i) = A(i,j)``, IDs and metadata swapped; twice = identity.
* ``copy()``: equal IDs, order, values, metadata.
* ``update_ids(id_map, axis, strict, inplace)``: ``ids' = map(id_map, ids)``
  (partial with strict=False), nothing else changes; lengthening / shortening
  never truncates; the inverse renaming restores; a non-injective renaming is
  rejected and leaves the receiver unchanged.
"""
import itertools

import numpy as np

from pyvc import rt
from props import ops_util as ou

LEVEL = 'other'
AXES = ou.AXES
FIELDS = ('obs', 'samp', 'A', 'obs_md', 'samp_md')


def _cls(case, t, a, clause_fn):
    """witness class = essential representation features of the receiver + operation"""
    def fails(tabs):
        try:
            return bool(clause_fn(tabs[0]))
        except Exception:
            return False
    return ou.reduce_class([t], fails, cache_key=(a, case.get('scope_tag', '')))


class _Case:
    """bookkeeping shared by the run_case functions"""
    def __init__(self, case, op):
        self.case, self.op = case, op
        self.fails = []
        self.n = 0

    def check(self, clause, pre, scenario):
        """scenario(table clone) -> list of (clause, expected, observed); `pre` is the raw receiver state.
        Records every failing clause once, with a reduced witness class."""
        self.n += 1
        probs = scenario(ou.clone(pre))
        for cl, exp, obs in probs:
            def again(t, cl=cl):
                return any(p[0] == cl for p in scenario(t))
            cls = _cls(self.case, pre, (self.op, cl), again)
            self.fails.append(rt.fail(cl, cls, exp, obs))
        return probs

    def result(self, nontrivial=True):
        return {'fails': self.fails, 'n': max(self.n, 1), 'nontrivial': nontrivial}


def _diff(v, exp, prefix):
    out = []
    for f in ou.content_diff(v, exp):
        name = {'obs': 'obs-ids', 'samp': 'samp-ids', 'A': 'values', 'obs_md': 'obs-md', 'samp_md': 'samp-md'}[f]
        g, w = getattr(v, f), getattr(exp, f)
        out.append((prefix + name, w.tolist() if f == 'A' else w, g.tolist() if f == 'A' else g))
    return out


def _inv(t, prefix):
    bad = rt.inv(t)
    return [(prefix + 'Inv', [], bad)] if bad else []


def _unchanged(t, before, prefix):
    d = ou.content_diff(rt.view(t), before)
    return [(prefix + 'receiver-unchanged', [], d)] if d else []


def _prior(t, case):
    """apply the recorded prior history (list of symbolic operations) to the freshly built state"""
    for a in case.get('prior', ()):
        o = ou.apply(t, a)
        if o.exc is not None or o.result is None:
            return None
        t = o.result
    return t


def _state(case):
    t = _prior(rt.table_from_case(case), case)
    if t is None:
        return None
    v = rt.view(t)
    if 0 in v.A.shape or not ou.finite(v) or rt.inv(t):
        return None              # the prior history left the property's domain (non-empty, finite tables)
    return t


# --------------------------------------------------------------------------
# sort_order
# --------------------------------------------------------------------------

def _sort_order_scenario(axis, perm, form):
    def scenario(t):
        v = rt.view(t)
        c0 = ou.Content.of(v)
        ids = v.ids(axis)
        order = [ids[k] for k in perm]
        arg = np.array(order) if form == 'array' else (tuple(order) if form == 'tuple' else list(order))
        try:
            res = t.sort_order(arg, axis=axis)
        except Exception as e:
            return [('sort_order/no-exception', 'returns', ou.describe_exc(e))]
        out = _diff(rt.view(res), c0.take(axis, perm), 'sort_order/')
        out += _inv(res, 'sort_order/')
        out += _unchanged(t, c0, 'sort_order/')
        # inverse law: sorting the result back into the original order restores everything
        try:
            back = res.sort_order(list(ids), axis=axis)
            out += _diff(rt.view(back), c0, 'sort_order/inverse/')
        except Exception as e:
            out.append(('sort_order/inverse/no-exception', 'returns', ou.describe_exc(e)))
        return out
    return scenario


def run_sort_order_case(case):
    t = _state(case)
    if t is None:
        return {'fails': [], 'n': 0, 'nontrivial': False}
    k = _Case(case, 'sort_order')
    v = rt.view(t)
    axis = case['axis']
    n = len(v.ids(axis))
    perms = case.get('perms') or list(itertools.permutations(range(n)))
    for p in perms:
        k.check('sort_order', t, _sort_order_scenario(axis, list(p), case.get('form', 'list')))
    return k.result(nontrivial=n > 1)


def run_sort_order_reject_case(case):
    """orders that are not permutations of the axis: unknown ID / duplicate"""
    t = _state(case)
    k = _Case(case, 'sort_order-reject')
    axis, kind = case['axis'], case['kind']

    def scenario(t):
        v = rt.view(t)
        c0 = ou.Content.of(v)
        ids = v.ids(axis)
        if kind == 'unknown':
            order = list(ids[:-1]) + ['no-such-id']
        else:
            order = list(ids[:-1]) + [ids[0]] if len(ids) > 1 else [ids[0], ids[0]]
        out = []
        try:
            res = t.sort_order(order, axis=axis)
            rv = rt.view(res)
            if sorted(rv.ids(axis)) != sorted(ids):
                out.append(('sort_order/%s-id-rejected' % kind, 'an exception (IDs must not be gained, lost or duplicated)',
                            {'order': order, 'result ids': rv.ids(axis)}))
        except Exception:
            pass
        out += _unchanged(t, c0, 'sort_order/%s-id/' % kind)
        return out
    k.check('reject', t, scenario)
    return k.result()


# --------------------------------------------------------------------------
# sort
# --------------------------------------------------------------------------

def _nat_key(s):
    import re
    return [(0, int(x)) if x.isdigit() else (1, x) for x in re.split(r'(\d+)', s) if x != '']


def _rev(ids):
    return sorted([str(x) for x in ids], reverse=True)


def _len_then_alpha(ids):
    return sorted([str(x) for x in ids], key=lambda s: (len(s), s))


SORT_FS = {'rev': _rev, 'len': _len_then_alpha}


def run_sort_case(case):
    t = _state(case)
    if t is None:
        return {'fails': [], 'n': 0, 'nontrivial': False}
    k = _Case(case, 'sort')
    axis, f = case['axis'], case['f']

    def scenario(t):
        v = rt.view(t)
        c0 = ou.Content.of(v)
        ids = v.ids(axis)
        try:
            res = t.sort(axis=axis) if f == 'nat' else t.sort(sort_f=SORT_FS[f], axis=axis)
        except Exception as e:
            return [('sort/no-exception', 'returns', ou.describe_exc(e))]
        rv = rt.view(res)
        got = rv.ids(axis)
        out = []
        if sorted(got) != sorted(ids):
            return [('sort/permutation', sorted(ids), got)]
        if f != 'nat':
            want = SORT_FS[f](list(ids))
            if got != want:
                out.append(('sort/requested-order', want, got))
        elif all(x[:1].isalpha() and x[1:].isdigit() for x in ids):
            want = sorted(ids, key=_nat_key)
            if got != want:
                out.append(('sort/natural-order', want, got))
        pos = {x: j for j, x in enumerate(ids)}
        out += _diff(rv, c0.take(axis, [pos[x] for x in got]), 'sort/')
        out += _inv(res, 'sort/')
        out += _unchanged(t, c0, 'sort/')
        return out
    k.check('sort', t, scenario)
    return k.result()


# --------------------------------------------------------------------------
# transpose / copy
# --------------------------------------------------------------------------

def run_transpose_copy_case(case):
    t = _state(case)
    if t is None:
        return {'fails': [], 'n': 0, 'nontrivial': False}
    k = _Case(case, 'transpose')

    def tr(t):
        v = rt.view(t)
        c0 = ou.Content.of(v)
        try:
            res = t.transpose()
            out = _diff(rt.view(res), ou.Content(c0.samp, c0.obs, c0.A.T, c0.samp_md, c0.obs_md), 'transpose/')
            out += _inv(res, 'transpose/')
            out += _unchanged(t, c0, 'transpose/')
            back = res.transpose()
            out += _diff(rt.view(back), c0, 'transpose/twice/')
            out += _inv(back, 'transpose/twice/')
        except Exception as e:
            return [('transpose/no-exception', 'returns', ou.describe_exc(e))]
        return out
    k.check('transpose', t, tr)
    k.op = 'copy'

    def cp(t):
        v = rt.view(t)
        c0 = ou.Content.of(v)
        try:
            res = t.copy()
        except Exception as e:
            return [('copy/no-exception', 'returns', ou.describe_exc(e))]
        out = _diff(rt.view(res), c0, 'copy/')
        out += _inv(res, 'copy/')
        out += _unchanged(t, c0, 'copy/')
        if res is t:
            out.append(('copy/is-new-object', 'a new table', 'the receiver'))
        return out
    k.check('copy', t, cp)
    return k.result()


# --------------------------------------------------------------------------
# update_ids
# --------------------------------------------------------------------------

POOL = ['a', 'bb', 'a_much_longer_identifier_than_any_before', 'Ü-ñ', 'x y/z']


def _update_scenario(axis, mapping, strict, inplace, extra=None):
    """mapping: {position: new name}"""
    def scenario(t):
        v = rt.view(t)
        c0 = ou.Content.of(v)
        ids = v.ids(axis)
        id_map = {ids[int(p)]: new for p, new in mapping.items()}
        if extra:
            id_map.update(extra)
        new_ids = [id_map.get(x, x) for x in ids]
        injective = len(set(new_ids)) == len(new_ids)
        out = []
        try:
            res = t.update_ids(dict(id_map), axis=axis, strict=strict, inplace=inplace)
        except Exception as e:
            if injective:
                return [('update_ids/no-exception', 'returns', ou.describe_exc(e))]
            # rejected, as it must be; the receiver must be untouched
            out += _unchanged(t, c0, 'update_ids/rejected/')
            out += _inv(t, 'update_ids/rejected/')
            return out
        rv = rt.view(res)
        if not injective:
            return [('update_ids/non-injective-rejected', 'an exception (no ID may be duplicated)',
                     {'id_map': id_map, 'result ids': rv.ids(axis)})]
        out += _diff(rv, c0.with_axis(axis, ids=new_ids), 'update_ids/')
        out += _inv(res, 'update_ids/')
        if inplace:
            if res is not t:
                out.append(('update_ids/inplace-returns-self', 'the receiver', 'another object'))
        else:
            if res is t:
                out.append(('update_ids/not-inplace-returns-new', 'a new table', 'the receiver'))
            out += _unchanged(t, c0, 'update_ids/')
        # lookups follow the renaming
        for j, x in enumerate(new_ids):
            if not res.exists(x, axis=axis) or res.index(x, axis) != j:
                out.append(('update_ids/lookup-new-id', j, 'exists=%r' % res.exists(x, axis=axis)))
                break
        for x in ids:
            if x not in new_ids and res.exists(x, axis=axis):
                out.append(('update_ids/old-id-unknown', False, True))
                break
        # inverse renaming restores IDs, order, values, metadata
        inv_map = {new: old for old, new in zip(ids, new_ids)}
        try:
            back = res.update_ids(inv_map, axis=axis, strict=True, inplace=False)
            out += _diff(rt.view(back), c0, 'update_ids/inverse/')
        except Exception as e:
            out.append(('update_ids/inverse/no-exception', 'returns', ou.describe_exc(e)))
        return out
    return scenario


def run_update_ids_case(case):
    t = _state(case)
    if t is None:
        return {'fails': [], 'n': 0, 'nontrivial': False}
    k = _Case(case, 'update_ids')
    v = rt.view(t)
    axis = case['axis']
    ids = v.ids(axis)
    n = len(ids)
    names = POOL + list(ids)
    if case['mode'] == 'total':
        # every injective total renaming into the pool (+ the axis' own IDs: permutation renamings)
        for j, combo in enumerate(itertools.permutations(range(len(names)), n)):
            if j % case.get('stride', 1):
                continue
            mapping = {p: names[c] for p, c in enumerate(combo)}
            for inplace in (True, False):
                k.check('update_ids', t, _update_scenario(axis, mapping, True, inplace))
    elif case['mode'] == 'partial':
        # every non-empty proper subset of positions renamed into the pool, strict=False
        j = 0
        for r in range(1, n + 1):
            for sub in itertools.combinations(range(n), r):
                for combo in itertools.permutations(range(len(POOL)), r):
                    j += 1
                    if j % case.get('stride', 1):
                        continue
                    mapping = {p: POOL[c] for p, c in zip(sub, combo)}
                    for inplace in (True, False):
                        k.check('update_ids', t, _update_scenario(axis, mapping, False, inplace))
    elif case['mode'] == 'edge':
        extra = {'not-an-id-of-this-table': 'unused-replacement-that-is-very-long-indeed'}
        for inplace in (True, False):
            # superfluous keys in the map (strict and not)
            k.check('update_ids', t, _update_scenario(axis, {p: 'n%d' % p for p in range(n)}, True, inplace, extra))
            k.check('update_ids', t, _update_scenario(axis, {0: 'first'}, False, inplace, extra))
            if n >= 2:
                # non-injective renamings: onto another renamed ID, onto an ID that keeps its name
                k.check('update_ids', t, _update_scenario(axis, {p: 'same' for p in range(n)}, True, inplace))
                k.check('update_ids', t, _update_scenario(axis, {0: ids[1]}, False, inplace))
                # renaming onto a name that is freed in the same call is injective
                k.check('update_ids', t, _update_scenario(axis, {0: ids[1], 1: 'freed'}, False, inplace))
    return k.result()


# --------------------------------------------------------------------------
# align_to
# --------------------------------------------------------------------------

def run_align_case(case):
    t = _state(case)
    if t is None:
        return {'fails': [], 'n': 0, 'nontrivial': False}
    k = _Case(case, 'align_to')
    v = rt.view(t)
    m, n = len(v.obs), len(v.samp)
    mode = case['axis']
    po_all = list(itertools.permutations(range(m))) if mode in ('observation', 'both', 'detect') else [tuple(range(m))]
    ps_all = list(itertools.permutations(range(n))) if mode in ('sample', 'both', 'detect') else [tuple(range(n))]
    for po in po_all:
        for ps in ps_all:
            for variant in case.get('variants', ('equal',)):
                k.check('align_to', t, _align_scenario(mode, list(po), list(ps), variant, case.get('other_layout', 'csr')))
    return k.result()


def _align_scenario(mode, po, ps, variant, other_layout):
    def scenario(t):
        v = rt.view(t)
        c0 = ou.Content.of(v)
        m, n = len(v.obs), len(v.samp)
        obs = [v.obs[k] for k in po]
        samp = [v.samp[k] for k in ps]
        # 'detect' with only one alignable axis: the other axis of `other` carries foreign IDs
        if variant == 'obs-foreign':
            obs = ['foreign-%d' % k for k in range(m)]
        elif variant == 'samp-foreign':
            samp = ['foreign-%d' % k for k in range(n)]
        B = np.arange(1, m * n + 1, dtype=float).reshape(m, n) * 3.0
        other = rt.make_table(B, other_layout, 'nz', ids={'observation': obs, 'sample': samp},
                              obs_md=ou._md_like(v.obs_md, m, 'oo'), samp_md=ou._md_like(v.samp_md, n, 'os'))
        oc = ou.Content.of(rt.view(other))
        exp = c0
        aligned = []
        if mode in ('observation', 'both') or (mode == 'detect' and variant != 'obs-foreign'):
            aligned.append('observation')
        if mode in ('sample', 'both') or (mode == 'detect' and variant != 'samp-foreign'):
            aligned.append('sample')
        for ax in aligned:
            pos = {x: j for j, x in enumerate(exp.ids(ax))}
            exp = exp.take(ax, [pos[x] for x in oc.ids(ax)])
        try:
            res = t.align_to(other, axis=mode)
        except Exception as e:
            return [('align_to/no-exception', 'returns', ou.describe_exc(e))]
        out = _diff(rt.view(res), exp, 'align_to/')
        out += _inv(res, 'align_to/')
        out += _unchanged(t, c0, 'align_to/')
        d = ou.content_diff(rt.view(other), oc)
        if d:
            out.append(('align_to/other-unchanged', [], d))
        if variant == 'equal' or mode != 'detect':
            try:
                back = res.align_to(t, axis=mode)
                out += _diff(rt.view(back), c0, 'align_to/inverse/')
            except Exception as e:
                out.append(('align_to/inverse/no-exception', 'returns', ou.describe_exc(e)))
        return out
    return scenario


SCOPES = {'sort_order': run_sort_order_case, 'sort_order-reject': run_sort_order_reject_case, 'sort': run_sort_case,
          'transpose-copy': run_transpose_copy_case, 'update_ids': run_update_ids_case, 'align_to': run_align_case}


# --------------------------------------------------------------------------
# states
# --------------------------------------------------------------------------

def _distinct(m, n, zero_every=3):
    """asymmetric matrix with pairwise distinct non-zero entries and some zeros"""
    A = np.arange(1, m * n + 1, dtype=float).reshape(m, n) + 10.0
    A.ravel()[::zero_every] = 0.0
    return A


def _variants(dm, zeros=rt.ZEROS):
    for lay in rt.LAYOUTS:
        for z in zeros:
            if z != 'nz' and not np.any(dm == 0):
                continue
            yield lay, z


PRIORS = [
    [],
    [{'op': 'sort_order', 'axis': 'sample', 'perm': 'rev'}],                       # leaves unsorted CSR indices
    [{'op': 'transpose'}],
    [{'op': 'filter', 'axis': 'sample', 'sel': [0], 'form': 'list', 'invert': True, 'inplace': True}],   # CSC, in place
    [{'op': 'filter', 'axis': 'observation', 'sel': [0], 'form': 'pred_id', 'invert': True, 'inplace': True}],
    [{'op': 'subsample', 'axis': 'sample', 'n': 11, 'by_id': False, 'with_replacement': False}],         # stored zeros
    [{'op': 'update_ids', 'axis': 'sample', 'kind': 'long', 'inplace': True}],
    [{'op': 'transform', 'axis': 'observation', 'f': 'zero_big', 'inplace': True}],
    [{'op': 'concat', 'axis': 'sample', 'other': 'extra_inv'}],
    [{'op': 'merge', 'other': 'overlap', 'sample': 'union', 'observation': 'union'}],
    [{'op': 'add_metadata', 'axis': 'sample', 'kind': 'one'}, {'op': 'sort_order', 'axis': 'observation', 'perm': 'rot'}],
]


def base_states(tier, shapes, md=True):
    """distinct-valued matrices of the given shapes x layouts x stored zeros x metadata kinds x ID alphabets"""
    # metadata on both axes, on neither, and on exactly one axis (a shortcut that looks at one axis only shows there)
    mds = [('none', 'none'), ('text', 'tax'), ('num', 'slash'), ('text', 'none'), ('none', 'tax')] if md else [('none', 'none')]
    for (m, n) in shapes:
        dm = _distinct(m, n)
        j = 0
        for lay, z in _variants(dm):
            for omd, smd in mds:
                ids = list(rt.ID_ALPHABETS)[j % len(rt.ID_ALPHABETS)] if (omd != 'none') else 'plain'
                if ids in ('punct', 'nonascii') and max(m, n) > 6:
                    ids = 'long'
                j += 1
                yield {'A': dm.tolist(), 'layout': lay, 'zeros': z, 'obs_md': omd, 'samp_md': smd, 'ids': ids}


def u2_states(tier):
    shapes = [(1, 1), (1, 2), (2, 1), (2, 2)] if tier == 'quick' else [(1, 1), (1, 2), (2, 1), (2, 2), (2, 3), (3, 2)]
    for k, dm in enumerate(rt.matrices(0, 0, shapes=shapes)):
        if tier != 'quick' and dm.size == 6 and k % 5:
            continue
        for lay, z in _variants(dm):
            yield {'A': dm.tolist(), 'layout': lay, 'zeros': z}


def prior_states(tier):
    for dm in (_distinct(3, 3), _distinct(2, 4, 4)):
        for lay in rt.LAYOUTS:
            for pr in PRIORS[1:]:
                yield {'A': dm.tolist(), 'layout': lay, 'zeros': 'z1', 'obs_md': 'text', 'samp_md': 'text', 'prior': pr}
    if tier != 'quick':
        # every operation of the reduced shared alphabet as the prior step
        for dm in (_distinct(3, 3), _distinct(2, 3, 2)):
            for lay in rt.LAYOUTS:
                st = {'A': dm.tolist(), 'layout': lay, 'zeros': 'zall', 'obs_md': 'tax', 'samp_md': 'text'}
                for a in ou.alphabet(rt.view(rt.table_from_case(st)), 'reduced'):
                    yield dict(st, prior=[a])


def sort_order_cases(tier, seed=0):
    q = tier == 'quick'
    shapes = [(2, 4), (4, 2), (3, 3)] + ([] if q else [(4, 4), (1, 4), (4, 1)])
    for st in base_states(tier, shapes):
        for axis in AXES:
            yield dict(st, axis=axis, form='list')
    for st in u2_states(tier):
        for axis in AXES:
            yield dict(st, axis=axis, form='array')
    for st in prior_states(tier):
        for axis in AXES:
            yield dict(st, axis=axis, form='tuple' if st['layout'] == 'csc' else 'list')
    # beyond 4: seeded random permutations of longer axes
    import random
    rng = random.Random('C06-%s-%s' % (tier, seed))
    for (m, n) in ((2, 6), (7, 3)) if q else ((2, 6), (7, 3), (8, 8), (5, 9)):
        for st in base_states(tier, [(m, n)], md=False):
            for axis in AXES:
                k = n if axis == 'sample' else m
                perms = [rng.sample(range(k), k) for _ in range(4 if q else 12)]
                yield dict(st, axis=axis, perms=perms, form='list')


def sort_order_reject_cases(tier):
    for st in base_states(tier, [(2, 3), (3, 1)]):
        for axis in AXES:
            for kind in ('unknown', 'duplicate'):
                yield dict(st, axis=axis, kind=kind)


def _sortable_states(tier):
    # IDs whose natural, lexicographic and length orders all differ
    idsets = [{'observation': ['O10', 'O9', 'O1', 'O100'], 'sample': ['S2', 'S11', 'S1']},
              {'observation': ['b', 'a10', 'a9'], 'sample': ['x1y10', 'x1y2', 'x10y1', 'w']},
              # already ascending as plain strings, not in natural order (a "nothing to do" shortcut shows here)
              {'observation': ['O1', 'O10', 'O2'], 'sample': ['S1', 'S10', 'S2', 'S3']}]
    for ids in idsets:
        dm = _distinct(len(ids['observation']), len(ids['sample']))
        for lay, z in _variants(dm):
            for omd, smd in (('none', 'none'), ('text', 'tax')):
                yield {'A': dm.tolist(), 'layout': lay, 'zeros': z, 'obs_md': omd, 'samp_md': smd, 'ids': ids}
    for st in base_states(tier, [(3, 3), (2, 4)]):
        yield st
    for st in prior_states(tier):
        yield st


def sort_cases(tier):
    for st in _sortable_states(tier):
        for axis in AXES:
            for f in ('nat', 'rev', 'len'):
                yield dict(st, axis=axis, f=f)


def transpose_copy_cases(tier):
    q = tier == 'quick'
    for st in base_states(tier, [(2, 3), (3, 2), (1, 4), (4, 1), (3, 3)] + ([] if q else [(4, 4), (2, 7)])):
        yield st
    for st in u2_states(tier):
        yield st
    for st in prior_states(tier):
        yield st
    for dm in rt.stress_matrices():
        for lay in rt.LAYOUTS:
            yield {'A': dm.tolist(), 'layout': lay, 'zeros': 'z1' if np.any(dm == 0) else 'nz', 'type': 'OTU table'}
    # histories that leave metadata whose remaining entries are all empty: metadata added for one id only, then that id
    # filtered away in place (the constructor would call such metadata absent; a copy must still equal its original)
    for axis in ('sample', 'observation'):
        for lay in rt.LAYOUTS:
            yield {'A': _distinct(3, 3).tolist(), 'layout': lay, 'zeros': 'nz', 'obs_md': 'none', 'samp_md': 'none',
                   'prior': [{'op': 'add_metadata', 'axis': axis, 'kind': 'one'},
                             {'op': 'filter', 'axis': axis, 'sel': [0], 'form': 'list', 'invert': True, 'inplace': True}]}


def update_ids_cases(tier):
    q = tier == 'quick'
    for st in base_states(tier, [(2, 3), (3, 2)] if q else [(2, 3), (3, 2), (3, 3), (1, 2)]):
        for axis in AXES:
            n = np.array(st['A']).shape[1 if axis == 'sample' else 0]
            # n=2: 7*6 = 42 total renamings; n=3: 8*7*6 = 336 (quick: every 6th)
            yield dict(st, axis=axis, mode='total', stride=(6 if (q and n >= 3) else 1))
            yield dict(st, axis=axis, mode='partial', stride=(4 if q else 1))
            yield dict(st, axis=axis, mode='edge')
    for st in prior_states(tier):
        for axis in AXES:
            yield dict(st, axis=axis, mode='edge')
            yield dict(st, axis=axis, mode='partial', stride=8 if q else 3)


def align_cases(tier):
    q = tier == 'quick'
    shapes = [(2, 3), (3, 2), (3, 3)] + ([] if q else [(4, 2), (2, 4), (4, 3)])
    for st in base_states(tier, shapes):
        if q and len(st['A']) * len(st['A'][0]) >= 9 and st['zeros'] != 'z1':
            continue
        for mode in ('sample', 'observation', 'both', 'detect'):
            variants = ('equal', 'obs-foreign', 'samp-foreign') if mode == 'detect' else ('equal',)
            yield dict(st, axis=mode, variants=variants, other_layout=st['layout'])
    for st in prior_states(tier):
        if len(st['A']) * len(st['A'][0]) > 9:
            continue
        for mode in ('both', 'detect'):
            yield dict(st, axis=mode, variants=('equal',), other_layout='csr_unsorted')
    if not q:
        for st in base_states(tier, [(4, 4)], md=False):
            if st['zeros'] == 'z1':
                yield dict(st, axis='both', variants=('equal',), other_layout=st['layout'])


def run(rep):
    from props import common
    if 'deductive' in rep.only:
        common.run_deductive(rep, 'C06')
    if 'bounded' in rep.only:
        rt.install_extracted_kernels()
        t = rep.tier
        st = ('distinct-valued matrices x layouts (csr, csr-unsorted, csc) x stored zeros (none/one/all) x metadata '
              '(none, text+taxonomy, numeric+slash) x ID alphabets; U(2) matrices over {0,1,2}; states after a prior '
              'operation (sort_order, transpose, in-place filter, subsample, update_ids, transform, concat, merge, '
              'add_metadata%s)' % ('' if t == 'quick' else '; thorough: every operation of the reduced shared alphabet'))
        rt.run_scope(rep, 'sort_order', 'every permutation of every axis of length <= 4 (random permutations, VERIF_SEED, '
                     'of axes of length 6..9), order given as list/array/tuple, inverse law; ' + st,
                     sort_order_cases(t, rep.seed), run_sort_order_case, chunk=8, exhaustive=True)
        rt.run_scope(rep, 'sort_order-reject', 'orders with an unknown or a duplicated ID on 2x3 / 3x1 states',
                     sort_order_reject_cases(t), run_sort_order_reject_case, exhaustive=True)
        rt.run_scope(rep, 'sort', 'default natural sort, reverse and by-length user sort functions x axis; IDs whose '
                     'natural / lexicographic / length orders differ; ' + st, sort_cases(t), run_sort_case,
                     chunk=16, exhaustive=True)
        rt.run_scope(rep, 'transpose-copy', 'transpose, transpose twice, copy; ' + st + '; value-stress matrices',
                     transpose_copy_cases(t), run_transpose_copy_case, chunk=16, exhaustive=True)
        rt.run_scope(rep, 'update_ids', 'every injective total renaming of an axis of length <= 3 into a pool of 5 '
                     'short/long/non-ASCII/punctuated names + the axis\' own IDs (%s), every partial renaming with '
                     'strict=False, superfluous keys, non-injective renamings; x inplace; inverse law; %s'
                     % ('quick: every 6th of the 336 for length 3' if t == 'quick' else 'all 336 for length 3', st),
                     update_ids_cases(t), run_update_ids_case, chunk=2, exhaustive=(t != 'quick'))
        rt.run_scope(rep, 'align_to', 'self x other with equal ID sets in every order (all permutations of both axes '
                     'up to 3x3%s) x axis in sample/observation/both/detect (+ detect with one foreign axis); inverse '
                     'law; %s' % ('' if t == 'quick' else ', 4x3, and 4x4 for axis=both', st), align_cases(t), run_align_case, chunk=4,
                     exhaustive=True)
        rep.explanation = 'Bounded stand-in for C06 (permute / relabel only, inverse laws) on the real library.'
    common.finish_notes(rep, 'C06')


def replay(case):
    return rt.replay_case('C06', case)
