"""Shared helpers of the text-format contract modules (C02 JSON, C03 TSV,
C15 validator): JSON-able case descriptors -> tables built through the public
API, ID alphabets / metadata kinds / header strings of the properties'
quantifiers, operation histories, witness classes and witness minimisation.

Nothing here observes a table through public accessors; oracles are computed
from rt.view(...) (raw fields), the standard library and raw h5py.
"""
import contextlib
import json
import shutil
import tempfile

import numpy as np

from pyvc import rt

# --------------------------------------------------------------------------
# ID alphabets
# --------------------------------------------------------------------------

# arbitrary Unicode incl. quotes, backslashes, control characters (C02 domain)
_HOSTILE = ['q"uo"te', 'back\\sl\\ash', 'new\nline', 'tab\there', 'ctl\x01\x1f\x7f', '\u2028sep\u2029',
            '\U0001F600emoji', '}{[],:', '\\"', '\\u0041', "it's", '</script>']

# any text without tab/newline, not starting with '#', no outer blanks (C03 domain)
_TSVODD = ['a"b', '"quoted"', 'core 12"', 'back\\slash', 'in#side', 'x  y', '1e5', '-3', 'nan', "it's", 'inf', '0', 'OTU ID',
           'a,b;c|d', "'single'"]     # (quotes at the ends: a reader that "tolerates spreadsheet quoting" would eat them)


def make_ids(kind, axis, n):
    if kind in rt.ID_ALPHABETS:
        return rt.make_ids(kind, axis, n)
    if kind == 'hostile':
        off = 0 if axis == 'observation' else 5
        return [_HOSTILE[(k + off) % len(_HOSTILE)] + ('' if k < len(_HOSTILE) else str(k)) for k in range(n)]
    if kind == 'tsvodd':
        off = 0 if axis == 'observation' else 4
        return [_TSVODD[(k + off) % len(_TSVODD)] + ('' if k < len(_TSVODD) else '_%d' % k) for k in range(n)]
    raise ValueError(kind)


# --------------------------------------------------------------------------
# metadata kinds
# --------------------------------------------------------------------------

def make_md(kind, axis, n):
    if kind in ('none', 'text', 'num', 'tax', 'slash'):
        return rt.make_md(kind, axis, n)
    if kind == 'hostile':
        return [{'k"ey\\': 'v"al\\ue\n\t\x01 %d' % k, 'uni\u00e9': '\u65e5\u672c\U0001F600\u2028', 'plain': 'x%d' % k,
                 'empty': '', 'esc': '\\n \\" \\u00e9'} for k in range(n)]
    if kind == 'nested':
        return [{'l': [1, [2.5, None, ['x', []]], 'a'], 'n': None, 'i': -7 - k, 'f': 1e-9 * (k + 1),
                 'big': 2 ** 53 + 1, 'b': bool(k % 2), 'o': {'in': [1, {'deep': None}], 'k': 'v'},
                 'lol': [['a', 'b'], ['c']], 'third': 1.0 / 3.0} for k in range(n)]
    if kind == 'npscalar':
        return [{'i64': np.int64(k - 1), 'i32': np.int32(7 * k), 'u8': np.uint8(200), 'f64': np.float64(0.1) * (k + 1),
                 'f32': np.float32(0.5 + k), 'str': np.str_('s%d' % k)} for k in range(n)]
    if kind == 'npbool':
        return [{'flag': np.bool_(k % 2 == 0), 'name': 'n%d' % k} for k in range(n)]
    raise ValueError(kind)


# --------------------------------------------------------------------------
# header strings: (table_id, type, generated_by)
# --------------------------------------------------------------------------

HEADERS = {
    'plain': ('tid-1', 'OTU table', 'verif gen 1.0'),
    'none': (None, None, 'g'),
    'nonascii': ('id\u00e9\u65e5', 'typ\u00e9 \u03b1', 'gen \U0001F600 \u00fc'),
    'quote': ('id "q"', 'ty"pe', 'gen "by"'),
    'backslash': ('id\\x', 'ty\\pe', 'C:\\gen\\by'),
    'control': ('id\nx', 'ty\tpe', 'gen\x01by'),
    'quote-id': ('a"b', 'OTU table', 'g'),
    'quote-type': ('tid', 'a"b', 'g'),
    'quote-gen': ('tid', 'OTU table', 'a"b'),
    'backslash-id': ('a\\b', 'OTU table', 'g'),
    'backslash-type': ('tid', 'a\\b', 'g'),
    'backslash-gen': ('tid', 'OTU table', 'a\\nb'),
    'trailing-backslash': ('tid\\', 'OTU table\\', 'g\\'),
}

VOCABULARY_TYPES = ['OTU table', 'Pathway table', 'Function table', 'Ortholog table', 'Gene table',
                    'Metabolite table', 'Taxon table']


def header_of(case):
    h = case.get('header', 'plain')
    tid, typ, gen = HEADERS[h]
    if case.get('type') is not None:
        typ = case['type']
    return tid, typ, gen


# --------------------------------------------------------------------------
# histories: prior public operations that leave representation features behind
# --------------------------------------------------------------------------

def _half(v, i, m):
    return v * 0.5


def apply_history(t, history):
    for op in history or ():
        if op == 'sort_samples_rev':          # reordering: leaves unsorted column indices (CSR)
            t = t.sort_order(list(t._sample_ids.tolist())[::-1], axis='sample')
        elif op == 'sort_obs_rev':
            t = t.sort_order(list(t._observation_ids.tolist())[::-1], axis='observation')
        elif op == 'subsample':               # subsampling: may leave explicitly stored zeros
            t = t.subsample(1, axis='sample', seed=7)
        elif op == 'subsample_obs':
            t = t.subsample(1, axis='observation', seed=3)
        elif op == 'transpose':
            t = t.transpose()
        elif op == 'filter_first_sample':     # in-place, converts to CSC
            t.filter([t._sample_ids.tolist()[0]], axis='sample', invert=True, inplace=True)
        elif op == 'halve':                   # in-place value transform
            t.transform(_half, axis='observation', inplace=True)
        elif op == 'copy':
            t = t.copy()
        elif op == 'read_obs':                # read accessor on the other axis: converts layout
            t.data(t._observation_ids.tolist()[0], axis='observation', dense=True)
        else:
            raise ValueError(op)
    return t


# --------------------------------------------------------------------------
# building the table of a case
# --------------------------------------------------------------------------

def build(case):
    """case keys: A, layout, zeros, ids, obs_md, samp_md, header, type, history"""
    A = np.array(case['A'], dtype=float)
    if A.ndim != 2:
        A = A.reshape(case['shape'])
    m, n = A.shape
    kind = case.get('ids', 'plain')
    ids = {'observation': make_ids(kind, 'observation', m), 'sample': make_ids(kind, 'sample', n)}
    omd = make_md(case.get('obs_md', 'none'), 'observation', m)
    smd = make_md(case.get('samp_md', 'none'), 'sample', n)
    tid, typ, _gen = header_of(case)
    t = rt.make_table(A, case.get('layout', 'csr'), case.get('zeros', 'nz'), ids=ids,
                      obs_md=omd if omd is not None else 'none', samp_md=smd if smd is not None else 'none',
                      type=typ, table_id=tid)
    return apply_history(t, case.get('history'))


# --------------------------------------------------------------------------
# witness classes
# --------------------------------------------------------------------------

def needs_more_than_6_decimals(v):
    """the quantifier's 'magnitudes below 1e-6 and values needing more than 6
    decimal digits': v is not a multiple of 1e-6 representable as such"""
    v = float(v)
    return v != 0 and float('%.6f' % v) != v


def value_tag(A):
    A = np.asarray(A, dtype=float)
    if not A.size or not np.any(A != 0):
        return 'all-zero-matrix'
    if any(needs_more_than_6_decimals(v) for v in A.ravel()):
        return 'value-needs-more-than-6-decimals'
    if A.min() < 0:
        return 'negative-values'
    return None


def header_tag(case):
    h = case.get('header', 'plain')
    if h in ('plain', 'none'):
        return None
    if h == 'nonascii':
        return 'header-nonascii'
    return 'header-string-needs-escaping'


def wclass(case, *extra, vtag=None):
    parts = []
    if case.get('layout') == 'csr_unsorted':
        parts.append('unsorted-indices')
    elif case.get('layout') == 'csc':
        parts.append('csc')
    if case.get('zeros', 'nz') != 'nz':
        parts.append('stored-zeros')
    if case.get('history'):
        parts.append('after-' + '-'.join(case['history']))
    vt = (vtag or value_tag)(case['A'])
    if vt:
        parts.append(vt)
    if case.get('ids', 'plain') != 'plain':
        parts.append('ids-' + case['ids'])
    for kind in sorted(set(case.get(key, 'none') for key in ('obs_md', 'samp_md')) - {'none'}):
        parts.append('md-' + kind)
    ht = header_tag(case)
    if ht:
        parts.append(ht)
    parts.extend(e for e in extra if e)
    return '+'.join(parts) or 'canonical'


PLAIN_MATRIX = [[1.0, 0.0], [0.0, 2.0]]
DEFAULTS = (('A', PLAIN_MATRIX), ('history', []), ('layout', 'csr'), ('zeros', 'nz'), ('ids', 'plain'), ('obs_md', 'none'),
            ('samp_md', 'none'), ('header', 'plain'))


def minimise(case, clause, core, defaults=DEFAULTS, cache=None):
    """greedy feature minimisation of a failing case: reset one state feature
    at a time to its default while `clause` still fails; the witness class is
    computed from what remains, so that one root cause lands in one class.
    Only used for labelling - the recorded replay case is the original."""
    cache = {} if cache is None else cache

    def fails_in(c):
        k = json.dumps(c, sort_keys=True, default=repr)
        if k not in cache:
            try:
                cache[k] = set(f['clause'] for f in core(c))
            except Exception:
                cache[k] = set()
        return clause in cache[k]

    cur = dict(case)
    for key, dv in defaults:
        if cur.get(key, dv) == dv:
            continue
        trial = dict(cur)
        trial[key] = dv
        if fails_in(trial):
            cur = trial
    return cur


def relabel(case, fails, core, defaults=DEFAULTS, tagger=None, vtag=None):
    """replace the class of every fail by the class of its minimised case"""
    cache = {}
    out = []
    for f in fails:
        mc = minimise(case, f['clause'], core, defaults, cache)
        f = dict(f)
        extra = tagger(f, mc) if tagger else ()
        f['wclass'] = wclass(mc, *extra, vtag=vtag)
        if mc != case:
            f['witness'] = mc
        out.append(f)
    return out


# --------------------------------------------------------------------------
# misc
# --------------------------------------------------------------------------

@contextlib.contextmanager
def tmpdir():
    d = tempfile.mkdtemp(prefix='verif-text-')
    try:
        yield d
    finally:
        shutil.rmtree(d, ignore_errors=True)


def same_md_value(a, b):
    """typed equality of metadata values: bool only equals bool, None only
    None, numbers by value, strings exactly, containers recursively"""
    if isinstance(a, bool) or isinstance(b, bool):
        return isinstance(a, bool) and isinstance(b, bool) and a == b
    if a is None or b is None:
        return a is None and b is None
    if isinstance(a, (int, float)) and isinstance(b, (int, float)):
        return a == b
    if isinstance(a, str) and isinstance(b, str):
        return a == b
    if isinstance(a, (list, tuple)) and isinstance(b, (list, tuple)):
        return len(a) == len(b) and all(same_md_value(x, y) for x, y in zip(a, b))
    if isinstance(a, dict) and isinstance(b, dict):
        return set(a) == set(b) and all(same_md_value(a[k], b[k]) for k in a)
    return False


def same_md(a, b):
    """per-ID metadata lists (None = no metadata on the axis)"""
    if a is None or b is None:
        return a is None and b is None
    return len(a) == len(b) and all(same_md_value(x, y) for x, y in zip(a, b))


def bits_equal(a, b):
    a = np.asarray(a, dtype=float)
    b = np.asarray(b, dtype=float)
    return a.shape == b.shape and rt._mat_eq(a, b, True)


def matrix_states(tier, small_values=(0, 1, 2)):
    """matrix x layout x stored-zero descriptors shared by the three modules:
    every matrix over {0,1,2} up to 2x2 (quick) / 3x3 (thorough, sub-sampled by
    the callers where the product would explode), plus 2x3/3x2 samples"""
    if tier == 'quick':
        shapes = [(1, 1), (1, 2), (2, 1), (2, 2)]
        extra, step = [(2, 3), (3, 2)], 7
    else:
        shapes = [(r, c) for r in (1, 2, 3) for c in (1, 2, 3) if r * c <= 6]
        extra, step = [(3, 3)], 5
    for dm in rt.matrices(0, 0, values=small_values, shapes=shapes):
        for lay in rt.LAYOUTS:
            for z in rt.ZEROS:
                if z != 'nz' and not np.any(dm == 0):
                    continue
                yield {'A': dm.tolist(), 'layout': lay, 'zeros': z}
    for k, dm in enumerate(rt.matrices(0, 0, values=small_values, shapes=extra)):
        if k % step:
            continue
        for lay in rt.LAYOUTS:
            yield {'A': dm.tolist(), 'layout': lay, 'zeros': ('z1', 'zall', 'nz')[k % 3] if np.any(dm == 0) else 'nz'}


PRECISION_VALUES = [1e-7, 2.5e-7, 4.9e-7, 5.1e-7, -1e-10, 5e-324, 2.2250738585072014e-308, 1.23456789012,
                    0.1 + 0.2, 1.0 / 3.0, 123456.7890123, 1e15 + 0.3, 0.0000015, 1e-6, 0.5, 0.000001,
                    1e22, 1.7976931348623157e308, -2.5, 3.0, 1e16, 9007199254740993.0, 123456789.123456789]


def value_matrices():
    """value-stress matrices: rt.stress_matrices plus one cell per precision
    value and mixed matrices with zero rows/columns and fully dense ones"""
    for dm in rt.stress_matrices():
        yield dm
    pv = PRECISION_VALUES
    for v in pv:
        yield np.array([[v]])
    yield np.array([[pv[0], 0.0], [0.0, pv[7]]])
    yield np.array([[pv[1], pv[2], pv[3]], [pv[4], pv[5], pv[6]]])
    yield np.array([[pv[8], pv[9]], [pv[10], pv[11]], [pv[12], pv[13]]])
    yield np.array([[0.0, 0.0, 0.0], [0.0, pv[16], 0.0], [0.0, 0.0, pv[17]]])
    yield np.array([[pv[14], pv[15], pv[18]], [pv[19], pv[20], pv[21]]])
    yield np.array([[pv[22], -pv[22]], [-pv[0], pv[0]]])


def random_matrix(rng, max_dim=6):
    m, n = int(rng.integers(1, max_dim + 1)), int(rng.integers(1, max_dim + 1))
    kind = int(rng.integers(0, 5))
    if kind == 0:                  # counts
        A = rng.integers(0, 1000, size=(m, n)).astype(float)
    elif kind == 1:                # fractions
        A = rng.random((m, n))
    elif kind == 2:                # any magnitude, both signs
        A = np.sign(rng.random((m, n)) - 0.3) * 10.0 ** rng.uniform(-300, 300, size=(m, n))
    elif kind == 3:                # random bit patterns of finite doubles
        bits = rng.integers(0, 2 ** 63 - 1, size=(m, n), dtype=np.int64)
        A = bits.view(np.float64).copy()
        A[~np.isfinite(A)] = 1.5
        A = A * np.sign(rng.random((m, n)) - 0.5)
    else:                          # negative / mixed small decimals
        A = np.round(rng.normal(0, 50, size=(m, n)), int(rng.integers(0, 9)))
    dens = rng.random()
    A = A * (rng.random((m, n)) < dens)
    A = A + 0.0
    A[A == 0] = 0.0
    return A
