"""C17 - All accepted construction inputs agree; malformed input is always rejected.

Bounded part: the constructor contract evaluated on the real Table(...) for
every small matrix in every accepted input form (dense array incl. int / bool
dtypes, nested dense lists, coordinate triples incl. explicit zeros, coordinate
dictionary, list of row arrays / row dictionaries / sparse rows, SciPy
csr / csc / coo / lil / dok / bsr / dia incl. unsorted indices, stored zeros and
int / bool dtypes): each must yield exactly the described matrix with the given
IDs and metadata (hence all forms agree pairwise).  Table.from_adjacency,
biom.parse.parse_uc and biom.cli.uc_processor._from_uc against sums / counts
of small record multisets.  Malformed input for a non-empty table (duplicate
IDs, too few / too many IDs, metadata too short / too long / containing
non-mappings) must raise biom.exception.TableException and never return a table.
"""
import io
import itertools

import numpy as np
import scipy.sparse as sp

from pyvc import rt
from props import combine_util as cu

LEVEL = 'other'


# --------------------------------------------------------------------------
# input forms
# --------------------------------------------------------------------------

def _nz(M):
    return [(i, j, M[i, j]) for i in range(M.shape[0]) for j in range(M.shape[1]) if M[i, j] != 0]


def _all(M):
    return [(i, j, M[i, j]) for i in range(M.shape[0]) for j in range(M.shape[1])]


def _num(x, as_int):
    return int(x) if as_int else float(x)


def _csc_unsorted(M):
    m, n = M.shape
    indptr, indices, data = [0], [], []
    for j in range(n):
        rows = [i for i in range(m) if M[i, j] != 0][::-1]
        indices.extend(rows)
        data.extend(M[i, j] for i in rows)
        indptr.append(len(indices))
    return sp.csc_matrix((np.array(data, dtype=float), np.array(indices, dtype=np.int32),
                          np.array(indptr, dtype=np.int32)), shape=(m, n))


def _coo(M, entries):
    r = np.array([e[0] for e in entries], dtype=np.int32)
    c = np.array([e[1] for e in entries], dtype=np.int32)
    d = np.array([e[2] for e in entries], dtype=float)
    return sp.coo_matrix((d, (r, c)), shape=M.shape)


def _rowsparse(M, fmts):
    return [sp.csr_matrix(M[i:i + 1, :]).asformat(fmts[i % len(fmts)]) for i in range(M.shape[0])]


# name -> (family, needs, builder(M) -> (data, kwargs)); the *described* matrix
# is M, or (M != 0) for the bool forms
FORMS = {
    'dense': ('dense-array', None, lambda M: (np.array(M, dtype=float), {})),
    'dense_fortran': ('dense-array', None, lambda M: (np.asfortranarray(M, dtype=float), {})),
    'dense_int': ('dense-array', 'integral', lambda M: (M.astype(np.int64), {})),
    'dense_int32': ('dense-array', 'integral', lambda M: (M.astype(np.int32), {})),
    'dense_bool': ('dense-array', 'bool', lambda M: (M != 0, {})),
    'nested': ('nested-lists', None, lambda M: ([[float(x) for x in r] for r in M], {'input_is_dense': True})),
    'nested_int': ('nested-lists', 'integral', lambda M: ([[int(x) for x in r] for r in M], {'input_is_dense': True})),
    'triples': ('coord-triples', 'nonzero', lambda M: ([[i, j, float(v)] for i, j, v in _nz(M)], {})),
    'triples_rev': ('coord-triples', 'nonzero', lambda M: ([[i, j, float(v)] for i, j, v in _nz(M)][::-1], {})),
    'triples_zeros': ('coord-triples', None, lambda M: ([[i, j, float(v)] for i, j, v in _all(M)], {})),
    'triples_int': ('coord-triples', 'integral', lambda M: ([[i, j, int(v)] for i, j, v in _all(M)], {})),
    'dict': ('coord-dict', None, lambda M: ({(i, j): float(v) for i, j, v in _nz(M)}, {})),
    'dict_zeros': ('coord-dict', None, lambda M: ({(i, j): float(v) for i, j, v in _all(M)}, {})),
    'dict_rev_int': ('coord-dict', 'integral', lambda M: ({(i, j): int(v) for i, j, v in _all(M)[::-1] if v != 0 or (i + j) % 2}, {})),
    'rowarrays': ('row-list', None, lambda M: ([np.array(r, dtype=float) for r in M], {})),
    'rowarrays_int': ('row-list', 'integral', lambda M: ([np.array(r, dtype=np.int64) for r in M], {})),
    'rowarrays_bool': ('row-list', 'bool', lambda M: ([np.array(r) != 0 for r in M], {})),
    'rowdicts': ('row-list', None, lambda M: ([{(0, j): float(M[i, j]) for j in range(M.shape[1])}
                                                 for i in range(M.shape[0])], {})),
    'rowdicts_sparse': ('row-list', None, lambda M: ([{(0, j): float(M[i, j]) for j in range(M.shape[1])
                                                         if M[i, j] != 0 or (i == 0 and j == M.shape[1] - 1)}
                                                        for i in range(M.shape[0])], {})),
    'rowsparse_csr': ('row-list', None, lambda M: (_rowsparse(M, ['csr']), {})),
    'rowsparse_mixed': ('row-list', None, lambda M: (_rowsparse(M, ['coo', 'lil', 'csc', 'dok']), {})),
    'csr': ('scipy', None, lambda M: (rt._csr_with(M), {})),
    'csr_unsorted': ('scipy', None, lambda M: (rt._csr_with(M, unsorted=True), {})),
    'csr_zeros': ('scipy', None, lambda M: (rt._csr_with(M, unsorted=True, zeros='zall'), {})),
    'csr_int': ('scipy', 'integral', lambda M: (sp.csr_matrix(M.astype(np.int64)), {})),
    'csc': ('scipy', None, lambda M: (sp.csc_matrix(M), {})),
    'csc_unsorted': ('scipy', None, lambda M: (_csc_unsorted(M), {})),
    'csc_bool': ('scipy', 'bool', lambda M: (sp.csc_matrix(M != 0), {})),
    'coo': ('scipy', None, lambda M: (_coo(M, _nz(M)), {})),
    'coo_shuffled_zeros': ('scipy', None, lambda M: (_coo(M, _all(M)[::-1]), {})),
    'coo_int': ('scipy', 'integral', lambda M: (sp.coo_matrix(M.astype(np.int32)), {})),
    'lil': ('scipy', None, lambda M: (sp.lil_matrix(M), {})),
    'dok': ('scipy', None, lambda M: (sp.dok_matrix(M), {})),
    'bsr': ('scipy', None, lambda M: (sp.bsr_matrix(M, blocksize=(1, 1)), {})),
    'bsr_block': ('scipy', None, lambda M: (sp.bsr_matrix(M, blocksize=M.shape), {})),
    'dia': ('scipy', None, lambda M: (sp.dia_matrix(M), {})),
}
INTRINSIC_SHAPE = ('dense-array', 'nested-lists', 'row-list', 'scipy')     # the input itself fixes the shape
IDS_SIZED = ('nested-lists', 'coord-triples', 'coord-dict')                 # converters that take the size from the IDs


def form_applies(name, M):
    need = FORMS[name][1]
    if need == 'integral':
        return bool(np.all(M == np.round(M)) and np.all(np.abs(M) < 2 ** 31))
    if need == 'nonzero':
        return bool(np.any(M != 0))         # an empty triple list does not describe a matrix
    return True


def described(name, M):
    return (M != 0).astype(float) if FORMS[name][1] == 'bool' else np.array(M, dtype=float)


def _ids(case, M):
    kind = case.get('ids', 'plain')
    return rt.make_ids(kind, 'observation', M.shape[0]), rt.make_ids(kind, 'sample', M.shape[1])


def _tag(case):
    return 'form:' + FORMS[case['form']][0]


def _sclass(case):
    return rt.state_class({'A': case['A'], 'ids': case.get('ids', 'plain')})


def forms_core(case):
    from biom import Table
    M = np.array(case['A'], dtype=float)
    name = case['form']
    wcls = cu.join_class(_sclass(case), _tag(case))
    oid, sid = _ids(case, M)
    omd = rt.make_md(case.get('obs_md', 'none'), 'observation', M.shape[0])
    smd = rt.make_md(case.get('samp_md', 'none'), 'sample', M.shape[1])
    data, kw = FORMS[name][2](M)
    want = described(name, M)
    try:
        t = Table(data, oid, sid, omd, smd, **kw)
    except Exception as e:
        return [rt.fail('no-exception', wcls, 'a table holding %r' % want.tolist(),
                        '%s: %s' % (type(e).__name__, e))]
    v = rt.view(t)
    fails = []
    if v.obs != oid or v.samp != sid:
        fails.append(rt.fail('ids', wcls, [oid, sid], [v.obs, v.samp]))
    if v.A.shape != want.shape or not rt._mat_eq(v.A, want, exact=True):
        fails.append(rt.fail('values', wcls, want.tolist(), v.A.tolist()))
    if v.obs_md != rt.md_view(omd) or v.samp_md != rt.md_view(smd):
        fails.append(rt.fail('metadata', wcls, [rt.md_view(omd), rt.md_view(smd)], [v.obs_md, v.samp_md]))
    if rt.inv(t):
        fails.append(rt.fail('post/Inv', wcls, [], rt.inv(t)))
    return fails


def _canon(core):
    def run(case):
        fails = cu.minimise_classes(case, core(case), core, _sclass)
        return {'fails': fails, 'nontrivial': True, 'n': 1}
    return run


run_forms_case = _canon(forms_core)


# --------------------------------------------------------------------------
# malformed input
# --------------------------------------------------------------------------

NONMAPPINGS = {'str': 'abc', 'int': 7, 'float': 1.5, 'list': ['a', 'b'], 'pair-tuple': (('k', 'v'),),
               'empty-str': '', 'zero': 0, 'empty-list': [], 'false': False}
FALSY = ('empty-str', 'zero', 'empty-list', 'false')


def _malform(case, oid, sid, omd, smd):
    """apply the malformation; returns (oid, sid, omd, smd, tag)"""
    mal = case['mal']
    kind, axis = mal['kind'], mal['axis']
    ids = list(oid if axis == 'observation' else sid)
    md = None
    tag = kind
    if kind == 'dup-ids':
        ids[mal['j']] = ids[mal['i']]
    elif kind == 'too-few-ids':
        ids = ids[:-1] if mal.get('drop', 'last') == 'last' else ids[1:]
    elif kind == 'too-many-ids':
        ids = ids + ['extra-id']
    else:
        n = len(ids)
        good = [{'k': 'v%d' % k} for k in range(n)]
        if kind == 'md-too-short':
            md = good[:mal['len']]
        elif kind == 'md-too-long':
            md = good + [{'k': 'more'}] * mal['extra']
        elif kind == 'md-non-mapping':
            md = list(good)
            md[mal['pos']] = NONMAPPINGS[mal['what']]
        elif kind == 'md-all-null-wrong-length':
            md = [None if mal['what'] == 'none' else {}] * mal['len']
        elif kind == 'md-all-non-mapping':
            md = [NONMAPPINGS[mal['what']]] * n
        else:
            raise ValueError(kind)
        if md and all(not m for m in md):
            tag = 'md-all-entries-falsy'
    if axis == 'observation':
        return ids, sid, (md if md is not None else omd), smd, tag
    return oid, ids, omd, (md if md is not None else smd), tag


def malformed_core(case):
    from biom import Table
    from biom.exception import TableException
    M = np.array(case['A'], dtype=float)
    name = case['form']
    family = FORMS[name][0]
    oid, sid = _ids(case, M)
    oid, sid, omd, smd, tag = _malform(case, oid, sid, None, None)
    if tag in ('too-few-ids', 'too-many-ids'):
        tag = ('ids-sized-forms' if family in IDS_SIZED else family) + '+' + tag
    wcls = cu.join_class(_sclass(case), tag)
    data, kw = FORMS[name][2](M)
    try:
        t = Table(data, oid, sid, omd, smd, **kw)
    except TableException:
        return []
    except Exception as e:
        return [rt.fail('raises-TableException', wcls, 'biom.exception.TableException',
                        '%s: %s' % (type(e).__name__, e))]
    v = rt.view(t)
    return [rt.fail('never-produces-a-table', wcls, 'biom.exception.TableException',
                    {'obs': v.obs, 'samp': v.samp, 'A': v.A.tolist(), 'obs_md': v.obs_md, 'samp_md': v.samp_md})]


run_malformed_case = _canon(malformed_core)


# --------------------------------------------------------------------------
# adjacency lists
# --------------------------------------------------------------------------

ADJ_IDS = {
    'plain': (['a', 'b'], ['x', 'y']),
    'spaces': (['otu 1', 'otu;2'], ['s.1', 's 2']),
    'nonascii': (['öb', '日本'], ['éè', 'Ж']),
    'numeric': (['10', '2.5'], ['1', '007']),
}
ADJ_VALUES = ['1', '2', '0.5', '-1', '3.25', '1e2', '0']


def adjacency_core(case):
    from biom import Table
    obs_pool, samp_pool = ADJ_IDS[case['ids']]
    recs = [(obs_pool[o], samp_pool[s], ADJ_VALUES[v]) for o, s, v in case['records']]
    lines = ['%s\t%s\t%s' % r for r in recs]
    if case['header']:
        lines = ['#OTU ID\tSampleID\tvalue'] + lines
    via = case['via']
    wcls = 'canonical|from_adjacency' if case['ids'] == 'plain' else 'ids-%s|from_adjacency' % case['ids']
    if via == 'list':
        arg = list(lines)
    elif via == 'list_nl':
        arg = [l + '\n' for l in lines]
    elif via == 'tuple':
        arg = tuple(lines)
    elif via == 'str':
        arg = '\n'.join(lines)
    elif via == 'file':
        arg = io.StringIO('\n'.join(lines) + '\n')
    else:
        raise ValueError(via)
    want = {}
    for o, s, v in recs:
        want[(o, s)] = want.get((o, s), 0.0) + float(v)
    obs = sorted(set(r[0] for r in recs))
    samp = sorted(set(r[1] for r in recs))
    for o in obs:
        for s in samp:
            want.setdefault((o, s), 0.0)
    try:
        t = Table.from_adjacency(arg)
    except Exception as e:
        return [rt.fail('no-exception', wcls, want and 'a table', '%s: %s' % (type(e).__name__, e))]
    v = rt.view(t)
    fails = []
    if sorted(v.obs) != obs or sorted(v.samp) != samp or len(v.obs) != len(obs) or len(v.samp) != len(samp):
        return [rt.fail('ids', wcls, [obs, samp], [v.obs, v.samp])]
    bad = cu.compare_cells(cu.cellmap(v), want, exact=True)
    if bad:
        fails.append(rt.fail('cell-is-sum-of-records', wcls, [(list(k), w) for k, w, g in bad],
                             [(list(k), g) for k, w, g in bad]))
    if rt.inv(t):
        fails.append(rt.fail('post/Inv', wcls, [], rt.inv(t)))
    return fails


def run_adjacency_case(case):
    return {'fails': adjacency_core(case), 'nontrivial': len(case['records']) > 1, 'n': 1}


# --------------------------------------------------------------------------
# uc cluster files
# --------------------------------------------------------------------------

UC_SAMPLES = {'plain': ['s1', 's2'], 'dots': ['f2.1', 'p-1'], 'nonascii': ['é1', 'Ж2']}
# record pool: (type, sample index, sequence number, seed)  seed = index into UC_SEEDS for H records
UC_SEEDS = [(0, 0), (1, 7)]          # (sample index, sequence number) of the two seed sequences
UC_POOL = [('S', 0, 0, None), ('S', 1, 7, None), ('H', 0, 1, 0), ('H', 1, 2, 0), ('H', 0, 3, 1), ('H', 1, 4, 1),
           ('H', 0, 1, 0),            # the same hit line again (multiset)
           ('L', None, None, 0), ('C', 0, 0, None), ('N', 1, 9, None), ('#', None, None, None), ('', None, None, None)]


def _uc_line(rec, samples, describe):
    typ, s, q, seed = rec
    if typ == '#':
        return '# uclust --input seqs.fna --id 0.97'
    if typ == '':
        return ''
    def label(si, qi):
        return '%s_%d' % (samples[si], qi) + (' some description' if describe else '')
    if typ == 'S':
        return 'S\t0\t133\t*\t*\t*\t*\t*\t%s\t*' % label(s, q)
    if typ == 'H':
        return 'H\t%d\t133\t98.5\t+\t0\t0\t133M\t%s\t%s' % (seed, label(s, q), label(*UC_SEEDS[seed]))
    if typ == 'L':
        return 'L\t%d\t1389\t*\t*\t*\t*\t*\t%s\t*' % (seed, label(*UC_SEEDS[seed]))
    if typ == 'C':
        return 'C\t0\t2\t98.5\t*\t*\t*\t*\t%s\t*' % label(s, q)
    if typ == 'N':
        return 'N\t*\t133\t*\t*\t*\t*\t*\t%s\t*' % label(s, q)
    raise ValueError(typ)


def uc_core(case):
    from biom.parse import parse_uc
    from biom.cli.uc_processor import _from_uc
    samples = UC_SAMPLES[case['ids']]
    recs = [UC_POOL[k] for k in case['records']]
    lines = [_uc_line(r, samples, case['describe']) for r in recs]
    wcls = ('canonical' if case['ids'] == 'plain' else 'ids-' + case['ids']) + '|' + case['via']
    seed_label = ['%s_%d' % (samples[si], qi) for si, qi in UC_SEEDS]
    want, obs, samp = {}, [], []
    for typ, s, q, seed in recs:
        if typ not in ('S', 'H', 'L'):
            continue
        o = '%s_%d' % (samples[s], q) if typ == 'S' else seed_label[seed]
        if o not in obs:
            obs.append(o)
        if typ == 'L':
            continue
        if samples[s] not in samp:
            samp.append(samples[s])
        want[(o, samples[s])] = want.get((o, samples[s]), 0.0) + 1.0
    rename = None
    via = case['via']
    fh = io.StringIO('\n'.join(lines) + '\n') if case['handle'] == 'file' else [l + '\n' for l in lines]
    try:
        if via == 'parse_uc':
            t = parse_uc(fh)
        elif via == '_from_uc':
            t = _from_uc(fh, None)
        elif via == '_from_uc+fasta':
            rename = {lab: 'OTU%d' % k for k, lab in enumerate(seed_label)}
            rename.update({'%s_%d' % (samples[s], q): 'OTUs%d' % q for typ, s, q, seed in recs if typ == 'S'})
            fasta = []
            for lab, new in sorted(rename.items()):
                fasta += ['>%s %s extra' % (new, lab), 'ACGTTGCA']
            t = _from_uc(fh, io.StringIO('\n'.join(fasta) + '\n'))
        else:
            raise ValueError(via)
    except Exception as e:
        return [rt.fail('no-exception', wcls, 'a table', '%s: %s' % (type(e).__name__, e))]
    if rename:
        want = {(rename[o], s): c for (o, s), c in want.items()}
        obs = [rename[o] for o in obs]
    for o in obs:
        for s in samp:
            want.setdefault((o, s), 0.0)
    v = rt.view(t)
    if sorted(v.obs) != sorted(obs) or sorted(v.samp) != sorted(samp) or len(v.obs) != len(obs) or len(v.samp) != len(samp):
        return [rt.fail('ids', wcls, [sorted(obs), sorted(samp)], [v.obs, v.samp])]
    fails = []
    bad = cu.compare_cells(cu.cellmap(v), want, exact=True)
    if bad:
        fails.append(rt.fail('cell-is-count-of-records', wcls, [(list(k), w) for k, w, g in bad],
                             [(list(k), g) for k, w, g in bad]))
    if rt.inv(t):
        fails.append(rt.fail('post/Inv', wcls, [], rt.inv(t)))
    return fails


def run_uc_case(case):
    return {'fails': uc_core(case), 'nontrivial': True, 'n': 1}


def run_coo_probe_case(case):
    """conformance probe of the *assumed* contract of scipy.sparse.coo_matrix that the proofs of coo_arrays_to_sparse /
    dict_to_sparse rest on (contracts/sparse_converters.py): a mismatch is a wrong trusted base - a checker error, not a
    violation of the property"""
    from scipy.sparse import coo_matrix
    rows, cols, (m, n) = case['rows'], case['cols'], case['shape']
    L = len(rows)
    vals = [float(k + 1) if k % 2 == 0 else 0.0 for k in range(L)]
    inrange = m >= 0 and n >= 0 and all(0 <= r < m and 0 <= c < n for r, c in zip(rows, cols))
    try:
        M = coo_matrix((vals, (list(rows), list(cols))), shape=(m, n), dtype=float)
        accepted = True
    except ValueError:
        accepted = False
    if accepted != inrange:
        raise RuntimeError('assumed contract sp.coo_matrix is wrong: accepted=%s for %r' % (accepted, case))
    if accepted:
        D = M.tocsr()
        D.eliminate_zeros()
        A = D.toarray()
        for i in range(m):
            for j in range(n):
                ks = [k for k in range(L) if rows[k] == i and cols[k] == j]
                if (not ks and A[i, j] != 0) or (len(ks) == 1 and A[i, j] != vals[ks[0]]):
                    raise RuntimeError('assumed contract sp.coo_matrix is wrong: cell (%d, %d) for %r' % (i, j, case))
    return {'fails': [], 'nontrivial': accepted and L > 0, 'n': 1}


def coo_probe_cases(tier):
    for L in range(0, 4 if tier == 'quick' else 5):
        for rows in itertools.product(range(-1, 3), repeat=L):
            for cols in itertools.product(range(-1, 3), repeat=L):
                if L == 4 and (hash((rows, cols)) % 4):
                    continue
                for shape in ((0, 0), (1, 2), (2, 2), (3, 1), (2, 0), (-1, 2)):
                    yield {'rows': list(rows), 'cols': list(cols), 'shape': list(shape)}


SCOPES = {'coo-axiom-probe': run_coo_probe_case, 'forms-agree': run_forms_case, 'malformed': run_malformed_case,
          'from_adjacency': run_adjacency_case, 'uc': run_uc_case}


# --------------------------------------------------------------------------
# enumeration
# --------------------------------------------------------------------------

ID_KINDS = ('plain', 'punct', 'nonascii', 'long', 'numeric')
MD_KINDS = ('none', 'text', 'num', 'tax', 'slash')
EXTRA = [
    [[1, 0, 2], [0, 0, 0], [4, 0, 3]],
    [[0, 0, 0, 5], [0, 0, 0, 0], [0, 7, 0, 0]],
    [[0.5, 0.25], [1.5, 0], [0, 8], [0, 0]],
    [[3, 1, 4], [1, 5, 9], [2, 6, 5]],
    [[0, 0], [0, 0]],
    [[2]],
    [[0, 0, 1]],
    [[0], [0], [6]],
]


def _matrices(tier):
    shapes = [(1, 1), (1, 2), (2, 1), (2, 2)]
    for dm in rt.matrices(0, 0, shapes=shapes):
        yield dm
    more = [(2, 3), (3, 2)] if tier == 'quick' else [(2, 3), (3, 2), (1, 3), (3, 1), (3, 3)]
    step = 5 if tier == 'quick' else 1
    for k, dm in enumerate(rt.matrices(0, 0, shapes=more)):
        if k % step == 0 and (dm.shape != (3, 3) or k % 7 == 0):
            yield dm
    for A in EXTRA:
        yield np.array(A, dtype=float)


def forms_cases(tier):
    n = 0
    for dm in _matrices(tier):
        for name in FORMS:
            if not form_applies(name, dm):
                continue
            n += 1
            yield {'A': dm.tolist(), 'form': name, 'ids': ID_KINDS[n % 5] if n % 3 == 0 else 'plain',
                   'obs_md': MD_KINDS[n % 5], 'samp_md': MD_KINDS[(n // 5) % 5]}


def stress_forms_cases(tier):
    n = 0
    for dm in rt.stress_matrices():
        for name in FORMS:
            if not form_applies(name, dm):
                continue
            for kind in ID_KINDS:
                n += 1
                yield {'A': dm.tolist(), 'form': name, 'ids': kind, 'obs_md': MD_KINDS[n % 5], 'samp_md': 'none'}


MAL_BASE = [[[1, 2], [3, 4]], [[1, 0, 2], [0, 3, 0]], [[0, 5], [6, 0], [0, 7]], [[2, 0, 0], [0, 0, 0], [0, 0, 9]]]


def _malformations(M, family):
    for axis in cu.AXES:
        n = M.shape[0] if axis == 'observation' else M.shape[1]
        for i in range(n):
            for j in range(i + 1, n):
                yield {'kind': 'dup-ids', 'axis': axis, 'i': i, 'j': j}
                yield {'kind': 'dup-ids', 'axis': axis, 'i': j, 'j': i}
        if n >= 2:
            for drop in ('last', 'first'):
                # for the coordinate forms only dropping the last ID leaves a cell unnamed for sure
                if family in ('coord-triples', 'coord-dict') and drop == 'first':
                    continue
                yield {'kind': 'too-few-ids', 'axis': axis, 'drop': drop}
        if family in INTRINSIC_SHAPE:
            yield {'kind': 'too-many-ids', 'axis': axis}
        for ln in range(0, n):
            yield {'kind': 'md-too-short', 'axis': axis, 'len': ln}
        for extra in (1, 2):
            yield {'kind': 'md-too-long', 'axis': axis, 'extra': extra}
        for pos in range(n):
            for what in NONMAPPINGS:
                yield {'kind': 'md-non-mapping', 'axis': axis, 'pos': pos, 'what': what}
        for what in NONMAPPINGS:
            yield {'kind': 'md-all-non-mapping', 'axis': axis, 'what': what}
        for what in ('none', 'empty-dict'):
            for ln in list(range(1, n)) + [n + 1]:
                yield {'kind': 'md-all-null-wrong-length', 'axis': axis, 'what': what, 'len': ln}


def malformed_cases(tier):
    n = 0
    for A in MAL_BASE:
        M = np.array(A, dtype=float)
        for name in FORMS:
            if not form_applies(name, M) or FORMS[name][1] == 'bool':
                continue
            family = FORMS[name][0]
            for mal in _malformations(M, family):
                if mal['kind'] == 'too-few-ids' and family in ('coord-triples', 'coord-dict'):
                    # the last row / column must be named by the input for the IDs to be too few
                    data = FORMS[name][2](M)[0]
                    coords = list(data) if isinstance(data, dict) else [(r[0], r[1]) for r in data]
                    k = 0 if mal['axis'] == 'observation' else 1
                    if max(c[k] for c in coords) < M.shape[k] - 1:
                        continue
                n += 1
                kinds = ['plain'] if tier == 'quick' and mal['kind'].startswith('md-') else ['plain', ID_KINDS[n % 5]]
                for kind in sorted(set(kinds)):
                    yield {'A': A, 'form': name, 'ids': kind, 'mal': mal}


def adjacency_cases(tier):
    quick = tier == 'quick'
    cells = [(o, s) for o in range(2) for s in range(2)]
    vals = range(len(ADJ_VALUES))
    vias = ('list', 'list_nl', 'tuple', 'str', 'file')
    n = 0
    for size in range(1, 4 if quick else 5):
        for combo in itertools.combinations_with_replacement(cells, size):
            for vsel in itertools.product(vals, repeat=size):
                n += 1
                if size == 3 and n % (2 if quick else 1):
                    continue
                if size >= 4 and n % 5:
                    continue
                recs = [(o, s, v) for (o, s), v in zip(combo, vsel)]
                if n % 2:
                    recs = recs[::-1]
                yield {'records': recs, 'header': bool(n % 3 == 0), 'via': vias[n % 5],
                       'ids': list(ADJ_IDS)[(n // 5) % len(ADJ_IDS)]}
                if size <= 2:
                    yield {'records': recs, 'header': not bool(n % 3 == 0), 'via': vias[(n + 2) % 5], 'ids': 'plain'}


def uc_cases(tier):
    quick = tier == 'quick'
    pool = range(len(UC_POOL))
    vias = ('parse_uc', '_from_uc', '_from_uc+fasta')
    n = 0
    for size in range(1, 5 if quick else 6):
        for combo in itertools.combinations_with_replacement(pool, size):
            if not any(UC_POOL[k][0] in ('S', 'H') for k in combo):
                continue                    # no counted record: the table would be empty
            n += 1
            if size == 4 and quick and n % 5:
                continue
            if size == 5 and n % 7:
                continue
            order = list(combo) if n % 2 else list(combo)[::-1]
            for via in vias:
                yield {'records': order, 'via': via, 'ids': list(UC_SAMPLES)[n % 3], 'describe': bool(n % 4 == 0),
                       'handle': 'file' if n % 3 else 'lines'}


def run(rep):
    from props import common
    if 'deductive' in rep.only:
        common.run_deductive(rep, 'C17')
    if 'bounded' in rep.only:
        q = rep.tier == 'quick'
        parts = [('enumerated', list(forms_cases(rep.tier))), ('value-stress', list(stress_forms_cases(rep.tier)))]
        rt.run_scope(rep, 'forms-agree',
                     'every matrix over {0,1,2} up to 2x2 (+ %s, + 8 fixed matrices up to 4x3 incl. all-zero and dyadic) x %d '
                     'input forms (dense float/int/bool/Fortran, nested lists, triples with/without explicit zeros, '
                     'coordinate dict, row arrays / row dicts / sparse rows, scipy csr/csc/coo/lil/dok/bsr/dia incl. unsorted '
                     'indices, stored zeros, int/bool dtypes) x metadata kinds and ID alphabets rotating; value-stress '
                     'matrices x every applicable form x 5 ID alphabets; each compared with the described matrix.  cases: %s'
                     % ('every 5th 2x3/3x2' if q else 'all 1x3, 3x1, 2x3, 3x2, every 7th 3x3', len(FORMS),
                        ', '.join('%s %d' % (k, len(v)) for k, v in parts)),
                     (c for _, v in parts for c in v), run_forms_case, exhaustive=True)
        rt.run_scope(rep, 'coo-axiom-probe',
                     'conformance probe of the assumed scipy contract sp.coo_matrix (not a proof): every coordinate list of '
                     'length 0..%d over indices -1..2 (duplicates, negatives, out of range) x 6 shapes incl. empty and '
                     'negative: accepted iff in range, unnamed cells zero, cells named once hold their value'
                     % (3 if q else 4), coo_probe_cases(rep.tier), run_coo_probe_case, chunk=512, exhaustive=q)
        rt.run_scope(rep, 'malformed',
                     '4 base matrices (2x2 .. 3x3) x every form x {duplicate ID at every pair of positions, too few IDs '
                     '(first/last dropped), too many IDs, metadata of every shorter length / 1-2 longer, each of 9 '
                     'non-mapping values at every position or everywhere, all-null metadata of wrong length} x both axes',
                     malformed_cases(rep.tier), run_malformed_case, exhaustive=True)
        rt.run_scope(rep, 'from_adjacency',
                     'record multisets of size 1..%d over 2x2 IDs x 7 value spellings (largest size sampled) x header on/off x '
                     '{list, list with newlines, tuple, str, file object} x 4 ID alphabets' % (3 if q else 4),
                     adjacency_cases(rep.tier), run_adjacency_case, exhaustive=False)
        rt.run_scope(rep, 'uc',
                     'multisets of size 1..%d (largest size sampled) from 12 uc lines (S, H incl. a repeated line, L, C, N, comment, blank) with at '
                     'least one counted record x {parse_uc, _from_uc, _from_uc + fasta renaming} x 3 sample-ID alphabets x '
                     'labels with/without description x file object / list of lines' % (4 if q else 5),
                     uc_cases(rep.tier), run_uc_case, exhaustive=False)
    common.finish_notes(rep, 'C17')


def replay(case):
    return rt.replay_case('C17', case)
