"""C02 - the BIOM 1.0 JSON writer emits well-formed JSON that reads back exactly.

Bounded part (this file).  Contract, evaluated on the real functions:

  to_json(self, generated_by, creation_date)            -> text
      wellformed(text)  and  json.loads(text) == DocOf(view(self), generated_by, date)
  to_json(self, generated_by, direct_io, creation_date) -> writes text'
      wellformed(text') and  json.loads(text') == json.loads(text)     (same document)
  reader(text) for reader in load_table(path | gzip path), parse_table(handle),
      parse_table(list of lines), Table.from_json(dict)
      does not raise, Inv(result), view(result) == ViewOf(json.loads(text))

The round trip of the statement is the composition of the two halves; keeping
them apart makes a writer defect show up once (doc/...) instead of once per
reader.  Oracles: rt.view of the source table (raw fields) and the standard
library json module - never a biom function.
"""
import gzip
import io
import json
import os
from datetime import datetime

import numpy as np

from pyvc import rt
from props import text_util as tu

LEVEL = 'other'
DATE = datetime(2021, 3, 4, 5, 6, 7, 891011)
READERS = ('load_table-path', 'load_table-gzip-path', 'parse_table-handle', 'parse_table-lines',
           'parse_table-one-line-list', 'from_json-dict')


class _Dup(Exception):
    pass


def _no_dup(pairs):
    d = {}
    for k, v in pairs:
        if k in d:
            raise _Dup(k)
        d[k] = v
    return d


def strict_loads(text):
    """stdlib parse; duplicate keys in any object count as malformed"""
    return json.loads(text, object_pairs_hook=_no_dup)


def dense_of_doc(doc):
    """dense matrix declared by a BIOM 1.0 document, or (None, reason)"""
    try:
        m, n = doc['shape']
        A = np.zeros((m, n), dtype=float)
        seen = set()
        if doc.get('matrix_type', 'sparse') == 'dense':
            return np.array(doc['data'], dtype=float).reshape(m, n), None
        for r, c, v in doc['data']:
            if (r, c) in seen:
                return None, 'cell (%d,%d) written twice' % (r, c)
            seen.add((r, c))
            A[r, c] = v
        return A, None
    except Exception as e:
        return None, '%s: %s' % (type(e).__name__, e)


def check_doc(doc, pre, gen, cls):
    """json.loads(text) == DocOf(view(self), generated_by, date)"""
    fails = []

    def bad(clause, exp, obs):
        fails.append(rt.fail('doc/' + clause, cls, exp, obs))

    if not isinstance(doc, dict):
        bad('is-object', 'a JSON object', type(doc).__name__)
        return fails
    rows, cols = doc.get('rows'), doc.get('columns')
    try:
        got_obs = [r['id'] for r in rows]
        got_samp = [c['id'] for c in cols]
        got_omd = [r['metadata'] for r in rows]
        got_smd = [c['metadata'] for c in cols]
    except Exception as e:
        bad('rows-columns', 'lists of {id, metadata}', repr(e))
        return fails
    if got_obs != pre.obs:
        bad('obs-ids', pre.obs, got_obs)
    if got_samp != pre.samp:
        bad('samp-ids', pre.samp, got_samp)
    for name, got, want in (('obs-md', got_omd, pre.obs_md), ('samp-md', got_smd, pre.samp_md)):
        if want is None:
            want = [None] * len(got)
        if not tu.same_md(got, want):
            bad(name, want, got)
    # table id / type / generated-by: one clause, they are written by one mechanism
    hdr_want = {'type': pre.type, 'generated_by': gen}
    if isinstance(pre.table_id, str):
        hdr_want['id'] = pre.table_id
    hdr_got = {k: doc.get(k, '<absent>') for k in hdr_want}
    if hdr_got != hdr_want:
        bad('header-strings', hdr_want, hdr_got)
    if doc.get('date') != DATE.isoformat():
        bad('date', DATE.isoformat(), doc.get('date'))
    if doc.get('shape') != list(pre.A.shape):
        bad('shape', list(pre.A.shape), doc.get('shape'))
    A, why = dense_of_doc(doc)
    if A is None:
        bad('values', pre.A.tolist(), why)
    elif not tu.bits_equal(A, pre.A):
        bad('values', pre.A.tolist(), A.tolist())
    return fails


def _read(reader, text, doc, d):
    import biom
    from biom import Table
    if reader == 'from_json-dict':
        return Table.from_json(json.loads(text))
    if reader == 'parse_table-lines':
        lines = text.splitlines(True) if '\n' in text else [text[i:i + 61] for i in range(0, len(text), 61)]
        return biom.parse_table(lines)
    if reader == 'parse_table-one-line-list':
        return biom.parse_table([text])
    path = os.path.join(d, 't.biom')
    if reader == 'load_table-gzip-path':
        path += '.gz'
        with gzip.open(path, 'wb') as fh:
            fh.write(text.encode('utf-8'))
        return biom.load_table(path)
    with io.open(path, 'w', encoding='utf-8', newline='') as fh:
        fh.write(text)
    if reader == 'load_table-path':
        return biom.load_table(path)
    if reader == 'parse_table-handle':
        with io.open(path, encoding='utf-8') as fh:
            return biom.parse_table(fh)
    raise ValueError(reader)


def check_reader(reader, text, doc, d):
    """[(clause-suffix, expected, observed)] of one reader against ViewOf(doc)"""
    out = []
    try:
        t2 = _read(reader, text, doc, d)
    except Exception as e:
        return [('no-exception', 'a Table', '%s: %s' % (type(e).__name__, str(e)[:200]))]
    bad = rt.inv(t2)
    if bad:
        out.append(('Inv', [], bad))
    v = rt.view(t2)
    want_obs = [r['id'] for r in doc['rows']]
    want_samp = [c['id'] for c in doc['columns']]
    if v.obs != want_obs:
        out.append(('obs-ids', want_obs, v.obs))
    if v.samp != want_samp:
        out.append(('samp-ids', want_samp, v.samp))
    for name, got, want in (('obs-md', v.obs_md, [r['metadata'] for r in doc['rows']]),
                            ('samp-md', v.samp_md, [c['metadata'] for c in doc['columns']])):
        if all(w is None for w in want):
            want = None
        elif got is not None:
            # per-ID null metadata is an empty mapping once attached to a table
            want = [w if w is not None else {} for w in want]
        if not tu.same_md(got, want):
            out.append((name, want, got))
    if v.type != doc['type']:
        out.append(('type', doc['type'], v.type))
    if v.generated_by != doc['generated_by']:
        out.append(('generated-by', doc['generated_by'], v.generated_by))
    want_date = datetime.fromisoformat(doc['date'])
    if v.create_date != want_date:
        out.append(('creation-date', want_date.isoformat(), repr(v.create_date)))
    A, why = dense_of_doc(doc)
    if A is not None and not tu.bits_equal(v.A, A):
        out.append(('values', A.tolist(), v.A.tolist()))
    return out


def _core(case):
    """all failing clauses of one case, classes not yet minimised"""
    cls = tu.wclass(case)
    fails = []
    t = tu.build(case)
    pre = rt.view(t)
    if 0 in pre.A.shape:
        return [], 0, False          # history emptied an axis: outside 1..N x 1..M
    pre_inv = rt.inv(t)
    if pre_inv:
        return [rt.fail('pre/Inv', cls, [], pre_inv)], 1, False
    gen = tu.header_of(case)[2]
    n = 0
    # --- returned-string form ------------------------------------------------
    text = doc = None
    n += 1
    try:
        text = t.to_json(gen, creation_date=DATE)
        if not isinstance(text, str):
            fails.append(rt.fail('string/returns-text', cls, 'str', type(text).__name__))
            text = None
    except Exception as e:
        fails.append(rt.fail('string/returns-text', cls, 'a JSON text', '%s: %s' % (type(e).__name__, str(e)[:200])))
    if text is not None:
        try:
            doc = strict_loads(text)
        except (ValueError, _Dup) as e:
            fails.append(rt.fail('string/wellformed', cls, 'well-formed JSON', '%s: %s | %s' % (
                type(e).__name__, str(e)[:120], text[:160])))
    # --- streamed form, on a fresh table in the same state --------------------
    t_b = tu.build(case)
    buf = io.StringIO()
    stext = sdoc = None
    n += 1
    try:
        t_b.to_json(gen, direct_io=buf, creation_date=DATE)
        stext = buf.getvalue()
    except Exception as e:
        fails.append(rt.fail('stream/writes-text', cls, 'a JSON text', '%s: %s' % (type(e).__name__, str(e)[:200])))
    if stext is not None:
        try:
            sdoc = strict_loads(stext)
        except (ValueError, _Dup) as e:
            fails.append(rt.fail('stream/wellformed', cls, 'well-formed JSON', '%s: %s | %s' % (
                type(e).__name__, str(e)[:120], stext[:160])))
    if doc is not None and sdoc is not None and not tu.same_md_value(doc, sdoc):
        diff = sorted(k for k in set(doc) | set(sdoc) if not tu.same_md_value(doc.get(k, '<absent>'), sdoc.get(k, '<absent>')))
        fails.append(rt.fail('stream/same-document', cls, 'same document as the returned string', 'differs in %s' % diff))
    # --- the document is DocOf(view(self)) -------------------------------------
    the_text, the_doc = (text, doc) if doc is not None else (stext, sdoc)
    if the_doc is not None:
        fails += check_doc(the_doc, pre, gen, cls)
    # --- readers against the document ------------------------------------------
    ok_shape = (the_doc is not None and isinstance(the_doc, dict) and
                all(k in the_doc for k in ('rows', 'columns', 'shape', 'data', 'type', 'generated_by', 'date')))
    if ok_shape:
        results = {}
        with tu.tmpdir() as d:
            for r in READERS:
                n += 1
                results[r] = check_reader(r, the_text, the_doc, d)
        clauses = {}
        for r, res in results.items():
            for (c, exp, obs) in res:
                clauses.setdefault(c, []).append((r, exp, obs))
        for c, lst in clauses.items():
            if len(lst) == len(READERS):
                fails.append(rt.fail('read/' + c, cls, lst[0][1], {'every reader, e.g. ' + lst[0][0]: lst[0][2]}))
            else:
                for (r, exp, obs) in lst:
                    fails.append(rt.fail('read/' + c, cls + '+reader-' + r, exp, obs))
    return fails, n, bool(np.any(pre.A != 0))


def _reader_tag(f, mc):
    w = f['wclass']
    return [p for p in w.split('+') if p.startswith('reader-')]


def run_json_case(case):
    fails, n, nontrivial = _core(case)
    if fails:
        fails = tu.relabel(case, fails, lambda c: _core(c)[0], tagger=_reader_tag)
    return {'fails': fails, 'nontrivial': nontrivial, 'n': n}


SCOPES = {'json': run_json_case}

BASES = [[[1.0, 0.0, 2.0], [0.0, 3.0, 0.0], [4.0, 5.0, 0.0]],
         [[0.0, 2.0], [1.0, 1.0], [0.0, 0.0]],
         [[7.0]],
         [[0.5, 0.25, 0.0, 8.0]]]
ID_KINDS = ('plain', 'punct', 'nonascii', 'long', 'numeric', 'hostile')
MD_KINDS = ('none', 'text', 'num', 'tax', 'slash', 'hostile', 'nested', 'npscalar', 'npbool')
HISTORIES = (['sort_samples_rev'], ['sort_obs_rev'], ['subsample'], ['subsample_obs'], ['transpose'],
             ['filter_first_sample'], ['halve'], ['copy'], ['read_obs'],
             ['sort_samples_rev', 'subsample'], ['subsample', 'sort_samples_rev'], ['sort_samples_rev', 'transpose'],
             ['filter_first_sample', 'sort_obs_rev'], ['subsample', 'halve'])


def cases(tier, seed=0):
    quick = tier == 'quick'
    # 1. every small matrix x layout x stored zeros
    for st in tu.matrix_states(tier):
        yield st
    # 2. value stress: magnitudes below 1e-6, > 6 decimals, huge, subnormal, negative
    for dm in tu.value_matrices():
        for lay in rt.LAYOUTS:
            for z in ('nz', 'z1'):
                if z != 'nz' and not np.any(dm == 0):
                    continue
                yield {'A': dm.tolist(), 'layout': lay, 'zeros': z}
    # 3. strings: ID alphabets x metadata kinds x header strings on fixed matrices
    for bi, A in enumerate(BASES):
        for ids in ID_KINDS:
            for lay in rt.LAYOUTS:
                yield {'A': A, 'layout': lay, 'zeros': 'z1' if bi < 2 else 'nz', 'ids': ids}
        for md in MD_KINDS[1:]:
            for which in (('obs_md',), ('samp_md',), ('obs_md', 'samp_md')):
                c = {'A': A, 'layout': rt.LAYOUTS[bi % 3], 'zeros': 'nz'}
                for w in which:
                    c[w] = md
                yield c
        for h in tu.HEADERS:
            if h == 'plain':
                continue
            yield {'A': A, 'layout': rt.LAYOUTS[bi % 3], 'zeros': 'nz', 'header': h}
    # mixed: hostile everything but the header; then with it
    yield {'A': BASES[0], 'layout': 'csr_unsorted', 'zeros': 'z1', 'ids': 'hostile', 'obs_md': 'hostile', 'samp_md': 'nested'}
    yield {'A': BASES[1], 'layout': 'csc', 'zeros': 'zall', 'ids': 'nonascii', 'obs_md': 'tax', 'samp_md': 'npscalar',
           'header': 'nonascii'}
    # 4. histories: reordering / subsampling / transposing / in-place operations before writing
    for bi, A in enumerate(BASES[:2] + [[[3.0, 0.0, 1.0], [2.0, 2.0, 0.0]]]):
        for h in HISTORIES:
            for lay in (rt.LAYOUTS if not quick else (rt.LAYOUTS[bi % 3],)):
                yield {'A': A, 'layout': lay, 'zeros': 'nz', 'history': h, 'obs_md': 'tax' if bi == 0 else 'none',
                       'samp_md': 'text' if bi == 0 else 'none'}
    # 5. thorough: seeded random tables up to 6x6 over the whole value domain x random features
    if not quick:
        rng = np.random.default_rng(1000 + int(seed))
        hk = list(tu.HEADERS)
        for k in range(4000):
            A = tu.random_matrix(rng)
            c = {'A': A.tolist(), 'layout': rt.LAYOUTS[int(rng.integers(0, 3))],
                 'zeros': rt.ZEROS[int(rng.integers(0, 3))] if np.any(A == 0) else 'nz'}
            if rng.random() < 0.5:
                c['ids'] = ID_KINDS[int(rng.integers(0, len(ID_KINDS)))]
            if rng.random() < 0.4:
                c['obs_md'] = MD_KINDS[int(rng.integers(0, len(MD_KINDS) - 1))]     # npbool only in the fixed block
            if rng.random() < 0.4:
                c['samp_md'] = MD_KINDS[int(rng.integers(0, len(MD_KINDS) - 1))]
            if rng.random() < 0.15:
                c['header'] = hk[int(rng.integers(0, len(hk)))]
            if rng.random() < 0.2 and min(A.shape) > 1:
                c['history'] = [['sort_samples_rev'], ['sort_obs_rev'], ['transpose'], ['copy'], ['read_obs']][int(rng.integers(0, 5))]
            yield c


def run(rep):
    from props import common
    if 'deductive' in rep.only:
        common.run_deductive(rep, 'C02')
    if 'bounded' in rep.only:
        q = rep.tier == 'quick'
        bound = ('every matrix over {0,1,2} up to %s x layout (csr, csr-unsorted, csc) x stored zeros (none/one/all); '
                 'value-stress matrices (below 1e-6, > 6 decimals, subnormal, 1e22, max double, negative) x layouts; '
                 'ID alphabets {plain, punct, nonascii, 300 chars, numeric, quotes/backslashes/control chars} x '
                 'metadata kinds {text, numbers/bool, lists, slash keys, hostile strings, nested/null, numpy scalars, '
                 'numpy bool} on either/both axes x header strings (table id/type/generated-by with quotes, '
                 'backslashes, control characters, non-ASCII, null); histories (sort_order, subsample, transpose, '
                 'in-place filter/transform, copy, read accessor) before writing%s; each case: string form, '
                 'direct_io form, and 6 readers (load_table path / gzip path, parse_table handle / lines / one-line '
                 'list, from_json dict)' % ('2x2 (+ every 7th of 2x3, 3x2)' if q else '2x3/3x2 (+ every 5th of 3x3)',
                                            '' if q else '; 4000 seeded random tables up to 6x6 over all finite doubles'))
        rt.run_scope(rep, 'json', bound, cases(rep.tier, rep.seed), run_json_case, exhaustive=q, chunk=32)
        rep.trust('CPython json module (strict parser used as the independent well-formedness oracle)',
                  'gzip / utf-8 codecs of the standard library')
    common.finish_notes(rep, 'C02')


def replay(case):
    return rt.replay_case('C02', case)
