"""C14 - Subsetting while reading equals reading everything and then filtering.

Bounded part (this file).  Contract, per request (axis, list of text IDs in some order):

  HDF5 (file written by Table.to_hdf5 into a temp dir), variants
    from_hdf5            Table.from_hdf5(h, ids=..., axis=...)                      -> filter, then drop
    from_hdf5-no-md      Table.from_hdf5(h, ids=..., axis=..., subset_with_metadata=False)
                                                                                     -> IDs and matrix of filter
                                                                                        (drop or not: both accepted,
                                                                                        the variant documents neither)
    parse_table          biom.parse_table(h, ids=..., axis=...)                     -> filter, then drop
    subset_table         biom.cli.table_subsetter._subset_table(path, None, axis, ids) -> filter, then drop
  JSON (text written by Table.to_json, as written / compact / spaced / indented)
    parse_table          biom.parse_table(StringIO(text), ids=..., axis=...)        -> filter, then drop
    slicer               ''.join(_subset_table(None, text, axis, ids)[0])           -> filter (documented: emptied
                                                                                        vectors may remain); output must
                                                                                        be a JSON BIOM document
  "filter" keeps exactly the requested IDs in file order with their vectors and metadata and leaves the other
  axis alone; "drop" then removes other-axis vectors without a non-zero entry.
  unknown-id-refused: a request naming an ID that is not in the file raises (HDF5 variants and the command's
  _subset_table on JSON and HDF5).
  cli/...: the same contract on the output file of the real `biom subset-table` click command.

Oracle ("loading the whole file"): the HDF5 file decoded by the independent BIOM 2.1 reader
(h5_util.decode21, raw h5py) / the JSON text decoded by the standard library; filtering and dropping are numpy
slicing (h5_util.subset_view).  No reader or filter of the library is used to compute an expected value.

Clause tags (suffix of the witness class after ':'): the variant; for the JSON slicer also the axis and, when only
some serialisations fail, which ones.  A clause that fails in from_hdf5 is not reported again for parse_table /
subset_table on HDF5, which only delegate to it.
"""
import io
import json
import os
import random

import numpy as np

from pyvc import rt
from props import h5_util as U

LEVEL = 'other'
UNKNOWN = 'no-such-id'
HDF5_VARIANTS = ('from_hdf5', 'from_hdf5-no-md', 'parse_table', 'subset_table')


def requests(n, seed, full=True):
    """lists of positions: every non-empty subset of range(n) in every order for n <= 3; for larger axes the
    singletons, everything (ascending, descending) and seeded random subsets in random order"""
    if n <= 3:
        return list(U.orderings(n, full=full))
    rnd = random.Random(seed)
    out = [[k] for k in range(n)] + [list(range(n)), list(range(n))[::-1]]
    # pairs whose positions are far apart (position sets of a long axis do not iterate in ascending order)
    out += [[a, b] for a in range(n) for b in range(a + 1, n) if b - a in (7, 8)][:6]
    for _ in range(8):
        r = rnd.randint(2, n - 1)
        out.append(rnd.sample(range(n), r))
    return out


def _cmp_table(got, exp, drop_either=None, header=True, md=True):
    """raw records; drop_either: alternative expectation also accepted (metadata-free variant)"""
    def one(e):
        fs = U.compare_core(got, e, '', exact=True)
        if not md:
            fs = [f for f in fs if not f['clause'].endswith('-md')]
        return fs
    fs = one(exp)
    if fs and drop_either is not None:
        alt = one(drop_either)
        if not alt:
            fs = []
    if header and not fs:
        fs += U.compare_header(got, exp, '')
    return fs


# --------------------------------------------------------------------------
# HDF5
# --------------------------------------------------------------------------

def _hdf5_call(variant, path, h, axis, ids):
    import biom
    from biom import Table
    from biom.cli.table_subsetter import _subset_table
    if variant == 'from_hdf5':
        return Table.from_hdf5(h, ids=ids, axis=axis)
    if variant == 'from_hdf5-no-md':
        return Table.from_hdf5(h, ids=ids, axis=axis, subset_with_metadata=False)
    if variant == 'parse_table':
        return biom.parse_table(h, ids=ids, axis=axis)
    if variant == 'subset_table':
        res, fmt = _subset_table(path, None, axis, ids)
        if fmt != 'hdf5':
            raise AssertionError('format %r' % fmt)
        return res
    raise ValueError(variant)


def evaluate_hdf5(case, until=None):
    import h5py
    t = U.build(case)
    axis = case['axis']
    gen = U.GENERATED_BY[case.get('gen', 'plain')]
    per = {v: {} for v in HDF5_VARIANTS}       # variant -> clause -> first record

    def note(variant, rec, req):
        if rec['clause'] not in per[variant]:
            rec = dict(rec)
            rec['observed'] = {'request': req, 'got': rec['observed']}
            per[variant][rec['clause']] = rec
            if until == (rec['clause'], variant) and not (
                    variant in ('parse_table', 'subset_table') and rec['clause'] in per['from_hdf5']):
                raise U.Found()

    try:
        _evaluate_hdf5_body(case, t, axis, gen, note)
    except U.Found:
        pass
    fails = []
    for variant in HDF5_VARIANTS:
        for clause, rec in per[variant].items():
            if variant in ('parse_table', 'subset_table') and clause in per['from_hdf5']:
                continue                      # delegates to from_hdf5: same failure
            fails.append(U.raw(clause, rec['expected'], rec['observed'], variant))
    return fails


evaluate_hdf5.supports_until = True
evaluate_hdf5.count = 0


def _evaluate_hdf5_body(case, t, axis, gen, note):
    import h5py
    count = 0
    with U.tmpdir() as d:
        path = os.path.join(d, 'table.biom')
        with h5py.File(path, 'w') as h:
            t.to_hdf5(h, gen, compress=bool(case.get('compress', False)), creation_date=U.FIXED_DATE)
        full, _ = U.read_file_view(path)              # independent decoder: "the whole file"
        all_ids = full.ids(axis)
        reqs = requests(len(all_ids), case.get('rseed', 0), full=case.get('full_orderings', True))
        with h5py.File(path, 'r') as h:
            for pos in reqs:
                ids = [all_ids[k] for k in pos]
                exp_drop = U.subset_view(full, axis, ids, drop=True)
                exp_keep = U.subset_view(full, axis, ids, drop=False)
                for variant in HDF5_VARIANTS:
                    count += 1
                    try:
                        got = rt.view(_hdf5_call(variant, path, h, axis, ids))
                    except Exception as e:
                        note(variant, U.raw('no-exception', 'a table', U.exc_text(e)), ids)
                        continue
                    if variant == 'from_hdf5-no-md':
                        fs = _cmp_table(got, exp_keep, drop_either=exp_drop, header=False, md=False)
                    else:
                        fs = _cmp_table(got, exp_drop)
                    for f in fs:
                        note(variant, f, ids)
            # requests naming an unknown ID are refused
            longest = max(all_ids, key=len)
            for req in ([UNKNOWN], [all_ids[0], UNKNOWN], [UNKNOWN] + list(all_ids),
                        # an unknown id that merely extends / truncates a stored one
                        [longest + '0'], [longest + ' x', all_ids[0]], [longest[:-1]] if len(longest) > 1 and longest[:-1] not in all_ids else [UNKNOWN]):
                for variant in HDF5_VARIANTS:
                    count += 1
                    try:
                        res = _hdf5_call(variant, path, h, axis, req)
                    except Exception:
                        continue
                    note(variant, U.raw('unknown-id-refused', 'an exception',
                                        'returned a %s table' % (tuple(res._data.shape),)), req)
    evaluate_hdf5.count = count


def run_hdf5_case(case):
    try:
        raw = evaluate_hdf5(case)
    except U.SkipCase:
        return {'fails': [], 'nontrivial': False, 'n': 0}
    n = evaluate_hdf5.count
    return {'fails': U.reduce_fails(case, raw, evaluate_hdf5) if raw else [], 'nontrivial': True, 'n': n}


# --------------------------------------------------------------------------
# JSON
# --------------------------------------------------------------------------

HEADER_KEYS = ('id', 'format', 'format_url', 'type', 'generated_by', 'date', 'matrix_type', 'matrix_element_type')


def _json_text(case):
    t = U.build(case)
    text = t.to_json(U.GENERATED_BY[case.get('gen', 'plain')])
    try:
        doc = json.loads(text)
        full = U.json_view(doc)
    except ValueError as e:
        raise U.SkipCase('to_json output is not a JSON BIOM document (property C02): %s' % e)
    return text, doc, full


def _slice_json(text, axis, ids):
    from biom.cli.table_subsetter import _subset_table
    res, fmt = _subset_table(None, text, axis, ids)
    if fmt != 'json':
        raise AssertionError('format %r' % fmt)
    return ''.join(res)


def check_sliced(out_text, doc, exp):
    """raw records for the text produced by the JSON slicer"""
    try:
        out = json.loads(out_text)
    except ValueError as e:
        return [U.raw('slicer/returns-json-document', 'a JSON document', '%s in %r' % (e, out_text[:400]))]
    try:
        got = U.json_view(out)
    except (ValueError, KeyError, TypeError) as e:
        return [U.raw('slicer/output-is-biom', 'a BIOM 1.0 document', '%s in %r' % (e, out_text[:400]))]
    fs = U.compare_core(got, exp, 'slicer/', exact=True)
    hdr_want = {k: doc.get(k) for k in HEADER_KEYS}
    hdr_got = {k: out.get(k) for k in HEADER_KEYS}
    if not fs and hdr_want != hdr_got:
        fs.append(U.raw('slicer/header', hdr_want, hdr_got))
    return fs


def evaluate_json(case):
    import biom
    text, doc, full = _json_text(case)
    axis = case['axis']
    atag = 'samp' if axis == 'sample' else 'obs'
    forms = {f: U.reserialise(text, f) for f in U.JSON_FORMS}
    all_ids = full.ids(axis)
    reqs = requests(len(all_ids), case.get('rseed', 0), full=case.get('full_orderings', True))
    seen = {}            # (kind, clause) -> {form: record}
    count = 0

    def note(kind, form, rec, req):
        d = seen.setdefault((kind, rec['clause']), {})
        if form not in d:
            rec = dict(rec)
            rec['observed'] = {'request': req, 'serialisation': form, 'got': rec['observed']}
            d[form] = rec

    for pos in reqs:
        ids = [all_ids[k] for k in pos]
        exp_drop = U.subset_view(full, axis, ids, drop=True)
        exp_keep = U.subset_view(full, axis, ids, drop=False)
        for form, txt in forms.items():
            count += 2
            try:
                got = rt.view(biom.parse_table(io.StringIO(txt), ids=ids, axis=axis))
            except Exception as e:
                note('parse_table', form, U.raw('no-exception', 'a table', U.exc_text(e)), ids)
            else:
                fs = U.compare_core(got, exp_drop, '', exact=True)
                if not fs and got.type != full.type:
                    fs.append(U.raw('type', full.type, got.type))
                for f in fs:
                    note('parse_table', form, f, ids)
            try:
                out_text = _slice_json(txt, axis, ids)
            except Exception as e:
                note('slicer', form, U.raw('slicer/returns-json-document', 'a JSON document', U.exc_text(e)), ids)
            else:
                for f in check_sliced(out_text, doc, exp_keep):
                    note('slicer', form, f, ids)
    for known in ([], [all_ids[0]], list(all_ids)):
        for form, txt in forms.items():
            count += 1
            req = known + [UNKNOWN]
            try:
                _slice_json(txt, axis, req)
            except Exception:
                continue
            note('slicer', form, U.raw('unknown-id-refused', 'an exception', 'returned a document'), req)
    fails = []
    for (kind, clause), d in seen.items():
        rec = d.get('written') or next(iter(d.values()))
        tag = kind
        if kind == 'slicer':
            tag += '[' + atag + ']'
        if len(d) < len(forms):
            tag += '-' + '+'.join(f for f in U.JSON_FORMS if f in d)
        fails.append(U.raw(clause, rec['expected'], rec['observed'], tag))
    evaluate_json.count = count
    return fails


_MIRROR_CACHE = {}


def _mirror(case):
    """the same situation on the other axis: transposed matrix, metadata kinds swapped"""
    if case.get('history'):
        return None
    A = np.asarray(case['A'], dtype=float)
    m = dict(case)
    m['A'] = A.T.tolist()
    m['axis'] = 'observation' if case['axis'] == 'sample' else 'sample'
    m['obs_md'], m['samp_md'] = case.get('samp_md', 'none'), case.get('obs_md', 'none')
    if m['obs_md'] not in U.MD_KINDS or m['samp_md'] not in U.MD_KINDS:
        return None
    return m


def run_json_case(case):
    try:
        raw = evaluate_json(case)
    except U.SkipCase:
        return {'fails': [], 'nontrivial': False, 'n': 0}
    n = evaluate_json.count
    fails = U.reduce_fails(case, raw, evaluate_json) if raw else []
    # a slicer failure that also occurs in the mirrored situation on the other axis is not axis-specific
    for f in fails:
        cls = f['wclass']
        for a, b in (('[samp]', '[obs]'), ('[obs]', '[samp]')):
            if a not in cls:
                continue
            key = (f['clause'], cls)
            if key not in _MIRROR_CACHE:
                m = _mirror(f.get('witness') or case)
                both = False
                if m is not None:
                    want_tag = cls.split(':', 1)[1].replace(a, b)
                    try:
                        both = any(x['clause'] == f['clause'] and x.get('tag') == want_tag for x in evaluate_json(m))
                    except Exception:
                        both = False
                _MIRROR_CACHE[key] = both
            f['wclass'] = cls.replace(a, '') if _MIRROR_CACHE[key] else cls.replace(a, '-' + a[1:-1])
            break
    return {'fails': fails, 'nontrivial': True, 'n': n}


# --------------------------------------------------------------------------
# the real `biom subset-table` command
# --------------------------------------------------------------------------

CLI_INPUTS = ('hdf5',) + U.JSON_FORMS


def evaluate_cli(case):
    """The real click command, end to end.  Only requests for which the in-process route (from_hdf5 /
    _subset_table, judged by the other two scopes) already meets the contract are evaluated here, so that this
    scope reports what the command adds: the IDs file, the output file."""
    import h5py
    import biom.cli  # noqa
    from biom import Table
    from biom.cli.table_subsetter import subset_table as subset_cmd
    t = U.build(case)
    axis = case['axis']
    seen = {}           # clause -> {input kind: record}
    n = 0

    def note(kind, clause, expected, observed, req):
        d = seen.setdefault(clause, {})
        if kind not in d:
            d[kind] = U.raw(clause, expected, {'request': req, 'input': kind, 'got': observed})

    with U.tmpdir() as d:
        h5src = os.path.join(d, 'in.h5.biom')
        with h5py.File(h5src, 'w') as h:
            t.to_hdf5(h, 'verif-check 1.0', creation_date=U.FIXED_DATE)
        full_h5, _ = U.read_file_view(h5src)
        text = t.to_json('verif-check 1.0')
        try:
            doc = json.loads(text)
            full_js = U.json_view(doc)
        except ValueError:
            doc = full_js = None
        for kind in CLI_INPUTS:
            if kind == 'hdf5':
                src, full = h5src, full_h5
            else:
                if full_js is None:
                    continue
                src, full = os.path.join(d, 'in.%s.json' % kind), full_js
                txt = U.reserialise(text, kind)
                with open(src, 'w', encoding='utf-8') as fh:
                    fh.write(txt)
            all_ids = full.ids(axis)
            for pos in requests(len(all_ids), 0, full=False):
                for unknown in (False, True):
                    if unknown and len(pos) != 1:
                        continue
                    ids = [all_ids[k] for k in pos] + ([UNKNOWN] if unknown else [])
                    exp = U.subset_view(full, axis, ids, drop=(kind == 'hdf5'))
                    # in-process route first
                    try:
                        if kind == 'hdf5':
                            with h5py.File(src, 'r') as h:
                                ok = not _cmp_table(rt.view(Table.from_hdf5(h, ids=ids, axis=axis)), exp, header=False)
                        else:
                            ok = not check_sliced(_slice_json(txt, axis, ids), doc, exp)
                        refused = False
                    except Exception:
                        ok, refused = False, True
                    if (not unknown and not ok) or (unknown and not refused):
                        continue                  # reported by hdf5-subset / json-subset
                    n += 1
                    idf, dst = os.path.join(d, 'ids%d.txt' % n), os.path.join(d, 'out%d.biom' % n)
                    with open(idf, 'w', encoding='utf-8') as fh:
                        fh.write('#ids to keep\n' + ''.join(i + '\n' for i in ids))
                    args = ['-i' if kind == 'hdf5' else '-j', src, '-a', axis, '-s', idf, '-o', dst]
                    try:
                        # the click sub-command itself (the `biom` group is bypassed: its on-close hook re-opens
                        # fd 1 of the calling process)
                        subset_cmd.main(args=args, prog_name='biom subset-table', standalone_mode=False)
                    except BaseException as e:
                        if isinstance(e, KeyboardInterrupt):
                            raise
                        if not unknown:
                            note(kind, 'cli/no-exception', 'the command succeeds', U.exc_text(e), ids)
                        continue
                    if unknown:
                        note(kind, 'cli/unknown-id-refused', 'the command fails', 'it wrote %s' % os.path.exists(dst), ids)
                        continue
                    try:
                        if kind == 'hdf5':
                            got, _ = U.read_file_view(dst)
                        else:
                            with open(dst, encoding='utf-8') as fh:
                                got = U.json_view(json.load(fh))
                    except Exception as e:
                        note(kind, 'cli/output-decodes', 'a BIOM document', U.exc_text(e), ids)
                        continue
                    for f in U.compare_core(got, exp, 'cli/', exact=True):
                        note(kind, f['clause'], f['expected'], f['observed'], ids)
    fails = []
    for clause, dd in seen.items():
        kinds = [k for k in CLI_INPUTS if k in dd]
        js = [k for k in kinds if k != 'hdf5']
        if 'hdf5' in dd:
            fails.append(U.raw(clause, dd['hdf5']['expected'], dd['hdf5']['observed'], 'cli-hdf5'))
        if js:
            tag = 'cli-json' + ('' if len(js) == len(U.JSON_FORMS) else '-' + '+'.join(js))
            fails.append(U.raw(clause, dd[js[0]]['expected'], dd[js[0]]['observed'], tag))
    evaluate_cli.count = n
    return fails


def run_cli_case(case):
    try:
        raw = evaluate_cli(case)
    except U.SkipCase:
        return {'fails': [], 'nontrivial': False, 'n': 0}
    n = evaluate_cli.count
    return {'fails': U.reduce_fails(case, raw, evaluate_cli) if raw else [], 'nontrivial': n > 0, 'n': n}


SCOPES = {'hdf5-subset': run_hdf5_case, 'json-subset': run_json_case, 'subset-cli': run_cli_case}


# --------------------------------------------------------------------------
# enumeration
# --------------------------------------------------------------------------

def _states(tier, seed):
    q = tier == 'quick'
    k = 0
    for st in U.base_states(tier, seed, small_only=True):
        k += 1
        A = np.asarray(st['A'])
        if A.shape[0] * A.shape[1] > 9:
            st = dict(st, full_orderings=False)
        if q and max(A.shape) <= 2 and (st['layout'], st['zeros']) != (rt.LAYOUTS[_h(A) % 3], _zmode(A)):
            continue          # quick: one layout / stored-zero mode per exhaustive matrix, rotated
        yield st
    if not q:
        # thorough: every 2x3 / 3x2 matrix over {0,1,2} and every 3x3 over {0,1}, layout and zero mode rotated
        for vals, shapes in (((0, 1, 2), [(2, 3), (3, 2)]), ((0, 1), [(3, 3)])):
            for A in rt.matrices(0, 0, values=vals, shapes=shapes):
                yield {'A': A.tolist(), 'layout': rt.LAYOUTS[_h(A) % 3], 'zeros': _zmode(A)}
    for st in U.rich_states(tier):
        k += 1
        if q and k % 2:
            continue
        yield st
    for st in U.header_states():
        yield st
    for st in U.history_states(tier, seed):
        k += 1
        if (q and k % 3) or (not q and (st['ids'] not in ('plain', 'punct') or k % 2)):
            continue
        yield st


def _h(A):
    return int(sum((i + 1) * int(v) for i, v in enumerate(np.asarray(A).ravel()))) + A.shape[0]


def _zmode(A):
    if not np.any(np.asarray(A) == 0):
        return 'nz'
    return rt.ZEROS[(_h(A) // 3) % 3]


def hdf5_cases(tier, seed=0):
    k = 0
    for st in _states(tier, seed):
        for axis in U.AXES:
            k += 1
            yield dict(st, axis=axis, rseed=k + 7919 * int(seed), compress=bool(k % 2))
    for st in _long_axis_cases():
        yield dict(st, compress=False)


def _long_axis_cases():
    """a long axis (10 vectors with pairwise different contents) on either side"""
    long_ = [[float(3 * r + c + 1) if (r + c) % 3 else 0.0 for c in range(2)] for r in range(10)]
    wide = [[float(7 * c + r + 1) if (r + 2 * c) % 4 else 0.0 for c in range(10)] for r in range(2)]
    yield {'A': long_, 'axis': 'observation', 'rseed': 11, 'layout': 'csr', 'zeros': 'nz'}
    yield {'A': wide, 'axis': 'sample', 'rseed': 12, 'layout': 'csr', 'zeros': 'nz'}


def json_cases(tier, seed=0):
    k = 0
    for st in _states(tier, seed):
        for axis in U.AXES:
            k += 1
            yield dict(st, axis=axis, rseed=k + 7919 * int(seed))
    # table ids that contain JSON punctuation
    for axis in U.AXES:
        yield {'A': U.RICH_BASE[0], 'table_id': 'comma', 'axis': axis}
    yield from _long_axis_cases()


def cli_cases(tier):
    q = tier == 'quick'
    k = 0
    for A in U.RICH_BASE + ([[1.0, 2.0], [0.0, 0.0]],):
        for ids in sorted(rt.ID_ALPHABETS):
            if ids == 'padded':
                continue      # the command reads one id per line and strips it: ids with outer blanks cannot be requested
            for omd, smd in (('none', 'none'), ('tax', 'text'), ('mixed', 'text_edge')):
                for axis in U.AXES:
                    k += 1
                    if q and k % 2:
                        continue
                    yield {'A': A, 'ids': ids, 'obs_md': omd, 'samp_md': smd, 'axis': axis,
                           'layout': rt.LAYOUTS[k % 3]}


def run(rep):
    from props import common
    if 'deductive' in rep.only:
        common.run_deductive(rep, 'C14')
    if 'bounded' in rep.only:
        q = rep.tier == 'quick'
        states = ('every matrix over {0,1,2} up to 2x2 %s, value-stress matrices x layouts, %s random '
                  'tables up to %s, ID alphabets x metadata kinds (%s), header/group-metadata states, tables left by '
                  'public operations (%s)' % ('(layout and stored-zero mode rotated over the matrices)' if q else
                                              'x layouts x stored zeros none/one/all (+ every 2x3, 3x2 over {0,1,2} and 3x3 over {0,1}, rotated)',
                                              '24' if q else '560', '3x3' if q else '6x6',
                                              'every 4th' if q else 'all', 'every 3rd' if q else 'every 2nd, 2 alphabets'))
        reqs = ('both axes x every non-empty subset in every order (axes up to 3 IDs; larger: singletons, all '
                'ascending/descending, 8 seeded random ordered subsets)')
        rt.run_scope(rep, 'hdf5-subset', 'files written by to_hdf5: %s x %s x {from_hdf5, from_hdf5 without metadata, '
                     'parse_table(handle), _subset_table(path)} + 3 unknown-ID requests per variant' % (states, reqs),
                     hdf5_cases(rep.tier, rep.seed), run_hdf5_case, chunk=8, exhaustive=False, module='C14')
        rt.run_scope(rep, 'json-subset', 'text written by to_json: %s x %s x serialisation {as written, compact, spaced, '
                     'indented} x {parse_table(ids=), _subset_table JSON slicer} + 3 unknown-ID requests per '
                     'serialisation; + a table id containing a comma and braces' % (states, reqs),
                     json_cases(rep.tier, rep.seed), run_json_case, chunk=8, exhaustive=False, module='C14')
        rt.run_scope(rep, 'subset-cli', 'the `biom subset-table` click command end to end (IDs file, output file): 4 '
                     'matrices x 5 ID alphabets x 3 metadata pairs x axis%s x input {hdf5, 4 JSON serialisations} x '
                     'every non-empty subset ascending/descending + unknown-ID requests (requests whose in-process '
                     'result already violates the contract are left to the other scopes)'
                     % (' (every 2nd)' if q else ''), cli_cases(rep.tier), run_cli_case, chunk=4,
                     exhaustive=False, module='C14')
        rep.trust('h5_util.decode21 / the standard json module as the meaning of "loading the whole file"',
                  'numpy slicing as the meaning of "filtering"')
    common.finish_notes(rep, 'C14')


def replay(case):
    return rt.replay_case('C14', case)
