"""C13 - Value transforms touch only non-zero entries and mean what they say.

Bounded part: the statement evaluated on the real Table.transform / norm / pa /
rankdata and biom.cli.table_normalizer._normalize_table over small Inv-states
(all layouts reachable through the public API, all stored-zero modes),
non-square asymmetric tables, value-stress matrices, ID alphabets, metadata
kinds and operation histories.

Oracle: the dense matrix of rt.view.  For a vector with non-zero cells P and
values x = A[P] (in index order) the expected result is f(x, id, md) written
to P and 0 elsewhere.  Only *permutation-equivariant* functions are used
(element-wise ones, and vector-wise ones that depend on the multiset of the
values: sum, minimum, length), because the statement does not fix the order
in which a vector's non-zero values are presented; for the 'ordinal' rank
method (ties broken by presentation order) the contract is "a permutation of
1..k that respects <".
"""
import os
import numpy as np

from pyvc import rt
from props import values_util as vu

LEVEL = 'other'
AXES = vu.AXES
REL = 1e-12


def _mdkey(md):
    return 0 if md is None else len(repr(sorted(rt.plain(dict(md)).items(), key=repr)))


FUNCS = {
    # element-wise
    'double': lambda v, i, md: v * 2,
    'plus1': lambda v, i, md: v + 1,
    'square': lambda v, i, md: v * v,
    'neg': lambda v, i, md: -v,
    'zero_lt2': lambda v, i, md: np.where(v < 2, 0.0, v),
    'zero_all': lambda v, i, md: v * 0,
    # vector-wise, permutation-equivariant (total on empty arrays)
    'div_sum': lambda v, i, md: v / (np.abs(v).sum() + 1.0),
    'minus_min': lambda v, i, md: (v - v.min()) if len(v) else v,
    'times_len': lambda v, i, md: v * len(v),
    # use the vector's ID / metadata
    'by_id': lambda v, i, md: v * (len(str(i)) % 7 + 2),
    'by_md': lambda v, i, md: v * (_mdkey(md) % 5 + 2),
}
ELEMENTWISE = ('double', 'plus1', 'square', 'neg', 'zero_lt2', 'zero_all')
FLOAT_SAFE = ELEMENTWISE + ('times_len', 'by_id', 'by_md')      # usable on value-stress matrices
RANK_METHODS = ('average', 'min', 'max', 'dense', 'ordinal')


def _ranks(vals, method):
    """independent rank implementation (not scipy.stats)"""
    n = len(vals)
    order = sorted(range(n), key=lambda k: vals[k])
    out = [0.0] * n
    pos = 0
    dense = 0
    while pos < n:
        end = pos
        while end + 1 < n and vals[order[end + 1]] == vals[order[pos]]:
            end += 1
        dense += 1
        for q in range(pos, end + 1):
            k = order[q]
            out[k] = {'average': (pos + end) / 2.0 + 1, 'min': pos + 1, 'max': end + 1, 'dense': dense,
                      'ordinal': q + 1}[method]
        pos = end + 1
    return out


def _expected(pre, axis, fn):
    """dense expected result of applying fn(values, id, md) along axis"""
    E = np.zeros_like(pre.A)
    ids, mds = pre.ids(axis), pre.md(axis)
    for k in range(len(ids)):
        vec = pre.vec(axis, k)
        P = np.nonzero(vec)[0]
        with np.errstate(all='ignore'):
            r = np.asarray(fn(np.array(vec[P], dtype=float), ids[k], None if mds is None else mds[k]), dtype=float)
        if axis == 'sample':
            E[P, k] = r
        else:
            E[k, P] = r
    return E


def _zero_cells(pre, out):
    bad = (pre.A == 0) & ~(out.A == 0)          # catches nan as well
    return [[int(i), int(j), repr(float(out.A[i, j]))] for i, j in zip(*np.nonzero(bad))]


def _same_frame(pre, out):
    return out.obs == pre.obs and out.samp == pre.samp and out.A.shape == pre.A.shape


def _core(case):
    """-> [(clause, expected, observed)]"""
    op = case['op']
    t = vu.build(case)
    pre = rt.view(t)
    if rt.inv(t):
        return [('pre/Inv', [], rt.inv(t))]
    axis, inplace = case.get('axis', 'sample'), case.get('inplace', True)
    fails = []
    with np.errstate(all='ignore'):
        if op == 'transform':
            f = FUNCS[case['f']]
            calls = []

            def wrapped(v, i, md):
                calls.append((np.array(v, dtype=float, copy=True), str(i), None if md is None else rt.plain(dict(md))))
                return f(v, i, md)
            st, res = vu.call_f(lambda: t.transform(wrapped, axis=axis, inplace=inplace))
            if st == 'exc':
                return [('transform/returns', 'a table', res)]
            out = rt.view(res)
            if not _same_frame(pre, out):
                return [('transform/ids-and-shape-kept', [pre.obs, pre.samp], [out.obs, out.samp])]
            # f is applied to exactly the non-zero values of each vector, with its ID and metadata
            ids, mds = pre.ids(axis), pre.md(axis)
            by_id = {}
            for c in calls:
                by_id.setdefault(c[1], []).append(c)
            callfail = None
            if not set(by_id) <= set(ids):
                callfail = ('transform/f-gets-vector-id', ids, sorted(by_id))
            for k, i in enumerate(ids):
                if callfail:
                    break
                vec = pre.vec(axis, k)
                want = sorted(vec[vec != 0].tolist())
                got = by_id.get(i, [])
                if not got and want:
                    callfail = ('transform/f-called-for-each-vector', i, sorted(by_id))
                for c in got:
                    if sorted(c[0].tolist()) != want:
                        callfail = ('transform/f-gets-exactly-the-nonzero-values', {i: want}, {i: c[0].tolist()})
                    elif c[2] != (None if mds is None else mds[k]):
                        callfail = ('transform/f-gets-vector-metadata', {i: None if mds is None else mds[k]}, {i: c[2]})
            if callfail:
                fails.append(callfail)
            else:
                z = _zero_cells(pre, out)
                if z:
                    fails.append(('transform/zero-cells-stay-zero', [], z))
                else:
                    E = _expected(pre, axis, f)
                    if not vu.close(out.A, E, REL):
                        fails.append(('transform/values-written-to-same-cells', E.tolist(), out.A.tolist()))
                    if np.count_nonzero(out.A) > np.count_nonzero(pre.A):
                        fails.append(('transform/density-never-increases', int(np.count_nonzero(pre.A)),
                                      int(np.count_nonzero(out.A))))
            if inplace and rt.view(t).diff(out, fields=('obs', 'samp', 'A')):
                fails.append(('transform/inplace-result-is-receiver', out.A.tolist(), rt.view(t).A.tolist()))
            if rt.inv(res):
                fails.append(('transform/post/Inv', [], rt.inv(res)))
        elif op in ('norm', 'cli-norm'):
            if op == 'norm':
                st, res = vu.call_f(lambda: t.norm(axis=axis, inplace=inplace))
            elif case.get('via') == 'command':
                st, res = vu.call_f(lambda: _run_command(t, ['-r', '-a', axis]))
            else:
                from biom.cli.table_normalizer import _normalize_table
                st, res = vu.call_f(lambda: _normalize_table(t, relative_abund=True, presence_absence=False, axis=axis))
            if st == 'exc':
                return [('%s/returns' % op, 'a table', res)]
            out = rt.view(res)
            if not _same_frame(pre, out):
                return [('%s/ids-and-shape-kept' % op, [pre.obs, pre.samp], [out.obs, out.samp])]
            z = _zero_cells(pre, out)
            if z:
                fails.append(('%s/zero-cells-stay-zero' % op, [], z))
            else:
                for k in range(len(pre.ids(axis))):
                    old, new = pre.vec(axis, k), out.vec(axis, k)
                    tot = old.sum()
                    if tot > 0:
                        if not abs(new.sum() - 1.0) <= 1e-12:
                            fails.append(('%s/positive-total-sums-to-1' % op, 1.0, new.tolist()))
                            break
                        if not vu.close(new, old / tot, REL):
                            fails.append(('%s/proportions-preserved' % op, (old / tot).tolist(), new.tolist()))
                            break
        elif op in ('pa', 'cli-pa'):
            if op == 'pa':
                st, res = vu.call_f(lambda: t.pa(inplace=inplace))
            elif case.get('via') == 'command':
                st, res = vu.call_f(lambda: _run_command(t, ['-p', '-a', axis]))
            else:
                from biom.cli.table_normalizer import _normalize_table
                st, res = vu.call_f(lambda: _normalize_table(t, relative_abund=False, presence_absence=True, axis=axis))
            if st == 'exc':
                return [('%s/returns' % op, 'a table', res)]
            out = rt.view(res)
            E = (pre.A != 0).astype(float)
            if not _same_frame(pre, out) or not np.array_equal(out.A, E):
                fails.append(('%s/1-exactly-where-nonzero' % op, E.tolist(), out.A.tolist()))
        elif op == 'rank':
            method = case['method']
            st, res = vu.call_f(lambda: t.rankdata(axis=axis, inplace=inplace, method=method))
            if st == 'exc':
                return [('rankdata/returns', 'a table', res)]
            out = rt.view(res)
            if not _same_frame(pre, out):
                return [('rankdata/ids-and-shape-kept', [pre.obs, pre.samp], [out.obs, out.samp])]
            z = _zero_cells(pre, out)
            if z:
                fails.append(('rankdata/zero-cells-stay-zero', [], z))
            elif method != 'ordinal':
                E = _expected(pre, axis, lambda v, i, md: _ranks(v.tolist(), method))
                if not vu.close(out.A, E, REL):
                    fails.append(('rankdata/ranks-of-nonzero-values', E.tolist(), out.A.tolist()))
            else:
                for k in range(len(pre.ids(axis))):
                    old, new = pre.vec(axis, k), out.vec(axis, k)
                    P = np.nonzero(old)[0]
                    r, x = new[P], old[P]
                    ok = sorted(r.tolist()) == [float(q) for q in range(1, len(P) + 1)]
                    ok = ok and all(r[a] < r[b] for a in range(len(P)) for b in range(len(P)) if x[a] < x[b])
                    if not ok:
                        fails.append(('rankdata/ranks-of-nonzero-values', 'a permutation of 1..k respecting <',
                                      {'values': old.tolist(), 'ranks': new.tolist()}))
                        break
        elif op == 'axes':
            f = FUNCS[case['f']]
            t2 = vu.build(case)
            st, a = vu.call_f(lambda: t.transform(f, axis='sample', inplace=inplace))
            st2, b = vu.call_f(lambda: t2.transform(f, axis='observation', inplace=inplace))
            if st == 'exc' or st2 == 'exc':
                return [('elementwise/returns', 'tables', [a if st == 'exc' else 'ok', b if st2 == 'exc' else 'ok'])]
            va, vb = rt.view(a), rt.view(b)
            if va.diff(vb, fields=('obs', 'samp', 'A')):
                fails.append(('elementwise/same-table-on-either-axis', va.A.tolist(), vb.A.tolist()))
        else:
            raise ValueError(op)
        if op in ('norm', 'pa', 'rank', 'cli-norm', 'cli-pa'):
            name = {'rank': 'rankdata'}.get(op, op)
            if (inplace or op.startswith('cli')) and case.get('via') != 'command' \
                    and rt.view(t).diff(out, fields=('obs', 'samp', 'A')):
                fails.append(('%s/inplace-result-is-receiver' % name, out.A.tolist(), rt.view(t).A.tolist()))
            if rt.inv(res):
                fails.append(('%s/post/Inv' % name, [], rt.inv(res)))
    return fails


def run_case(case):
    fails = _core(case)
    A = np.asarray(case['A'])
    return {'fails': vu.classify(case, fails, _core), 'n': 1, 'nontrivial': bool(np.any(A != 0))}


run_case = vu.history_guard(run_case)
def _run_command(t, opts):
    """the real `biom normalize-table` command function on a file written from the state (files under a temp dir)"""
    import shutil, tempfile
    from biom import load_table
    from biom.cli.table_normalizer import normalize_table
    from biom.util import biom_open
    d = tempfile.mkdtemp(prefix='pyvc_c13_')
    try:
        src, dst = os.path.join(d, 'in.biom'), os.path.join(d, 'out.biom')
        with biom_open(src, 'w') as fh:
            t.to_hdf5(fh, 'verif')
        try:
            normalize_table.main(['-i', src, '-o', dst] + list(opts), standalone_mode=False)
        except SystemExit as e:
            if e.code not in (0, None):
                raise RuntimeError('normalize-table exited with %r' % (e.code,))
        return load_table(dst)
    finally:
        shutil.rmtree(d, ignore_errors=True)


SCOPES = {'transform': run_case, 'norm-pa-rank': run_case, 'elementwise-axes': run_case, 'normalize-table': run_case}


# --------------------------------------------------------------------------
# enumeration
# --------------------------------------------------------------------------

NONNEG_STRESS = [
    np.array([[0.5, 1.0 / 3.0, 0.0], [1e-7, 0.0, 1e22]]),
    np.array([[5e-324, 0.0], [5e-324, 1.0], [0.0, 1.7976931348623157e308]]),
    np.array([[1e-7]]),
    np.array([[0.0, 0.0], [0.0, 3.0]]),
    np.array([[1.23456789012, 3.0, 0.1], [0.2, 0.0, 0.7]]),
]


def _states(tier):
    """(state, kind): kind 'count' (all functions, norm), 'stress' (element-wise only, no norm),
    'nonneg' (element-wise + norm)"""
    q = tier == 'quick'
    for dm in vu.small_matrices(tier):
        for st in vu.rep_states(dm):
            yield st, 'count'
    for dm in vu.ASYM:
        for st in vu.rep_states(dm):
            yield st, 'count'
    for k, dm in enumerate(rt.matrices(0, 0, values=(0, 1, 2, 5), shapes=[(2, 3), (3, 2)])):
        if k % (97 if q else 17) == 0:
            for st in vu.rep_states(dm):
                yield st, 'count'
    for dm in rt.stress_matrices():
        for st in vu.rep_states(dm):
            yield st, 'stress'
    for dm in NONNEG_STRESS:
        for st in vu.rep_states(dm):
            yield st, 'nonneg'
    for ids, omd, smd in vu.md_id_variants():
        for dm in vu.ASYM[:3]:
            for lay, z in (('csr', 'z1'), ('csr_unsorted', 'nz'), ('csc', 'zall')):
                yield dict(A=dm.tolist(), layout=lay, zeros=z, ids=ids, obs_md=omd, samp_md=smd), 'count'
    for hist in vu.STD_HISTORIES:
        for dm in vu.ASYM[:3] if q else vu.ASYM:
            for lay, z in (('csr', 'z1'), ('csr_unsorted', 'zall'), ('csc', 'nz')):
                yield dict(A=dm.tolist(), layout=lay, zeros=z, hist=list(hist), obs_md='text', samp_md='num'), 'count'
    if not q:
        for dm in vu.random_tables(1234, 60):
            for st in vu.rep_states(dm):
                yield st, 'count'


def transform_cases(tier):
    q = tier == 'quick'
    for k, (st, kind) in enumerate(_states(tier)):
        names = list(FUNCS) if kind == 'count' else list(FLOAT_SAFE)
        small = q and kind == 'count' and 'ids' not in st and 'hist' not in st
        for a, axis in enumerate(AXES):
            for inplace in (True, False):
                for m, f in enumerate(names):
                    if small and bool((k + a + m) % 2) != inplace:
                        continue            # quick: in place / not in place alternate over the exhaustive states
                    yield dict(st, op='transform', axis=axis, inplace=inplace, f=f)


def npr_cases(tier):
    for k, (st, kind) in enumerate(_states(tier)):
        for axis in AXES:
            for inplace in (True, False):
                if kind in ('count', 'nonneg'):
                    yield dict(st, op='norm', axis=axis, inplace=inplace)
            for m, method in enumerate(RANK_METHODS):
                yield dict(st, op='rank', axis=axis, inplace=bool((k + m) % 2), method=method)
        for inplace in (True, False):
            yield dict(st, op='pa', inplace=inplace)


def axes_cases(tier):
    for st, kind in _states(tier):
        for f in ELEMENTWISE:
            yield dict(st, op='axes', f=f, inplace=False)
        yield dict(st, op='axes', f='double', inplace=True)


def cli_cases(tier):
    n = 0
    for st, kind in _states(tier):
        for axis in AXES:
            n += 1
            # every 7th state goes through the command function itself (file in, file out), the others through its helper
            via = 'command' if n % 7 == 0 and min(np.shape(st['A'])) > 0 else 'helper'
            if kind in ('count', 'nonneg'):
                yield dict(st, op='cli-norm', axis=axis, via=via)
            yield dict(st, op='cli-pa', axis=axis, via=via)


def run(rep):
    from props import common
    if 'deductive' in rep.only:
        common.run_deductive(rep, 'C13')
    if 'bounded' in rep.only:
        q = rep.tier == 'quick'
        states = ('every matrix over {0,1,2} up to 2x2 + %s of 2x3/3x2%s + 7 non-square asymmetric tables + sampled '
                  '2x3/3x2 over {0,1,2,5}, each x every layout (csr, csr-unsorted, csc) x stored zeros (none/one/all); '
                  'value-stress matrices; 8 ID-alphabet/metadata-kind combinations; 9 operation histories%s'
                  % ('every 11th' if q else 'all', '' if q else ' + every 29th 3x3', '' if q else '; 60 random tables up to 6x6'))
        rt.run_scope(rep, 'transform', states + ' x axis x inplace x 11 functions (6 element-wise incl. zeroing and '
                     'shifting ones, 3 vector-wise, 2 using ID/metadata): call log, zero cells, values, density',
                     transform_cases(rep.tier), run_case, exhaustive=True)
        rt.run_scope(rep, 'norm-pa-rank', states + ' x axis x inplace: norm (non-negative tables), pa, rankdata with '
                     'all 5 tie methods against an independent rank implementation',
                     npr_cases(rep.tier), run_case, exhaustive=True)
        rt.run_scope(rep, 'elementwise-axes', states + ' x 6 element-wise functions: transform along samples == along '
                     'observations', axes_cases(rep.tier), run_case, exhaustive=True)
        rt.run_scope(rep, 'normalize-table', states + ' x axis: biom.cli.table_normalizer._normalize_table in both modes',
                     cli_cases(rep.tier), run_case, exhaustive=True)
    common.finish_notes(rep, 'C13')


def replay(case):
    return rt.replay_case('C13', case)
