"""C10 - Concatenation places every operand's block unchanged and pads with zeros.

Bounded part: the contract of Table.concat / biom.concat evaluated on the real
functions for k = 1..3 operands with pairwise disjoint IDs on the
concatenation axis and identical / permuted / partially missing / disjoint IDs
on the other axis, both axes, operands with and without metadata, the single
table and the list calling forms, every operand layout (rt.LAYOUTS x rt.ZEROS)
and prior histories; plus non-disjoint operand sets, which must be refused.
Oracle: dense dictionaries keyed by (observation id, sample id) from raw views.
"""
import math
import random

from pyvc import rt
from props import combine_util as cu

LEVEL = 'other'

# concatenation-axis position lists per operand (pairwise disjoint)
AXIS_SPLITS = {
    1: [([0, 1],), ([2],)],
    2: [([0, 1], [2]), ([3], [1, 0]), ([0], [1])],
    3: [([0], [1, 2], [3]), ([4, 0], [2], [5, 1])],
}
# the same with at least one shared ID (must raise)
AXIS_OVERLAPS = {
    2: [([0, 1], [1]), ([0], [0]), ([0, 1], [2, 0])],
    3: [([0], [1, 2], [2]), ([0, 1], [2], [3, 0]), ([0], [1], [1])],
}
# other-axis position lists per operand
OTHER_PATTERNS = {
    1: {'single': ([0, 1],), 'single_unsorted': ([2, 0, 1],)},
    2: {'identical': ([0, 1], [0, 1]), 'permuted': ([0, 1, 2], [2, 0, 1]), 'missing': ([0, 1, 2], [1]),
        'missing_rev': ([2], [2, 1, 0]), 'partial': ([1, 0], [1, 2]), 'disjoint': ([0, 1], [2, 3])},
    3: {'identical': ([0, 1], [0, 1], [0, 1]), 'permuted': ([0, 1, 2], [2, 0, 1], [1, 2, 0]),
        'missing': ([0, 1, 2], [1], [2, 0]), 'partial': ([0, 1], [1, 2], [2, 3]),
        'disjoint': ([0], [1, 2], [3])},
}
# metadata per operand (concatenation axis kind, other axis kind)
MD_CONFIGS = {
    'none': lambda k: ('none', 'none'),
    'all': lambda k: ('text', 'num'),
    'first': lambda k: ('text', 'tax') if k == 0 else ('none', 'none'),
    'later': lambda k: ('none', 'none') if k == 0 else ('slash', 'text'),
    'axis_only_odd': lambda k: ('tax', 'none') if k % 2 else ('none', 'none'),
}
_LZ = [(l, z) for l in rt.LAYOUTS for z in rt.ZEROS]
REPR3 = []          # (layout, zeros, hist) for operand 0, 1, 2
for i, (l, z) in enumerate(_LZ):
    REPR3.append(((l, z, 'none'), _LZ[(2 * i + 3) % 9] + ('none',), _LZ[(4 * i + 7) % 9] + ('none',)))
REPR3 += [(('csr', 'z1', 'sort_rev'), ('csc', 'nz', 'filter_all'), ('csr_unsorted', 'zall', 'transpose2')),
          (('csc', 'zall', 'nnz'), ('csr', 'nz', 'sort_rev'), ('csr', 'z1', 'nnz')),
          (('csr_unsorted', 'nz', 'transpose2'), ('csr_unsorted', 'z1', 'filter_all'), ('csc', 'z1', 'sort_rev'))]
ID_KINDS = ('plain', 'punct', 'nonascii', 'long', 'numeric', 'natlex')
VIAS = ('method_list', 'method_single', 'biom_list', 'biom_single')


def _sclass(case):
    return cu.multi_state_class(case)


def _tag(case):
    return {'method_list': '', 'method_single': '', 'biom_list': '', 'biom_single': 'biom.concat+single-table'}[case['via']]


def _call(case, ops):
    import biom
    axis = case['axis']
    via = case['via']
    if via == 'method_list':
        return ops[0].concat(ops[1:], axis=axis)
    if via == 'method_single':
        assert len(ops) == 2
        return ops[0].concat(ops[1], axis=axis)
    if via == 'biom_list':
        return biom.concat(ops, axis=axis)
    if via == 'biom_single':
        assert len(ops) == 1
        return biom.concat(ops[0], axis=axis)
    raise ValueError(via)


def concat_core(case):
    ops = cu.build_operands(case)
    axis = case['axis']
    inv_axis = cu.other_axis(axis)
    wcls = cu.join_class(_sclass(case), _tag(case))
    views = [rt.view(t) for t in ops]
    for t in ops:
        if rt.inv(t):
            return [rt.fail('pre/Inv', wcls, [], rt.inv(t))], False
    seen, disjoint = set(), True
    for v in views:
        if seen & set(v.ids(axis)):
            disjoint = False
        seen |= set(v.ids(axis))
    fails = []
    try:
        res = _call(case, ops)
    except Exception as e:
        if disjoint:
            return [rt.fail('no-exception', wcls, 'concat returns', '%s: %s' % (type(e).__name__, e))], True
        return [], True             # refused, as required
    if not disjoint:
        return [rt.fail('non-disjoint-is-refused', wcls, 'an exception', 'returned a table')], True
    out = rt.view(res)
    want_axis = [x for v in views for x in v.ids(axis)]
    want_other = set(x for v in views for x in v.ids(inv_axis))
    if out.ids(axis) != want_axis:
        fails.append(rt.fail('axis-ids-in-operand-order', wcls, want_axis, out.ids(axis)))
    if sorted(out.ids(inv_axis)) != sorted(want_other):
        fails.append(rt.fail('other-axis-ids-are-the-union', wcls, sorted(want_other), sorted(out.ids(inv_axis))))
    if fails:
        return fails, True
    want = {}
    for v in views:
        m = cu.cellmap(v)
        for x in v.ids(axis):
            for y in want_other:
                key = (y, x) if axis == 'sample' else (x, y)
                want[key] = m.get(key, 0.0)
    bad = cu.compare_cells(cu.cellmap(out), want, exact=True)
    if bad:
        fails.append(rt.fail('values', wcls, [(list(k), w) for k, w, g in bad], [(list(k), g) for k, w, g in bad]))
    got_md = cu.md_of(out, axis)
    md_bad = []
    for v in views:
        for x, w in cu.md_of(v, axis).items():
            if not cu.md_same(got_md.get(x), w):
                md_bad.append((x, w, got_md.get(x)))
    if md_bad:
        fails.append(rt.fail('axis-metadata-travels', wcls, [(x, w) for x, w, g in md_bad[:4]],
                             [(x, g) for x, w, g in md_bad[:4]]))
    exact = cu.is_dyadic(x for v in views for x in v.A.ravel())
    try:
        t_want = math.fsum(cu.total(v) for v in views)
    except OverflowError:
        t_want = float('inf')
    t_got = cu.total(out)
    ok = (t_got == t_want) if exact else (repr(t_got) == repr(t_want) if math.isinf(t_got) or math.isinf(t_want)
                                          else math.isclose(t_got, t_want, rel_tol=1e-9))
    if not ok:
        fails.append(rt.fail('grand-total', wcls, t_want, t_got))
    if rt.inv(res):
        fails.append(rt.fail('post/Inv', wcls, [], rt.inv(res)))
    return fails, True


def _fails(case):
    return concat_core(case)[0]


def run_concat_case(case):
    fails, nontrivial = concat_core(case)
    fails = cu.minimise_classes(case, fails, _fails, _sclass)
    return {'fails': fails, 'nontrivial': nontrivial, 'n': 1}


SCOPES = {'concat': run_concat_case}


def _ops(axis, axis_pos, other_pos, mdc, rep, salt):
    ops = []
    for k in range(len(axis_pos)):
        a_md, o_md = MD_CONFIGS[mdc](k)
        l, z, h = rep[k]
        if axis == 'sample':
            ops.append(cu.operand(other_pos[k], axis_pos[k], salt + k, l, z, o_md, a_md, h))
        else:
            ops.append(cu.operand(axis_pos[k], other_pos[k], salt + k, l, z, a_md, o_md, h))
    return ops


def _vias(k):
    v = ['method_list', 'biom_list']
    if k == 2:
        v.append('method_single')
    if k == 1:
        v.append('biom_single')
    return v


def concat_cases(tier, splits=AXIS_SPLITS):
    quick = tier == 'quick'
    n = 0
    for k in sorted(splits):
        for axis_pos in splits[k]:
            for pname, other_pos in OTHER_PATTERNS[k].items():
                for axis in cu.AXES:
                    for mdc in MD_CONFIGS:
                        for via in _vias(k):
                            nrep = 3 if quick else len(REPR3)
                            for j in range(nrep):
                                n += 1
                                rep = REPR3[(n + 5 * j) % len(REPR3)] if quick else REPR3[j]
                                kinds = [ID_KINDS[n % len(ID_KINDS)]] if quick else [ID_KINDS[n % len(ID_KINDS)], ID_KINDS[(n + 2) % len(ID_KINDS)]]
                                for kind in kinds:
                                    yield {'ops': _ops(axis, axis_pos, other_pos, mdc, rep, n % 19), 'ids': kind,
                                           'axis': axis, 'via': via, 'pattern': pname, 'md': mdc}


def deep_cases():
    """thorough tier: every pair / triple of (layout, stored zeros) x patterns"""
    n = 0
    for r0 in _LZ:
        for r1 in _LZ:
            for axis_pos in AXIS_SPLITS[2]:
                for pname, other_pos in OTHER_PATTERNS[2].items():
                    for axis in cu.AXES:
                        for mdc in ('none', 'all'):
                            for via in _vias(2):
                                n += 1
                                rep = (r0 + ('none',), r1 + ('none',))
                                yield {'ops': _ops(axis, axis_pos, other_pos, mdc, rep, n % 23), 'ids': ID_KINDS[n % len(ID_KINDS)],
                                       'axis': axis, 'via': via, 'pattern': pname, 'md': mdc}
            for r2 in _LZ:
                for pname, other_pos in OTHER_PATTERNS[3].items():
                    for axis in cu.AXES:
                        n += 1
                        rep = (r0 + ('none',), r1 + ('none',), r2 + ('none',))
                        yield {'ops': _ops(axis, AXIS_SPLITS[3][n % 2], other_pos, 'later', rep, n % 23),
                               'ids': ID_KINDS[n % len(ID_KINDS)], 'axis': axis, 'via': 'method_list' if n % 2 else 'biom_list',
                               'pattern': pname, 'md': 'later'}


def stress_cases(tier):
    mats = list(rt.stress_matrices())
    n = 0
    for a in mats:
        for b in mats:
            for axis in cu.AXES:
                for lay in rt.LAYOUTS:
                    for shift in (0, 1):
                        n += 1
                        ra, ca = a.shape
                        rb, cb = b.shape
                        if axis == 'sample':
                            ops = [cu.operand(range(ra), range(ca), 0, lay, 'nz', A=a.tolist()),
                                   cu.operand([(shift + i) % cu.POOL for i in range(rb)][::-1], [3 + j for j in range(cb)],
                                              0, rt.LAYOUTS[n % 3], 'z1', A=b.tolist())]
                        else:
                            ops = [cu.operand(range(ra), range(ca), 0, lay, 'nz', A=a.tolist()),
                                   cu.operand([3 + i for i in range(rb)], [(shift + j) % cu.POOL for j in range(cb)][::-1],
                                              0, rt.LAYOUTS[n % 3], 'z1', A=b.tolist())]
                        yield {'ops': ops, 'ids': 'plain', 'axis': axis, 'via': 'method_list' if n % 2 else 'biom_list',
                               'pattern': 'stress', 'md': 'none'}


RANDOM_VALUES = (0, 0, 0, 1, 2, 3, 7, 0.5, 0.25, -1, -4, 1024)


def random_cases(seed, n):
    """seeded sample: k = 1..3 operands up to 6 x 6, random disjoint (15 %: overlapping) axis IDs"""
    rnd = random.Random(seed)
    lz = [(l, z) for l in rt.LAYOUTS for z in rt.ZEROS]
    for _ in range(n):
        k = rnd.choice([1, 2, 2, 3, 3])
        axis = rnd.choice(cu.AXES)
        pool = rnd.sample(range(cu.POOL), cu.POOL)
        cuts = sorted(rnd.sample(range(1, cu.POOL), k - 1)) if k > 1 else []
        blocks = [pool[a:b] for a, b in zip([0] + cuts, cuts + [cu.POOL])]
        blocks = [b[:rnd.randint(1, len(b))] for b in blocks]
        if k > 1 and rnd.random() < 0.15:
            blocks[-1] = blocks[-1] + [rnd.choice(blocks[0])]
        ops = []
        for j in range(k):
            other = rnd.sample(range(cu.POOL), rnd.randint(1, cu.POOL))
            l, z = rnd.choice(lz)
            kinds = ('none', 'none', 'text', 'num', 'tax', 'slash')
            a_md, o_md = rnd.choice(kinds), rnd.choice(kinds)
            rows, cols = (other, blocks[j]) if axis == 'sample' else (blocks[j], other)
            A = [[float(rnd.choice(RANDOM_VALUES)) for _ in cols] for _ in rows]
            omd, smd = (o_md, a_md) if axis == 'sample' else (a_md, o_md)
            ops.append(cu.operand(rows, cols, 0, l, z, omd, smd, rnd.choice(cu.HISTORIES), A=A))
        yield {'ops': ops, 'ids': rnd.choice(ID_KINDS), 'axis': axis, 'via': rnd.choice(_vias(k)),
               'pattern': 'random', 'md': 'random'}


def run(rep):
    from props import common
    if 'deductive' in rep.only:
        common.run_deductive(rep, 'C10')
    if 'bounded' in rep.only:
        q = rep.tier == 'quick'
        nrand = 1500 if q else 40000
        parts = [('disjoint', list(concat_cases(rep.tier))), ('non-disjoint', list(concat_cases(rep.tier, AXIS_OVERLAPS))),
                 ('value-stress', list(stress_cases(rep.tier))), ('random', list(random_cases(rep.seed, nrand)))]
        if not q:
            parts.insert(2, ('all-layout-tuples', list(deep_cases())))
        rt.run_scope(rep, 'concat',
                     'k = 1..3 operands, disjoint concatenation-axis IDs (2-3 splits per k) x other-axis patterns '
                     '(identical, permuted, partially missing both ways, partial, disjoint) x both axes x 5 metadata '
                     'placements x {Table.concat(list), Table.concat(table), biom.concat(list), biom.concat(table)} x '
                     '%s operand representation triples (layout, stored zeros, history) x ID alphabets; the same product '
                     'over operand sets sharing a concatenation-axis ID (must be refused)%s; pairs of value-stress matrices '
                     'x both axes x layouts; seeded (VERIF_SEED=%d) random cases with k = 1..3 operands up to 6x6, random '
                     'disjoint (15%%: overlapping) axis IDs, other-axis subsets/orders, values, layouts, stored zeros, '
                     'histories, metadata, calling forms.  cases: %s' % (
                         '3 of 12 rotating' if q else 'all 12',
                         '' if q else '; k = 2: all 81 pairs, k = 3: all 729 triples of (layout, stored zeros) x patterns',
                         rep.seed, ', '.join('%s %d' % (k, len(v)) for k, v in parts)),
                     (c for _, v in parts for c in v), run_concat_case, exhaustive=False)
    common.finish_notes(rep, 'C10')


def replay(case):
    return rt.replay_case('C10', case)
