"""C11 - Partition is an exact split; collapse conserves what it aggregates.

Bounded part: the contracts of Table.partition and Table.collapse evaluated on
the real functions over small tables with integer / dyadic values (sums are
exact) in every layout (rt.LAYOUTS x rt.ZEROS) and after prior histories:
partition by function (explicit assignments incl. None, by ID hash, by
metadata value, constant, injective, list-valued) and by both dict forms with
the remove_empty / ignore_none flags; one-to-one collapse with norm on/off and
min_group_size; one-to-many collapse ('add' / 'divide') driven by pathway
generators yielding 0..3 groups per vector, duplicates included.
Oracle: dense numpy on the raw view of the receiver.
"""
import itertools
import random

import numpy as np

from pyvc import rt
from props import combine_util as cu

LEVEL = 'other'
AXES = cu.AXES


def _table(case):
    A = np.array(case['A'], dtype=float)
    zeros = case.get('zeros', 'nz')
    t = rt.make_table(A, case.get('layout', 'csr'), zeros, ids=case.get('ids', 'plain'),
                      obs_md=case.get('obs_md', 'none'), samp_md=case.get('samp_md', 'none'),
                      type=case.get('type'), table_id=case.get('table_id'))
    return cu.apply_history(t, case.get('hist', 'none'))


def _sclass(case):
    c = rt.state_class(case)
    if case.get('hist', 'none') != 'none':
        c = 'history' if c == 'canonical' else c + '+history'
    return c


# --------------------------------------------------------------------------
# labelling functions (finite family); evaluated by the harness on the view
# --------------------------------------------------------------------------

def label_of(lab, k, id_, md):
    kind = lab['kind']
    if kind == 'assign':
        g = lab['labels'][k]
        return None if g is None else 'g%d' % g
    if kind == 'raw':
        # labels that are not strings: integers (an id hash modulo k yields 0), booleans, the empty string
        return lab['labels'][k]
    if kind == 'hash':
        return 'h%d' % (sum(ord(c) for c in id_) % 3)
    if kind == 'md':
        return md['grp']
    if kind == 'const':
        return 'all'
    if kind == 'inj':
        return id_
    if kind == 'list':
        return ['k__A', 'p%d' % (sum(ord(c) for c in id_) % 2)]
    if kind == 'mdlist':
        return list(md['taxonomy'][:2])
    raise ValueError(kind)


def labels_for(lab, v, axis):
    ids, md = v.ids(axis), v.md(axis)
    return [label_of(lab, k, x, None if md is None else md[k]) for k, x in enumerate(ids)]


def as_key(label):
    return tuple(label) if isinstance(label, list) else label


def make_f(labels_by_id):
    def f(id_, md):
        lab = labels_by_id[str(id_)]
        return list(lab) if isinstance(lab, list) else lab
    return f


# --------------------------------------------------------------------------
# partition
# --------------------------------------------------------------------------

def partition_core(case):
    t = _table(case)
    wcls = _sclass(case)
    if rt.inv(t):
        return [rt.fail('pre/Inv', wcls, [], rt.inv(t))], False
    pre = rt.view(t)
    axis, inv_axis = case['axis'], cu.other_axis(case['axis'])
    ids = pre.ids(axis)
    labels = labels_for(case['labeler'], pre, axis)
    form = case['form']
    remove_empty, ignore_none = case['remove_empty'], case['ignore_none']
    if form == 'function':
        arg = make_f(dict(zip(ids, labels)))
    elif form == 'dict_id2grp':
        arg = {x: l for x, l in zip(ids, labels) if l is not None}
    elif form in ('dict_grp2ids', 'dict_grp2tuple'):
        arg = {}
        for x, l in zip(ids, labels):
            if l is not None:
                arg.setdefault(l, []).append(x)
        if form == 'dict_grp2tuple':
            arg = {l: tuple(xs) for l, xs in arg.items()}
    else:
        raise ValueError(form)
    groups = {}
    for k, l in enumerate(labels):
        if l is None and ignore_none:
            continue
        groups.setdefault(as_key(l), []).append(k)
    try:
        parts = list(t.partition(arg, axis=axis, remove_empty=remove_empty, ignore_none=ignore_none))
    except Exception as e:
        return [rt.fail('no-exception', wcls, 'partition yields the parts',
                        '%s: %s' % (type(e).__name__, e))], True
    fails = []
    got_labels = [p for p, _ in parts]
    if len(set(got_labels)) != len(got_labels) or set(got_labels) != set(groups):
        fails.append(rt.fail('one-part-per-label', wcls, sorted(map(repr, groups)), sorted(map(repr, got_labels))))
        return fails, True
    pre_cells = cu.cellmap(pre)
    pre_md, pre_omd = cu.md_of(pre, axis), cu.md_of(pre, inv_axis)
    other_ids = pre.ids(inv_axis)
    covered = []
    for label, tab in parts:
        pv = rt.view(tab)
        members = [ids[k] for k in groups[label]]
        got_axis, got_other = pv.ids(axis), pv.ids(inv_axis)
        sub = pre.A[:, groups[label]] if axis == 'sample' else pre.A[groups[label], :]
        if not remove_empty:
            want_axis_min = want_axis_max = set(members)
            want_other = list(other_ids)
            other_ok = got_other == want_other
        else:
            vec_nonzero = np.any(sub != 0, axis=0 if axis == 'sample' else 1)
            want_axis_max = set(members)
            want_axis_min = set(x for x, nz in zip(members, vec_nonzero) if nz)
            oth_nonzero = np.any(sub != 0, axis=1 if axis == 'sample' else 0)
            want_other = [x for x, nz in zip(other_ids, oth_nonzero) if nz]
            other_ok = got_other == want_other
        if len(set(got_axis)) != len(got_axis) or not (want_axis_min <= set(got_axis) <= want_axis_max):
            fails.append(rt.fail('part-ids', wcls, {'label': repr(label), 'ids': sorted(want_axis_max)},
                                 got_axis))
            continue
        covered.extend(got_axis)
        if not other_ok:
            fails.append(rt.fail('other-axis', wcls, want_other, got_other))
            continue
        got_cells = cu.cellmap(pv)
        bad = [(key, pre_cells[key], g) for key, g in got_cells.items() if pre_cells.get(key) != g]
        if bad:
            fails.append(rt.fail('vectors', wcls, [(list(k), w) for k, w, g in bad[:6]],
                                 [(list(k), g) for k, w, g in bad[:6]]))
        gmd, gomd = cu.md_of(pv, axis), cu.md_of(pv, inv_axis)
        bad = [(x, pre_md[x], gmd[x]) for x in got_axis if not cu.md_same(gmd[x], pre_md[x])]
        if bad:
            fails.append(rt.fail('metadata', wcls, [(x, w) for x, w, g in bad[:4]], [(x, g) for x, w, g in bad[:4]]))
        bad = [(x, pre_omd[x], gomd[x]) for x in got_other if not cu.md_same(gomd[x], pre_omd[x])]
        if bad:
            fails.append(rt.fail('other-axis-metadata', wcls, [(x, w) for x, w, g in bad[:4]],
                                 [(x, g) for x, w, g in bad[:4]]))
        if (pv.type, pv.table_id) != (pre.type, pre.table_id):
            pass        # header fields are not part of the statement
        binv = rt.inv(tab)
        if binv:
            fails.append(rt.fail('post/Inv', wcls, [], binv))
    if len(set(covered)) != len(covered):
        fails.append(rt.fail('parts-disjoint', wcls, 'every ID at most once', sorted(covered)))
    nontrivial = len(groups) > 1 or remove_empty or ignore_none
    return fails, nontrivial


def run_partition_case(case):
    fails, nontrivial = partition_core(case)
    fails = cu.minimise_classes(case, fails, lambda c: partition_core(c)[0], _sclass)
    return {'fails': fails, 'nontrivial': nontrivial, 'n': 1}


# --------------------------------------------------------------------------
# collapse, one-to-one
# --------------------------------------------------------------------------

def _vec_close(a, b, exact, scale=0.0):
    """exact, or within 1e-12 relative to the magnitudes that were added up
    (divisions by 3 round, and rounded contributions may cancel)"""
    if a.shape != b.shape:
        return False
    if exact:
        return bool(np.array_equal(a, b))
    return bool(np.allclose(a, b, rtol=1e-12, atol=1e-12 * scale))


def collapse_core(case):
    t = _table(case)
    wcls = _sclass(case)
    if rt.inv(t):
        return [rt.fail('pre/Inv', wcls, [], rt.inv(t))], False
    pre = rt.view(t)
    axis, inv_axis = case['axis'], cu.other_axis(case['axis'])
    ids = pre.ids(axis)
    labels = labels_for(case['labeler'], pre, axis)
    norm, mgs = case['norm'], case['min_group_size']
    groups = {}
    for k, l in enumerate(labels):
        groups.setdefault(l, []).append(k)
    kept = {l: ks for l, ks in groups.items() if len(ks) >= mgs}
    f = make_f(dict(zip(ids, labels)))
    try:
        res = t.collapse(f, norm=norm, min_group_size=mgs, axis=axis)
    except Exception as e:
        if not kept:
            return [], False            # nothing to aggregate
        return [rt.fail('no-exception', wcls, 'collapse returns', '%s: %s' % (type(e).__name__, e))], True
    if not kept:
        return [], False
    out = rt.view(res)
    fails = []
    got_ids = out.ids(axis)
    if len(set(got_ids)) != len(got_ids) or set(got_ids) != set(kept):
        return [rt.fail('one-vector-per-label', wcls, sorted(kept), got_ids)], True
    if out.ids(inv_axis) != pre.ids(inv_axis):
        return [rt.fail('other-axis', wcls, pre.ids(inv_axis), out.ids(inv_axis))], True
    exact = cu.is_dyadic(pre.A.ravel())
    scale = float(np.abs(pre.A).sum())
    bad = []
    for pos, l in enumerate(got_ids):
        ks = kept[l]
        vecs = [pre.vec(axis, k) for k in ks]
        want = np.zeros_like(vecs[0])
        for v in vecs:
            want = want + v
        if norm:
            want = want / len(ks)
        got = out.vec(axis, pos)
        if not _vec_close(got, want, exact and not norm, scale):
            bad.append((l, want.tolist(), got.tolist()))
    if bad:
        fails.append(rt.fail('sum-of-members' + ('(normalised)' if norm else ''), wcls,
                             [(l, w) for l, w, g in bad[:4]], [(l, g) for l, w, g in bad[:4]]))
    md = cu.md_of(out, axis)
    bad = []
    for l in got_ids:
        want = sorted(ids[k] for k in kept[l])
        got = (md.get(l) or {}).get('collapsed_ids')
        if got is None or sorted(got) != want:
            bad.append((l, want, got))
    if bad:
        fails.append(rt.fail('collapsed-ids-metadata', wcls, [(l, w) for l, w, g in bad[:4]],
                             [(l, g) for l, w, g in bad[:4]]))
    if not norm and mgs <= 1:
        ax = 1 if axis == 'sample' else 0
        want_tot, got_tot = pre.A.sum(axis=ax), out.A.sum(axis=ax)
        if not _vec_close(got_tot, want_tot, exact, scale):
            fails.append(rt.fail('other-axis-totals-conserved', wcls, want_tot.tolist(), got_tot.tolist()))
    if rt.inv(res):
        fails.append(rt.fail('post/Inv', wcls, [], rt.inv(res)))
    return fails, len(kept) < len(ids) or norm


def run_collapse_case(case):
    fails, nontrivial = collapse_core(case)
    fails = cu.minimise_classes(case, fails, lambda c: collapse_core(c)[0], _sclass)
    return {'fails': fails, 'nontrivial': nontrivial, 'n': 1}


# --------------------------------------------------------------------------
# collapse, one-to-many
# --------------------------------------------------------------------------

def _pathway_md(paths):
    """per-ID metadata carrying the pathways: a list of [root, ..., group]"""
    return [{'pw': [['root', 'mid%d' % (g % 2), 'L%d' % g] for g in ps], 'n': len(ps)} for ps in paths]


def pathway_f(id_, md):
    """the kind of generator the collapse documentation asks for"""
    for p in md['pw']:
        yield (p, p[-1])


def o2m_core(case):
    axis, inv_axis = case['axis'], cu.other_axis(case['axis'])
    paths = case['paths']
    c2 = dict(case)
    c2['obs_md' if axis == 'observation' else 'samp_md'] = _pathway_md(paths)
    t = _table(c2)
    wcls = _sclass(case)
    if rt.inv(t):
        return [rt.fail('pre/Inv', wcls, [], rt.inv(t))], False
    pre = rt.view(t)
    ids = pre.ids(axis)
    mode = case['mode']
    # the history may have reordered the axis: read the pathways back from the view
    per_id = [[p[-1] for p in m['pw']] for m in pre.md(axis)]
    all_labels = sorted(set(l for ls in per_id for l in ls))
    try:
        res = t.collapse(pathway_f, norm=False, one_to_many=True, one_to_many_mode=mode, axis=axis)
    except Exception as e:
        if not all_labels:
            return [], False
        return [rt.fail('no-exception', wcls, 'collapse returns', '%s: %s' % (type(e).__name__, e))], True
    if not all_labels:
        return [], False
    out = rt.view(res)
    fails = []
    got_ids = out.ids(axis)
    if len(set(got_ids)) != len(got_ids) or set(got_ids) != set(all_labels):
        return [rt.fail('one-vector-per-group', wcls, all_labels, got_ids)], True
    if out.ids(inv_axis) != pre.ids(inv_axis):
        return [rt.fail('other-axis', wcls, pre.ids(inv_axis), out.ids(inv_axis))], True
    exact = cu.is_dyadic(pre.A.ravel()) and mode == 'add'
    scale = float(np.abs(pre.A).sum())
    bad = []
    for pos, l in enumerate(got_ids):
        want = np.zeros(len(pre.ids(inv_axis)))
        for k, ls in enumerate(per_id):
            for g in ls:
                if g == l:
                    want = want + (pre.vec(axis, k) if mode == 'add' else pre.vec(axis, k) / len(ls))
        got = out.vec(axis, pos)
        if not _vec_close(got, want, exact, scale):
            bad.append((l, want.tolist(), got.tolist()))
    if bad:
        fails.append(rt.fail(mode, wcls, [(l, w) for l, w, g in bad[:4]], [(l, g) for l, w, g in bad[:4]]))
    ax = 1 if axis == 'sample' else 0
    if mode == 'divide' or all(len(ls) == 1 for ls in per_id):
        keep = [k for k, ls in enumerate(per_id) if ls]
        sub = pre.A[:, keep] if axis == 'sample' else pre.A[keep, :]
        want_tot, got_tot = sub.sum(axis=ax), out.A.sum(axis=ax)
        if not _vec_close(got_tot, want_tot, exact, scale):
            fails.append(rt.fail('totals-conserved', wcls, want_tot.tolist(), got_tot.tolist()))
    if rt.inv(res):
        fails.append(rt.fail('post/Inv', wcls, [], rt.inv(res)))
    return fails, True


def run_o2m_case(case):
    fails, nontrivial = o2m_core(case)
    fails = cu.minimise_classes(case, fails, lambda c: o2m_core(c)[0], _sclass)
    return {'fails': fails, 'nontrivial': nontrivial, 'n': 1}


SCOPES = {'partition': run_partition_case, 'collapse': run_collapse_case,
          'collapse-one-to-many': run_o2m_case}


# --------------------------------------------------------------------------
# enumeration
# --------------------------------------------------------------------------

BIG = [
    [[1, 0, 2], [0, 0, 0], [4, 0, 3]],                       # zero row and zero column
    [[0.5, 0.25, 0], [1.5, 0, 0], [0, 0, 8], [0, 0, 0]],      # dyadic fractions, 4 x 3
    [[1, -1, 0, 2], [0, 0, 0, 0], [-3, 1, 2, 0]],             # negative / cancelling, 3 x 4
    [[3, 1, 4], [1, 5, 9], [2, 6, 5]],                        # fully dense
    [[0, 0], [0, 0], [0, 7]],                                 # almost empty
]
HISTS = ('none', 'sort_rev', 'filter_all', 'transpose2', 'nnz')


def _small_states(tier):
    shapes = [(1, 1), (1, 2), (2, 1), (2, 2)]
    lz = [(l, z) for l in rt.LAYOUTS for z in rt.ZEROS]
    for k, dm in enumerate(rt.matrices(0, 0, shapes=shapes)):
        combos = lz
        if tier == 'quick' and dm.shape == (2, 2):
            combos = [lz[(k + 4 * j) % 9] for j in range(3)]     # 3 of the 9, rotating
        done = set()
        for lay, z in combos:
            if z != 'nz' and not np.any(dm == 0):
                z = 'nz'
            if (lay, z) in done:
                continue
            done.add((lay, z))
            yield {'A': dm.tolist(), 'layout': lay, 'zeros': z}
    if tier == 'quick':
        more = [((2, 3), 11), ((3, 2), 11)]
    else:
        more = [((1, 3), 1), ((3, 1), 1), ((2, 3), 5), ((3, 2), 5), ((3, 3), 40)]
    k = 0
    for shape, step in more:
        for dm in rt.matrices(0, 0, shapes=[shape]):
            k += 1
            if k % step:
                continue
            yield {'A': dm.tolist(), 'layout': rt.LAYOUTS[k % 3], 'zeros': rt.ZEROS[(k // 3) % 3]}


def _big_states(tier):
    n = 0
    for A in BIG:
        for lay in rt.LAYOUTS:
            for z in rt.ZEROS:
                mds = ('text', 'tax', 'slash', 'none')
                for md in ((mds[n % 4],) if tier == 'quick' else mds):
                    n += 1
                    kinds = ('plain', 'punct', 'nonascii', 'long', 'numeric')
                    hists = [HISTS[(2 * n + n // 5) % len(HISTS)]] if tier == 'quick' else HISTS
                    for h in hists:
                        yield {'A': A, 'layout': lay, 'zeros': z, 'ids': kinds[n % 5], 'obs_md': md,
                               'samp_md': md if n % 2 else ('num' if md != 'none' else 'none'), 'hist': h}


def _assignments(n, labels=(0, 1, None)):
    return [list(c) for c in itertools.product(labels, repeat=n)]


FORMS = ('function', 'dict_id2grp', 'dict_grp2ids', 'dict_grp2tuple')


def partition_cases(tier):
    n = 0
    for st in _small_states(tier):
        A = np.array(st['A'])
        for axis in AXES:
            size = A.shape[1] if axis == 'sample' else A.shape[0]
            for labels in _assignments(size, (0, 1, None) if size <= 2 or tier == 'quick' else (0, 1, 2, None)):
                for re_ in (False, True):
                    for ign in (False, True):
                        n += 1
                        form = FORMS[n % 4]
                        if all(l is None for l in labels):
                            form = 'function'           # an empty dict names neither accepted form
                        yield dict(st, axis=axis, labeler={'kind': 'assign', 'labels': labels}, form=form,
                                   remove_empty=re_, ignore_none=ign)


def _family(st, axis):
    md = st['samp_md'] if axis == 'sample' else st['obs_md']
    fam = [('hash', FORMS), ('const', FORMS), ('inj', FORMS), ('list', ('function',))]
    if md in ('text', 'slash'):
        fam.append(('md', FORMS))
    if md == 'tax':
        fam.append(('mdlist', ('function',)))
    return fam


def partition_family_cases(tier):
    for st in _big_states(tier):
        A = np.array(st['A'])
        for axis in AXES:
            size = A.shape[1] if axis == 'sample' else A.shape[0]
            for kind, forms in _family(st, axis):
                for form in forms:
                    for re_ in (False, True):
                        yield dict(st, axis=axis, labeler={'kind': kind}, form=form, remove_empty=re_,
                                   ignore_none=bool(size % 2))
            for labels in ([0] * size, [k % 2 for k in range(size)], [None if k == 1 else k % 3 for k in range(size)],
                           [None] * (size - 1) + [2]):
                for form in FORMS:
                    for re_, ign in ((False, False), (True, True), (False, True)):
                        yield dict(st, axis=axis, labeler={'kind': 'assign', 'labels': labels}, form=form,
                                   remove_empty=re_, ignore_none=ign)
            # falsy labels that are not None: 0 (id hash modulo k), False, '' must be kept like any other label
            for labels in ([k % 2 for k in range(size)], [None if k == 0 else (k % 2) for k in range(size)],
                           ['' if k % 2 else 'x' for k in range(size)], [bool(k % 2) for k in range(size)]):
                # the id -> group dict form is only defined for text groups
                for form in (('function', 'dict_id2grp') if all(isinstance(l, str) for l in labels) else ('function',)):
                    for ign in (False, True):
                        yield dict(st, axis=axis, labeler={'kind': 'raw', 'labels': labels}, form=form,
                                   remove_empty=False, ignore_none=ign)


def collapse_cases(tier):
    for st in _small_states(tier):
        A = np.array(st['A'])
        for axis in AXES:
            size = A.shape[1] if axis == 'sample' else A.shape[0]
            for labels in _assignments(size, (0, 1) if size <= 2 else (0, 1, 2)):
                for norm in (False, True):
                    for mgs in (1, 2):
                        yield dict(st, axis=axis, labeler={'kind': 'assign', 'labels': labels}, norm=norm,
                                   min_group_size=mgs)


def collapse_family_cases(tier):
    for st in _big_states(tier):
        A = np.array(st['A'])
        for axis in AXES:
            size = A.shape[1] if axis == 'sample' else A.shape[0]
            labs = [{'kind': k} for k, _ in _family(st, axis) if k not in ('list', 'mdlist')]
            labs += [{'kind': 'assign', 'labels': [k % 2 for k in range(size)]},
                     {'kind': 'assign', 'labels': [min(k, 1) for k in range(size)]},
                     {'kind': 'assign', 'labels': [0, 0, 0, 1][:size]}]
            for lab in labs:
                for norm in (False, True):
                    for mgs in (1, 2, 3):
                        yield dict(st, axis=axis, labeler=lab, norm=norm, min_group_size=mgs)


def _path_choices(tier):
    """group lists a vector may map to: 0..3 groups, duplicates allowed"""
    base = [[], [0], [1], [0, 1], [1, 1], [0, 1, 2], [2, 0, 2], [1, 1, 1]]
    return base


def o2m_cases(tier):
    quick = tier == 'quick'
    choices = _path_choices(tier)
    n = 0
    # small: every assignment of path choices to <= 2 vectors on exhaustive small matrices
    for st in _small_states(tier):
        A = np.array(st['A'])
        for axis in AXES:
            size = A.shape[1] if axis == 'sample' else A.shape[0]
            if size > 2:
                combos = [[choices[(n + 3 * k) % len(choices)] for k in range(size)]]
            else:
                combos = [list(c) for c in itertools.product(choices, repeat=size)]
                if quick and size == 2:
                    combos = combos[n % 4::4]
            for paths in combos:
                for mode in ('add', 'divide'):
                    n += 1
                    yield dict(st, axis=axis, paths=paths, mode=mode)
    # big states: rotating path assignments, IDs alphabets, histories, other-axis metadata
    for st in _big_states(tier):
        A = np.array(st['A'])
        for axis in AXES:
            size = A.shape[1] if axis == 'sample' else A.shape[0]
            for r in range(2 if quick else 6):
                n += 1
                paths = [choices[(n * 5 + 3 * k + r) % len(choices)] for k in range(size)]
                for mode in ('add', 'divide'):
                    yield dict(st, axis=axis, paths=paths, mode=mode)


RANDOM_VALUES = (0, 0, 0, 0, 1, 2, 3, 7, 0.5, 0.25, -1, -4, 1024)


def _random_state(rnd):
    r, c = rnd.randint(1, 6), rnd.randint(1, 6)
    A = [[float(rnd.choice(RANDOM_VALUES)) for _ in range(c)] for _ in range(r)]
    return {'A': A, 'layout': rnd.choice(rt.LAYOUTS), 'zeros': rnd.choice(rt.ZEROS),
            'ids': rnd.choice(('plain', 'punct', 'nonascii', 'long', 'numeric')),
            'obs_md': rnd.choice(('none', 'text', 'tax', 'slash', 'num')),
            'samp_md': rnd.choice(('none', 'text', 'tax', 'slash', 'num')), 'hist': rnd.choice(HISTS)}, r, c


def random_partition_cases(seed, n):
    rnd = random.Random(seed)
    for _ in range(n):
        st, r, c = _random_state(rnd)
        axis = rnd.choice(AXES)
        size = c if axis == 'sample' else r
        labels = [rnd.choice((0, 1, 2, 3, None)) for _ in range(size)]
        form = rnd.choice(FORMS) if any(l is not None for l in labels) else 'function'
        yield dict(st, axis=axis, labeler={'kind': 'assign', 'labels': labels}, form=form,
                   remove_empty=rnd.random() < 0.5, ignore_none=rnd.random() < 0.5)


def random_collapse_cases(seed, n):
    rnd = random.Random(seed + 1)
    for _ in range(n):
        st, r, c = _random_state(rnd)
        axis = rnd.choice(AXES)
        size = c if axis == 'sample' else r
        labels = [rnd.choice((0, 1, 2, 3)) for _ in range(size)]
        yield dict(st, axis=axis, labeler={'kind': 'assign', 'labels': labels}, norm=rnd.random() < 0.5,
                   min_group_size=rnd.choice((1, 1, 2, 3)))


def random_o2m_cases(seed, n):
    rnd = random.Random(seed + 2)
    for _ in range(n):
        st, r, c = _random_state(rnd)
        axis = rnd.choice(AXES)
        size = c if axis == 'sample' else r
        paths = [[rnd.randint(0, 3) for _ in range(rnd.randint(0, 3))] for _ in range(size)]
        yield dict(st, axis=axis, paths=paths, mode=rnd.choice(('add', 'divide')))


def run(rep):
    from props import common
    if 'deductive' in rep.only:
        common.run_deductive(rep, 'C11')
    if 'bounded' in rep.only:
        q = rep.tier == 'quick'
        nrand = 1000 if q else 40000
        small = ('every matrix over {0,1,2} up to 2x2 x every layout x stored zeros (none/one/all)%s'
                 % (' (2x2: 3 of the 9 layout/zero combinations, rotating) + every 11th 2x3/3x2 matrix' if q else
                    ' + all 1x3, 3x1, every 5th 2x3 / 3x2 and every 40th 3x3 matrix in one rotating layout'))
        big = ('5 fixed matrices (zero row/column, dyadic, negative/cancelling, dense, almost empty) x layouts x stored '
               'zeros x %s' % ('metadata kind, ID alphabet and history rotating' if q else
                               '4 metadata kinds x 5 histories, ID alphabets rotating'))
        rnd = ('seeded (VERIF_SEED=%d) random tables up to 6x6 (integer / dyadic / negative values, layouts, stored zeros, '
               'histories, ID alphabets, metadata kinds)' % rep.seed)

        def counts(parts):
            return '.  cases: ' + ', '.join('%s %d' % (k, len(v)) for k, v in parts)

        parts = [('small', list(partition_cases(rep.tier))), ('families', list(partition_family_cases(rep.tier))),
                 ('random', list(random_partition_cases(rep.seed, nrand)))]
        rt.run_scope(rep, 'partition',
                     small + ' x axis x every assignment of {g0, g1, None%s} to the IDs x remove_empty x ignore_none, calling '
                     'form rotating over function / id->group / group->[ids] / group->(ids); ' % ('' if q else ', g2 for 3 IDs')
                     + big + ' x axis x labellers {id hash, metadata value, constant, injective, list-valued, list from '
                     'metadata, 4 explicit assignments incl. None} x 4 calling forms x flags; ' + rnd +
                     ' x random assignments of {g0..g3, None}, calling form and flags' + counts(parts),
                     (c for _, v in parts for c in v), run_partition_case, exhaustive=False)
        parts = [('small', list(collapse_cases(rep.tier))), ('families', list(collapse_family_cases(rep.tier))),
                 ('random', list(random_collapse_cases(rep.seed, nrand)))]
        rt.run_scope(rep, 'collapse',
                     small + ' x axis x every assignment of labels x norm x min_group_size in {1,2}; ' + big +
                     ' x axis x labellers x norm x min_group_size in {1,2,3}; ' + rnd +
                     ' x random assignments of {g0..g3}, norm, min_group_size in {1,2,3}' + counts(parts),
                     (c for _, v in parts for c in v), run_collapse_case, exhaustive=False)
        parts = [('enumerated', list(o2m_cases(rep.tier))), ('random', list(random_o2m_cases(rep.seed, nrand)))]
        rt.run_scope(rep, 'collapse-one-to-many',
                     small + ' x axis x pathway generators (0..3 groups per vector from 8 choices incl. duplicates; all pairs '
                     'of choices for <= 2 vectors) x {add, divide}; ' + big + ' x rotating pathway assignments; ' + rnd +
                     ' x random pathway lists (0..3 of 4 groups, duplicates) x add/divide' + counts(parts),
                     (c for _, v in parts for c in v), run_o2m_case, exhaustive=False)
    common.finish_notes(rep, 'C11')


def replay(case):
    return rt.replay_case('C11', case)
