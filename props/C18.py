"""C18 - Metadata updates affect exactly the named IDs and keys and nothing else.

Bounded part: the statement evaluated on the real Table.add_metadata /
del_metadata, biom.parse.MetadataMap.from_file, biom.cli.metadata_adder.
_add_metadata and (a few end-to-end runs of) the `biom add-metadata` command.

Oracles: metadata are read from the raw fields (rt.view); mapping files are
*generated* from a structured description (header, rows of logical values and
how each is rendered: quoted, padded, short row, ...), so the expected
ID -> {column: value} relation is the description itself, never a second parse.
"""
import io
import itertools
import json
import os
import re

import numpy as np

from pyvc import rt
from props import values_util as vu

LEVEL = 'other'
AXES = vu.AXES


def _norm_md(md, n):
    """None and 'every entry empty' both mean: no metadata"""
    return [{} for _ in range(n)] if md is None else [dict(m or {}) for m in md]


def _md_field(axis):
    return 'samp_md' if axis == 'sample' else 'obs_md'


def expected_add(pre_md, ids, mapping):
    base = _norm_md(pre_md, len(ids))
    out = []
    for k, i in enumerate(ids):
        d = dict(base[k])
        if i in mapping:
            d.update(mapping[i])
        out.append(d)
    return out


# --------------------------------------------------------------------------
# add_metadata
# --------------------------------------------------------------------------

def _mapping_for(case, ids, old_md):
    """{id: {key: value}} named by the case"""
    keys_old = sorted(old_md[0]) if old_md else []
    mapping = {}
    named = [ids[k] for k in case['named'] if k < len(ids)]
    allids = named + ['zz-unknown-%d' % k for k in range(case['unknown'])]
    if case.get('order') == 'rev':
        allids = allids[::-1]
    for q, i in enumerate(allids):
        kind = case['keys']
        d = {}
        if kind in ('new', 'both', 'mixed'):
            d['extra'] = 'x%d' % q
        if kind in ('overwrite', 'both') or (kind == 'mixed' and q % 2):
            d[keys_old[0] if keys_old else 'grp'] = ['ow', q] if case.get('vals') == 'list' else 'ow%d' % q
        if kind == 'mixed' and q % 2 == 0:
            d['only-even'] = q * 1.5
        if kind == 'typed':
            d.update({'i': q, 'f': q + 0.25, 'b': bool(q % 2), 'l': ['a', 'b%d' % q], 'n': None})
        mapping[i] = d
    return mapping


def _add_core(case):
    t = vu.build(case)
    pre = rt.view(t)
    if rt.inv(t):
        return [('pre/Inv', [], rt.inv(t))]
    axis = case['axis']
    ids = pre.ids(axis)
    mapping = _mapping_for(case, ids, pre.md(axis))
    snapshot = json.dumps(rt.plain(mapping), sort_keys=True, default=repr)
    arg = mapping
    if case.get('as') == 'MetadataMap':
        from biom.parse import MetadataMap
        arg = MetadataMap(mapping)
    st, res = vu.call_f(lambda: t.add_metadata(arg, axis=axis))
    if st == 'exc':
        return [('add/returns', 'returns', res)]
    post = rt.view(t)
    fails = []
    want = expected_add(pre.md(axis), ids, rt.plain(mapping))
    got = _norm_md(post.md(axis), len(ids))
    if got != want:
        named = set(mapping) & set(ids)
        wrong_named = [i for k, i in enumerate(ids) if i in named and got[k] != want[k]]
        wrong_other = [i for k, i in enumerate(ids) if i not in named and got[k] != want[k]]
        if wrong_named:
            fails.append(('add/named-ids-get-the-keys', {i: want[ids.index(i)] for i in wrong_named},
                          {i: got[ids.index(i)] for i in wrong_named}))
        if wrong_other:
            fails.append(('add/other-ids-untouched', {i: want[ids.index(i)] for i in wrong_other},
                          {i: got[ids.index(i)] for i in wrong_other}))
    d = [f for f in post.diff(pre) if f != _md_field(axis)]
    if d:
        fails.append(('add/ids-order-values-other-axis-unchanged', [], d))
    if rt.inv(t):
        fails.append(('add/post/Inv', [], rt.inv(t)))
    return fails


def run_add_case(case):
    return {'fails': vu.classify(case, _add_core(case), _add_core, 'axis-' + case['axis']),
            'nontrivial': bool(case['named'])}


# --------------------------------------------------------------------------
# del_metadata
# --------------------------------------------------------------------------

def _del_core(case):
    t = vu.build(case)
    pre = rt.view(t)
    axis, keys = case['axis'], case['keys']
    st, res = vu.call_f(lambda: t.del_metadata(keys=(None if keys is None else list(keys)), axis=axis))
    if st == 'exc':
        return [('del/returns', 'returns', res)]
    post = rt.view(t)
    fails = []
    for ax in AXES:
        n = len(pre.ids(ax))
        old, new = _norm_md(pre.md(ax), n), _norm_md(post.md(ax), n)
        if axis in (ax, 'whole'):
            want = [{k: v for k, v in m.items() if (keys is not None and k not in keys)} for m in old]
            if new != want:
                fails.append(('del/exactly-the-keys-removed', {ax: want}, {ax: new}))
        elif new != old:
            fails.append(('del/other-axis-untouched', {ax: old}, {ax: new}))
    d = [f for f in post.diff(pre) if f not in ('samp_md', 'obs_md')]
    if d:
        fails.append(('del/ids-order-values-unchanged', [], d))
    if rt.inv(t):
        fails.append(('del/post/Inv', [], rt.inv(t)))
    return fails


def run_del_case(case):
    return {'fails': vu.classify(case, _del_core(case), _del_core, 'axis-' + case['axis']),
            'nontrivial': case['keys'] is None or bool(case['keys'])}


# --------------------------------------------------------------------------
# mapping files from the row grammar
# --------------------------------------------------------------------------

RENDER = ('plain', 'quoted', 'padded', 'quoted-padded', 'inner-pad')


def _render(val, how):
    if how == 'quoted':
        return '"%s"' % val
    if how == 'padded':
        return '  %s ' % val
    if how == 'quoted-padded':
        return ' "%s"  ' % val
    if how == 'inner-pad':
        return '" %s "' % val
    return val


def _parsed(val, how, strip_quotes):
    """what the rendered field means: surrounding blanks never count; quotes
    are dropped iff strip_quotes"""
    if strip_quotes:
        return val
    return {'quoted': '"%s"' % val, 'quoted-padded': '"%s"' % val, 'inner-pad': '" %s "' % val}.get(how, val)


COLS = ['colA', 'days', 'ph', 'taxonomy', 'kegg']
VALUES = {
    'colA': ['alpha', 'b c', '', 'x/y'],
    'days': ['12', '-3', 'NA', '0'],
    'ph': ['1.5', '-2e-3', '7', 'n.d.'],
    'taxonomy': ['k__A; p__B;c__C', 'k__A', '', 'k__Z;p__Y'],
    'kegg': ['x;y|z; w', 'a', 'a;b', 'm|n'],
}


def build_mapping_file(spec, row_ids):
    """-> (lines, expected {id: {col: raw string}}, effective data columns)"""
    ncols = spec['ncols']
    cols = COLS[:ncols]
    lines = []
    if spec['file_header']:
        lines.append('#SampleID\t' + '\t'.join(cols) + '\n')
    if spec['comments'] in ('after-header', 'both'):
        lines.append('#a comment line\twith a tab\n')
    if spec['blanks'] in ('after-header', 'both'):
        lines.append('\n')
    override = spec.get('override')
    if override is None:
        eff = cols
    else:
        names = ['ID'] + ['h%d' % k for k in range(override - 1)] if spec.get('rename') else ['#SampleID'] + cols
        names = (names + ['extra%d' % k for k in range(override)])[:override]
        eff = names[1:]
    expected = {}
    for r, rid in enumerate(row_ids):
        variant = (spec['variant'] + r) % 6
        vals = [VALUES[c][(r + spec['variant'] + q) % 4] for q, c in enumerate(cols)]
        hows = ['plain'] * ncols
        id_how = 'plain'
        keep = ncols
        if variant == 1:
            hows = [RENDER[(q + r) % 5] for q in range(ncols)]
        elif variant == 2:
            keep = max(0, ncols - 1)                   # short row: last field missing
        elif variant == 3:
            keep = 0                                   # only the ID
        elif variant == 4:
            hows = ['padded'] * ncols
            id_how = 'quoted' if spec['strip_quotes'] else 'padded'
        elif variant == 5 and ncols >= 2:
            vals[0] = ''                               # empty field in the middle
        fields = [_render(rid, id_how)] + [_render(v, h) for v, h in zip(vals, hows)][:keep]
        line = '\t'.join(fields)
        if variant == 2 and spec.get('trailing_tab'):
            line += '\t'
        lines.append(line + '\n')
        if spec['comments'] in ('between', 'both') and r == 0:
            lines.append('#comment between rows\n')
        if spec['blanks'] in ('between', 'both') and r == 0:
            lines.append('   \t \n')
        parsed = [_parsed(v, h, spec['strip_quotes']) for v, h in zip(vals, hows)][:keep]
        parsed += [''] * max(0, len(eff) - len(parsed))
        expected[rid] = dict(zip(eff, parsed))
    if spec['blanks'] == 'both':
        lines.append('\n')
    return lines, expected, eff, (None if override is None else names)


_INT = re.compile(r'^[+-]?[0-9]+$')
_FLOAT = re.compile(r'^[+-]?([0-9]+\.?[0-9]*|\.[0-9]+)([eE][+-]?[0-9]+)?$')
CONV = {
    'int': lambda x: int(x) if _INT.match(x) else x,
    'float': lambda x: float(x) if _FLOAT.match(x) else x,
    'sc': lambda x: [p.strip() for p in x.split(';')],
    'pipe': lambda x: [[p.strip() for p in y.split(';')] for y in x.split('|')],
    'upper': lambda x: x.upper(),
    'len': lambda x: len(x),
}


def _file_specs(tier):
    q = tier == 'quick'
    k = 0
    for ncols, nrows, variant in itertools.product((1, 2, 3, 5), (1, 2, 3), range(6)):
        for comments, blanks in itertools.product(('none', 'after-header', 'between', 'both'),
                                                  ('none', 'after-header', 'between', 'both')):
            for override in (None, 1, 2, ncols + 1, ncols + 2):
                for file_header in (True, False):
                    if override is None and not file_header:
                        continue
                    for strip_quotes in (True, False):
                        k += 1
                        if q and k % 7:
                            continue
                        yield dict(ncols=ncols, nrows=nrows, variant=variant, comments=comments, blanks=blanks,
                                   override=override, rename=bool(k % 2), file_header=file_header,
                                   strip_quotes=strip_quotes, trailing_tab=bool(k % 3 == 0),
                                   process=('none', 'user', 'none')[k % 3])


def run_from_file_case(case):
    from biom.parse import MetadataMap
    spec = case
    row_ids = ['S%d' % (r + 1) for r in range(spec['nrows'])]
    if spec.get('idkind') == 'odd':
        row_ids = [['a b/c', 'x;y|z', 'öé日本', '10.5', 'L' + 'x' * 300][r] for r in range(spec['nrows'])]
    lines, expected, eff, header = build_mapping_file(spec, row_ids)
    fns, names = {}, {}
    if spec['process'] == 'user':
        for c, fn in (('colA', 'upper'), ('days', 'len'), ('taxonomy', 'sc'), ('h0', 'upper'), ('extra0', 'len')):
            fns[c] = CONV[fn]
    want = {i: {c: (fns[c](v) if c in fns else v) for c, v in d.items()} for i, d in expected.items()}
    wcls = 'mapping-file' + ('+header-override' if header is not None else '') + \
           ('' if spec['strip_quotes'] else '+keep-quotes')
    src = list(lines) if spec.get('via', 'list') == 'list' else io.StringIO(''.join(lines))
    st, res = vu.call_f(lambda: MetadataMap.from_file(src, strip_quotes=spec['strip_quotes'],
                                                     header=(None if header is None else list(header)),
                                                     process_fns=(fns or None)))
    if st == 'exc':
        return {'fails': [rt.fail('from_file/returns-a-mapping', wcls, want, res)]}
    got = rt.plain({k: dict(v) for k, v in res.items()})
    fails = []
    if sorted(got) != sorted(want):
        fails.append(rt.fail('from_file/ids', wcls, sorted(want), sorted(got)))
    elif got != want:
        bad = [i for i in want if got[i] != want[i]]
        fails.append(rt.fail('from_file/id->column->value', wcls, {i: want[i] for i in bad}, {i: got[i] for i in bad}))
    if not isinstance(res, MetadataMap):
        fails.append(rt.fail('from_file/returns-a-mapping', wcls, 'MetadataMap', type(res).__name__))
    return {'fails': fails, 'nontrivial': True}


# --------------------------------------------------------------------------
# biom.cli.metadata_adder._add_metadata (and the command end to end)
# --------------------------------------------------------------------------

def _cli_files(case, pre, tmp):
    """write the mapping file(s) named by the case; -> {axis: (path, expected parsed mapping, header)}"""
    out = {}
    for axis in case['axes']:
        ids = pre.ids(axis)
        row_ids = [ids[k] for k in case['named'] if k < len(ids)] + ['zz-unknown'][:case['unknown']]
        spec = dict(case['spec'], nrows=len(row_ids))
        lines, expected, eff, header = build_mapping_file(spec, row_ids)
        opts = case['options']
        conv = {}
        for name, fn in (('sc_separated', 'sc'), ('sc_pipe_separated', 'pipe'), ('int_fields', 'int'),
                         ('float_fields', 'float')):
            for c in opts.get(name) or ():
                conv[c] = CONV[fn]
        want = {i: {c: (conv[c](v) if c in conv else v) for c, v in d.items()} for i, d in expected.items()}
        p = tmp.write('map_%s.txt' % axis, ''.join(lines))
        out[axis] = (p, want, header)
    return out


def _cli_core(case):
    from biom.cli.metadata_adder import _add_metadata
    t = vu.build(case)
    pre = rt.view(t)
    handles = []
    tmpf = vu.TmpFiles()
    tmp = tmpf.__enter__()
    try:
        files = _cli_files(case, pre, tmp)
        kw = dict(case['options'])
        for axis in AXES:
            if axis in files:
                fh = open(files[axis][0], encoding='utf-8')
                handles.append(fh)
                kw['sample_metadata' if axis == 'sample' else 'observation_metadata'] = fh
                if files[axis][2] is not None:
                    kw['sample_header' if axis == 'sample' else 'observation_header'] = list(files[axis][2])
        st, res = vu.call_f(lambda: _add_metadata(t, **kw))
    finally:
        for fh in handles:
            fh.close()
        tmpf.__exit__()
    if st == 'exc':
        return [('_add_metadata/returns', 'a table', res)]
    post = rt.view(res)
    fails = []
    for axis in AXES:
        ids = pre.ids(axis)
        mapping = files[axis][1] if axis in files else {}
        want = expected_add(pre.md(axis), ids, mapping)
        got = _norm_md(post.md(axis), len(ids))
        if got != want:
            bad = [i for k, i in enumerate(ids) if got[k] != want[k]]
            fails.append(('_add_metadata/%s' % ('named-ids-get-the-parsed-values' if set(bad) & set(mapping)
                                                else 'other-ids-untouched'),
                          {i: want[ids.index(i)] for i in bad}, {i: got[ids.index(i)] for i in bad}))
    d = [f for f in post.diff(pre) if f not in ('samp_md', 'obs_md')]
    if d:
        fails.append(('_add_metadata/ids-order-values-unchanged', [], d))
    return fails


def run_cli_case(case):
    return {'fails': vu.classify(case, _cli_core(case), _cli_core, 'axes-' + '+'.join(case['axes'])),
            'nontrivial': bool(case['named'])}


def _e2e_core(case):
    """`biom add-metadata` on a JSON table file, JSON output read back with the json module"""
    from click.testing import CliRunner
    from biom.cli.metadata_adder import add_metadata
    t = vu.build(case)
    pre = rt.view(t)
    tmpf = vu.TmpFiles()
    tmp = tmpf.__enter__()
    try:
        inp = tmp.write('in.biom', vu.json_biom_text(pre))
        outp = tmp.path('out.biom')
        files = _cli_files(case, pre, tmp)
        args = ['-i', inp, '-o', outp, '--output-as-json']
        if 'sample' in files:
            args += ['-m', files['sample'][0]]
            if files['sample'][2] is not None:
                args += ['--sample-header', ','.join(files['sample'][2])]
        if 'observation' in files:
            args += ['--observation-metadata-fp', files['observation'][0]]
            if files['observation'][2] is not None:
                args += ['--observation-header', ','.join(files['observation'][2])]
        for name, flag in (('sc_separated', '--sc-separated'), ('sc_pipe_separated', '--sc-pipe-separated'),
                           ('int_fields', '--int-fields'), ('float_fields', '--float-fields')):
            if case['options'].get(name):
                args += [flag, ','.join(case['options'][name])]
        r = CliRunner().invoke(add_metadata, args)
        if r.exit_code != 0 or not os.path.exists(outp):
            return [('cli/add-metadata-runs', 'exit 0 and an output file',
                     'exit %s %r %s' % (r.exit_code, r.exception, (r.output or '')[-200:]))]
        with open(outp, encoding='utf-8') as fh:
            doc = json.load(fh)
    finally:
        tmpf.__exit__()
    fails = []
    for axis, key in (('sample', 'columns'), ('observation', 'rows')):
        ids = pre.ids(axis)
        mapping = files[axis][1] if axis in files else {}
        want = expected_add(pre.md(axis), ids, mapping)
        got_ids = [e['id'] for e in doc[key]]
        got = _norm_md([e['metadata'] for e in doc[key]], len(got_ids))
        if got_ids != ids:
            fails.append(('cli/ids-and-order-unchanged', ids, got_ids))
        elif got != want:
            bad = [i for k, i in enumerate(ids) if got[k] != want[k]]
            fails.append(('cli/metadata-in-output-file', {i: want[ids.index(i)] for i in bad},
                          {i: got[ids.index(i)] for i in bad}))
    A = np.zeros(pre.A.shape)
    for i, j, v in doc['data']:
        A[i, j] = v
    if doc['matrix_type'] != 'sparse' or not np.array_equal(A, pre.A):
        fails.append(('cli/matrix-values-unchanged', pre.A.tolist(), A.tolist()))
    return fails


def run_e2e_case(case):
    return {'fails': vu.classify(case, _e2e_core(case), _e2e_core, 'axes-' + '+'.join(case['axes'])),
            'nontrivial': bool(case['named'])}


run_add_case, run_del_case = vu.history_guard(run_add_case), vu.history_guard(run_del_case)
run_cli_case, run_e2e_case = vu.history_guard(run_cli_case), vu.history_guard(run_e2e_case)
SCOPES = {'add_metadata': run_add_case, 'del_metadata': run_del_case, 'from_file': run_from_file_case,
          '_add_metadata': run_cli_case, 'cli-add-metadata': run_e2e_case}


# --------------------------------------------------------------------------
# enumeration
# --------------------------------------------------------------------------

MD_KINDS = ('none', 'text', 'num', 'tax', 'slash', 'jagged')
BASE = [np.array([[1., 0., 2.], [0., 3., 0.]]), np.array([[0., 2.], [1., 1.], [0., 0.]]), np.array([[4.]])]


def _table_states(tier):
    q = tier == 'quick'
    k = 0
    for dm in BASE:
        for omd, smd in itertools.product(MD_KINDS, MD_KINDS):
            for ids in ('plain', 'punct', 'nonascii', 'long', 'numeric'):
                k += 1
                if q and ids != 'plain' and k % 3:
                    continue
                lay, z = rt.LAYOUTS[k % 3], rt.ZEROS[(k // 3) % 3]
                if not np.any(dm == 0):
                    z = 'nz'
                yield dict(A=dm.tolist(), layout=lay, zeros=z, ids=ids, obs_md=omd, samp_md=smd)
    for hist in vu.STD_HISTORIES:
        for omd, smd in (('text', 'none'), ('none', 'num'), ('tax', 'text')):
            yield dict(A=BASE[0].tolist(), layout='csr', zeros='z1', obs_md=omd, samp_md=smd, hist=list(hist))


def add_cases(tier):
    q = tier == 'quick'
    for st in _table_states(tier):
        A = np.array(st['A'])
        for axis in AXES:
            n = A.shape[1] if axis == 'sample' else A.shape[0]
            for named in rt.subsets(range(n)):
                for unknown in (0, 2):
                    for c, keys in enumerate(('new', 'overwrite', 'both', 'mixed', 'typed')):
                        if q and (len(named) + unknown + c) % 2:
                            continue
                        yield dict(st, axis=axis, named=named, unknown=unknown, keys=keys,
                                   vals='list' if c % 2 else 'str', order='rev' if unknown else 'fwd',
                                   **{'as': 'MetadataMap' if (len(named) + c) % 3 == 0 else 'dict'})


def del_cases(tier):
    keysets = {'none': [], 'text': ['grp', 'name'], 'num': ['depth', 'count', 'flag'], 'tax': ['taxonomy'],
               'slash': ['a/b', 'grp'], 'jagged': ['grp', 'extra', 'name']}
    for st in _table_states(tier):
        pool = sorted(set(keysets[st['obs_md']]) | set(keysets[st['samp_md']])) + ['no-such-key']
        for axis in ('sample', 'observation', 'whole'):
            yield dict(st, axis=axis, keys=None)
            for keys in rt.subsets(pool):
                if tier == 'quick' and len(pool) > 4 and len(keys) not in (0, 1, len(pool) - 1, len(pool)):
                    continue
                yield dict(st, axis=axis, keys=keys)


def from_file_cases(tier):
    for k, spec in enumerate(_file_specs(tier)):
        yield dict(spec, via='list' if k % 2 else 'stringio', idkind='odd' if k % 5 == 0 else 'plain')


OPTION_SETS = [
    {},
    {'int_fields': ['days'], 'float_fields': ['ph']},
    {'sc_separated': ['taxonomy'], 'sc_pipe_separated': ['kegg']},
    {'sc_separated': ['taxonomy', 'colA'], 'int_fields': ['days'], 'float_fields': ['ph'], 'sc_pipe_separated': ['kegg']},
    {'int_fields': ['ph'], 'float_fields': ['days']},
    {'int_fields': ['h1'], 'sc_separated': ['h0']},
]


def cli_cases(tier, e2e=False):
    q = tier == 'quick'
    k = 0
    for st in _table_states(tier):
        if e2e and (st.get('ids', 'plain') not in ('plain', 'numeric') or st.get('hist')):
            continue
        if st.get('ids') == 'punct':
            continue            # punct IDs contain a double quote, which the mapping-file grammar reserves for quoting
        A = np.array(st['A'])
        for axes in (['sample'], ['observation'], ['sample', 'observation']):
            for named in ([0], list(range(max(A.shape))), []):
                for o, options in enumerate(OPTION_SETS):
                    k += 1
                    if (q and k % 5) or (e2e and k % (23 if q else 5)):
                        continue
                    unknown = (k // 5) % 2
                    if not named and not unknown:
                        continue
                    override = (None, 2, 3, 6)[(k // 7) % 4] if o in (0, 5) else None
                    spec = dict(ncols=5, variant=k % 6, comments=('none', 'after-header', 'between', 'both')[k % 4],
                                blanks=('none', 'between', 'both')[k % 3], override=override, rename=(o == 5),
                                file_header=bool(override is None or k % 2), strip_quotes=True,
                                trailing_tab=bool(k % 2))
                    yield dict(st, axes=axes, named=named, unknown=unknown, options=options, spec=spec)


def run(rep):
    from props import common
    if 'deductive' in rep.only:
        common.run_deductive(rep, 'C18')
    if 'bounded' in rep.only:
        q = rep.tier == 'quick'
        states = ('3 tables (2x3, 3x2, 1x1) x 5x5 metadata kinds (none/text/num/tax/slash per axis) x 5 ID alphabets%s, '
                  'layouts and stored-zero modes rotated; + 9 operation histories x 3 metadata combinations'
                  % (' (quick: non-plain alphabets every 3rd)' if q else ''))
        rt.run_scope(rep, 'add_metadata', states + ' x axis x every subset of the IDs named x {0,2} unknown IDs x 5 key '
                     'patterns (new / overwriting / both / per-ID different / typed values) x dict or MetadataMap',
                     add_cases(rep.tier), run_add_case, exhaustive=not q)
        rt.run_scope(rep, 'del_metadata', states + ' x axis in sample/observation/whole x keys=None and every subset of '
                     'the keys present on either axis + one absent key', del_cases(rep.tier), run_del_case,
                     exhaustive=not q)
        rt.run_scope(rep, 'from_file', 'mapping files generated from the row grammar: 1/2/3/5 data columns x 1..3 rows x 6 '
                     'row-variant rotations (quoted, padded, short, ID only, empty field) x comment lines x blank lines x '
                     'header override (none, ID only, first k, all, longer) with/without a header line in the file x '
                     'strip_quotes x process functions%s' % (' (quick: every 7th)' if q else ''),
                     from_file_cases(rep.tier), run_from_file_case, exhaustive=not q)
        with vu.shared_tmp():
            rt.run_scope(rep, '_add_metadata', 'table states x sample/observation/both mapping files (5 columns incl. '
                         'int, float, semicolon, pipe columns) x named IDs none/one/all (+ unknown) x 6 option sets '
                         '(int/float/sc/sc-pipe fields, header overrides)', cli_cases(rep.tier), run_cli_case,
                         exhaustive=False)
            rt.run_scope(rep, 'cli-add-metadata', 'the add-metadata command end to end (JSON table written with the '
                         'json module, --output-as-json read back with the json module), plain/numeric IDs, sampled '
                         'option sets', cli_cases(rep.tier, e2e=True), run_e2e_case, chunk=8, exhaustive=False)
    common.finish_notes(rep, 'C18')


def replay(case):
    return rt.replay_case('C18', case)
