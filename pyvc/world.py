"""The 'world' of a verified module: module-level names, the defunctionalised
function sort Fn, dynamic values Val, user callbacks with ghost call logs, and
the (assumed) contracts of builtins / numpy / scipy used by Tier P/A code.
Every library behaviour assumed here is listed in ASSUMED and copied into the
evidence of the checks that relied on it.
"""
import ast

import z3

from . import smt
from .smt import I, R, B, Str, Cls
from .values import (SV, VInt, VReal, VBool, VStr, VNone, NONE, VTuple, VRef, VOpt, VCls, VExc, VFn, VVal,
                     VMod, VRange, VSlice, VInner, VDictVal, Arr, Dict, Obj, State, EngineError, fresh, SORTS)
from .engine import to_int, to_real, is_num, mk, Result

PY_BUILTINS = {'len', 'range', 'bool', 'int', 'float', 'abs', 'min', 'max', 'isinstance', 'sorted', 'tuple', 'list',
               'set', 'frozenset', 'zip', 'enumerate', 'str', 'repr', 'dict', 'sum', 'any', 'all', 'print', 'type',
               'iter', 'next', 'callable', 'getattr', 'hasattr', 'reversed', 'map', 'filter'}

ASSUMED = {
    'mask-index': 'numpy: a[mask] with a boolean array of the same length is a new array of the elements at the true '
                  'positions, in their order; a mask of another length raises IndexError',
    'np.zeros': 'numpy.zeros(n[, dtype]) returns a fresh 1-D array of length n filled with 0 / False',
    'np.zeros-U': "numpy.zeros(n, dtype='U<w>') is a fresh array of n empty strings that holds strings of at most w "
                  "characters (longer ones would be truncated: every store is checked against w)",
    'np.empty': 'numpy.empty(n) returns a fresh 1-D array of length n with arbitrary contents',
    'max/min': 'max / min of a non-empty list of integers is one of its elements and bounds all of them; of an empty list it raises ValueError',
    'set-of-seq': 'set(seq): membership as for seq; len(set(seq)) is the number of distinct elements, which equals len(seq) '
                  'exactly when no element occurs twice',
    'len': 'len() of a list/tuple/1-D array is its length',
    'range': 'range(a[,b]) enumerates the integers a <= i < b in increasing order',
    'bool': 'bool(x) is the truth value of x',
    'callback': 'user callbacks are total, have no effect on the objects under verification; each call appends '
                '(snapshot of the arguments, result) to a ghost call log',
    'slice-copy': 'numpy basic slices are modelled as fresh arrays holding a copy (they are views in numpy); sound '
                  'for the verified kernels because no write happens to either array after the slice is taken',
    'sorted': 'sorted(seq) returns a new list that is a permutation of seq (ordered by an uninterpreted total order)',
    'dict-order': 'dict iteration yields every key exactly once (insertion order, modelled as an arbitrary but fixed order)',
    'contextmanager': 'contextlib.contextmanager: enter = run to the yield; normal exit = resume after the yield; '
                      'exceptional exit = the block\'s exception is raised at the yield',
    'warn': 'warnings.warn(msg) has no effect on program state other than emitting the warning (ghost effect log)',
    'stdout.write': 'sys.stdout.write(s) has no effect on program state other than the output (ghost effect log)',
    'closure-capture': 'closures capture by value at creation (python captures cells; equal as long as the captured '
                       'variable is not re-assigned afterwards, which holds in the verified code)',
}


class VItemsNested(SV):
    """items() of a dict whose values are dicts held by value"""
    kind = 'itemsnested'

    def __init__(self, ref, keys, nkeys, kkind):
        self.ref, self.keys, self.nkeys, self.kkind = ref, keys, nkeys, kkind

    def sv_iter(self, eng, st, s):
        from .values import VInner
        return z3.IntVal(0), self.nkeys, (lambda st2, k: VTuple([eng.wrap(self.kkind, self.keys[k]),
                                                                   VInner(self.ref, self.keys[k])]))


class VZip(SV):
    """zip(a, b): pairs up to the shorter length"""
    kind = 'zip'

    def __init__(self, a, b):
        self.a, self.b = a, b

    def sv_iter(self, eng, st, s):
        lo1, hi1, e1 = eng.iter_spec(st, self.a, s)
        lo2, hi2, e2 = eng.iter_spec(st, self.b, s)
        n1, n2 = hi1 - lo1, hi2 - lo2
        n = z3.If(n1 <= n2, n1, n2)
        return z3.IntVal(0), z3.If(n >= 0, n, 0), (lambda st2, k: VTuple([e1(st2, lo1 + k), e2(st2, lo2 + k)]))


class VEnumerate(SV):
    """enumerate(seq): pairs (position, element)"""
    kind = 'enumerate'

    def __init__(self, inner):
        self.inner = inner

    def sv_iter(self, eng, st, s):
        lo, hi, elem = eng.iter_spec(st, self.inner, s)
        return lo, hi, (lambda st2, k: VTuple([VInt(k - lo), elem(st2, k)]))


class CallLog:
    """ghost log of a user callback: argument snapshots and results of each call"""
    def __init__(self, name, argkinds, retkind, n, args, ret, extra=None):
        self.name, self.argkinds, self.retkind = name, argkinds, retkind
        self.n = n            # z3 Int
        self.args = args      # per position: ('arr', Array(Int,Array(Int,R)), Array(Int,Int)) or ('val', Array(Int,sort))
        self.ret = ret        # same shape of description
        self.extra = extra or {}

    def replace(self, **kw):
        c = CallLog(self.name, self.argkinds, self.retkind, self.n, self.args, self.ret, self.extra)
        c.__dict__.update(kw)
        return c


class VArrVal(SV):
    """an array by value (snapshot): contents term + length term"""
    kind = 'arrval'

    def __init__(self, elem, a, n):
        self.elem, self.a, self.n = elem, a, n


class World:
    def __init__(self, rel, tree, registry, ctypes=None):
        self.rel, self.tree, self.registry = rel, tree, registry
        self.ctypes = ctypes or {}
        self.used = set()           # keys of ASSUMED that were relied upon
        self.module_defs = {}
        self.module_classes = {}
        self.module_consts = {}
        self.imports = {}
        self._exception_classes()
        self._scan_module()
        self._build_sorts()

    # ------------------------------------------------------------------
    @staticmethod
    def _exception_classes():
        """the repository's exception hierarchy, read from biom/exception.py"""
        from . import source
        tree = source.load_py('biom/exception.py')[1]
        for n in tree.body:
            if isinstance(n, ast.ClassDef) and n.bases and isinstance(n.bases[0], ast.Name):
                smt.EXC_PARENT[n.name] = n.bases[0].id

    def _scan_module(self):
        for n in self.tree.body:
            if isinstance(n, ast.FunctionDef):
                self.module_defs[n.name] = n
            elif isinstance(n, ast.ClassDef):
                self.module_classes[n.name] = n
            elif isinstance(n, ast.Assign) and len(n.targets) == 1 and isinstance(n.targets[0], ast.Name):
                if isinstance(n.value, ast.Constant):
                    self.module_consts[n.targets[0].id] = n.value.value
            elif isinstance(n, ast.ImportFrom):
                for a in n.names:
                    self.imports[a.asname or a.name] = (n.module, a.name)
            elif isinstance(n, ast.Import):
                for a in n.names:
                    self.imports[a.asname or a.name] = (a.name, None)

    def _build_sorts(self):
        """Fn: one constructor per lambda (fields = captured variables), one per
        module-level def, ext(id); Val: dynamic values; effects are Val terms"""
        self.lambdas = {}     # ctor name -> (node, [(capname, kind)])
        self.lambda_names = {}
        self._lam_count = {}
        Fn = z3.Datatype('Fn!' + self.rel)
        Fn.declare('ext', ('ext_id', I))        # user callback: effectful, every call is logged
        Fn.declare('pure', ('pure_id', I))      # user predicate assumed pure (not logged)
        cap_types = {}
        for c in self.registry.values():
            if c.rel == self.rel:
                cap_types.setdefault(c.qualname.split('.')[-1], {}).update(c.types)
        parents = {}

        def scan(fn_name, node):
            for ch in ast.iter_child_nodes(node):
                if isinstance(ch, ast.FunctionDef):
                    scan(ch.name, ch)
                elif isinstance(ch, ast.ClassDef):
                    scan(fn_name, ch)
                else:
                    if isinstance(ch, ast.Lambda):
                        parents[id(ch)] = fn_name
                        self._declare_lambda(Fn, ch, fn_name, cap_types)
                    scan(fn_name, ch)
        scan(None, self.tree)
        for name in self.module_defs:
            Fn.declare('def_' + name)
        self.Fn = Fn.create()
        Val = z3.Datatype('Val!' + self.rel)
        Val.declare('vnone')
        Val.declare('vbool', ('vb', B))
        Val.declare('vint', ('vi', I))
        Val.declare('vreal', ('vr', R))
        Val.declare('vstr', ('vs', Str))
        Val.declare('vfn', ('vf', self.Fn))
        Val.declare('vexc', ('vcls', Cls), ('vmsg', Str))
        Val.declare('vobj', ('vobj_id', I))
        Val.declare('veff', ('etag', Str), ('ea', Val), ('eb', Val))
        self.Val = Val.create()
        self.apply_ext = z3.Function('apply_ext!' + self.rel, self.Fn, self.Val, self.Val)
        self._ext_ids = {}

    def _declare_lambda(self, Fn, lam, fn_name, cap_types):
        params = {a.arg for a in lam.args.args + lam.args.kwonlyargs}
        if lam.args.vararg:
            params.add(lam.args.vararg.arg)
        names = []
        for n in ast.walk(lam.body):
            if isinstance(n, ast.Name) and n.id not in params and n.id not in names:
                names.append(n.id)
        caps = []
        types = cap_types.get(fn_name, {}) if fn_name else {}
        for nm in names:
            if nm in self.module_defs or nm in self.module_consts or nm in self.imports or nm in PY_BUILTINS \
                    or nm in self.module_classes or nm in ('True', 'False', 'None'):
                continue
            ty = types.get(nm)
            if ty is None:
                caps.append((nm, None))
                continue
            caps.append((nm, ty))
        ordn = self._lam_count.get(fn_name, 0)
        self._lam_count[fn_name] = ordn + 1
        cname = 'lam_%s_%d' % (fn_name or 'module', ordn)
        self.lambda_names[id(lam)] = cname
        fields = []
        ok = True
        for nm, ty in caps:
            k = self._scalar_kind(ty)
            if k is None:
                ok = False
                break
            fields.append(('%s_%s' % (cname, nm), {'str': Str, 'cls': Cls, 'int': I, 'bool': B, 'real': R}[k]))
        if not ok:
            # lambda capturing something that has no scalar sort: usable inline only
            self.lambdas[cname] = (lam, None)
            return
        Fn.declare(cname, *fields)
        self.lambdas[cname] = (lam, [(nm, self._scalar_kind(ty)) for nm, ty in caps])

    @staticmethod
    def _scalar_kind(ty):
        return {'Str': 'str', 'Cls': 'cls', 'Int': 'int', 'Nat': 'int', 'Bool': 'bool', 'Real': 'real'}.get(ty)

    def ext_fn(self, name):
        if name not in self._ext_ids:
            self._ext_ids[name] = len(self._ext_ids) + 1000
        return self.Fn.ext(z3.IntVal(self._ext_ids[name]))

    # ---- Val / Fn conversions ------------------------------------------------
    def val_none(self):
        return self.Val.vnone

    def to_val(self, eng, v):
        V = self.Val
        k = v.kind
        if k == 'val':
            return v.term
        if k == 'none':
            return V.vnone
        if k == 'bool':
            return V.vbool(v.term)
        if k == 'int':
            return V.vint(v.term)
        if k == 'real':
            return V.vreal(v.term)
        if k == 'str':
            return V.vstr(v.term)
        if k == 'fn':
            return V.vfn(self.to_fn(eng, v))
        if k == 'exc':
            msg = v.args[0].term if v.args and v.args[0].kind == 'str' else fresh('excmsg', Str)
            return V.vexc(v.cls.term, msg)
        if k == 'opt':
            return z3.If(v.is_none, V.vnone, self.to_val(eng, v.val))
        if k == 'ref':
            return V.vobj(z3.IntVal(v.nid))
        raise EngineError('cannot convert %s to a dynamic value' % k)

    def to_fn(self, eng, v):
        if v.kind == 'opt':
            raise EngineError('optional function used as a function value')
        if v.kind != 'fn':
            raise EngineError('expected a function value, got %s' % v.kind)
        if v.fk == 'sym':
            return v.term
        if v.fk == 'def':
            ctor = getattr(self.Fn, 'def_' + v.qualname, None)
            if ctor is None:
                return self.ext_fn('def:' + v.qualname)
            return ctor
        if v.fk == 'closure':
            cname = self.lambda_names.get(id(v.node))
            entry = self.lambdas.get(cname)
            if entry is None or entry[1] is None:
                raise EngineError('closure %s cannot be stored as a value (captures non-scalar state)' % v.name)
            ctor = getattr(self.Fn, cname)
            args = []
            for nm, kind in entry[1]:
                cv = v.env.get(nm)
                if cv is None:
                    raise EngineError('closure %s: captured variable %r is not bound' % (v.name, nm))
                args.append(eng.unwrap(cv, kind))
            self.used.add('closure-capture')
            return ctor(*args) if args else ctor
        if v.fk == 'builtin':
            return self.ext_fn('builtin:' + v.name)
        if v.fk == 'callback':
            return self.ext_fn('callback:' + v.name)
        raise EngineError('function kind %s as a value' % v.fk)

    def val_truth(self, t):
        V = self.Val
        return z3.If(V.is_vnone(t), z3.BoolVal(False),
               z3.If(V.is_vbool(t), V.vb(t),
               z3.If(V.is_vint(t), V.vi(t) != 0,
               z3.If(V.is_vreal(t), V.vr(t) != 0,
               z3.If(V.is_vstr(t), smt.len_s(V.vs(t)) > 0, z3.BoolVal(True))))))

    def val_is_none(self, t):
        return self.Val.is_vnone(t)

    def val_to_exc(self, eng, st, v):
        st.assume(self.Val.is_vexc(v.term))
        return VExc(VCls(self.Val.vcls(v.term)), [VStr(self.Val.vmsg(v.term))])

    # ---- inputs -----------------------------------------------------------
    def make_input(self, eng, st, name, ty):
        if ty == 'CS':
            m, n = fresh(name + '_m', I), fresh(name + '_n', I)
            st.assume(m >= 0, n >= 0)
            f = {'indptr': eng.make_input(st, name + '_indptr', 'Arr[Int]'),
                 'indices': eng.make_input(st, name + '_indices', 'Arr[Int]'),
                 'data': eng.make_input(st, name + '_data', 'Arr[Real]'),
                 '_shape': VTuple([VInt(m), VInt(n)]),
                 'format': VStr(fresh(name + '_format', Str))}
            return st.alloc(Obj('CS', f))
        if ty.startswith('Obj:'):
            return self.make_object(eng, st, name, ty[4:])
        return None

    def make_object(self, eng, st, name, cls):
        raise EngineError('no object model for class %s' % cls)

    def make_callback(self, eng, st, name, ty):
        """Callback[T1,T2,...]->R ; array arguments are snapshotted by value"""
        sig, ret = ty[len('Callback['):].rsplit(']->', 1)
        argk = [a.strip() for a in _split_types(sig)]
        args = []
        for p, a in enumerate(argk):
            if a.startswith('Arr['):
                ek = a[4:-1].lower()
                args.append(('arr', ek, fresh('%s_arg%d' % (name, p), z3.ArraySort(I, z3.ArraySort(I, eng.sort_of_kind(ek)))),
                             fresh('%s_arg%dlen' % (name, p), z3.ArraySort(I, I))))
            else:
                k = a.lower()
                args.append(('val', k, fresh('%s_arg%d' % (name, p), z3.ArraySort(I, eng.sort_of_kind(k)))))
        ret = ret.strip()
        samelen = None
        for k in range(4):
            if ret.endswith('=len%d' % k):
                samelen, ret = k, ret[:-5]
        if ret.startswith('Arr['):
            ek = ret[4:-1].lower()
            retd = ('arr', ek, fresh(name + '_ret', z3.ArraySort(I, z3.ArraySort(I, eng.sort_of_kind(ek)))),
                    fresh(name + '_retlen', z3.ArraySort(I, I)))
        else:
            retd = ('val', ret.lower(), fresh(name + '_ret', z3.ArraySort(I, eng.sort_of_kind(ret.lower()))))
        log = st.alloc(CallLog(name, argk, ret, z3.IntVal(0), args, retd, {'samelen': samelen}))
        self.used.add('callback')
        return VFn('callback', name=name, log=log)

    # ---- names ----------------------------------------------------------------
    def globals_for(self, eng, st, c):
        return {}

    def global_name(self, eng, st, n):
        if n in self.module_defs:
            return VFn('def', rel=self.rel, qualname=n, node=self.module_defs[n])
        if n in self.module_consts:
            return eng.const(self.module_consts[n])
        if n in self.module_classes:
            return VCls(n, n)
        if n in smt.EXC_PARENT:
            return VCls(n, n)
        if n in self.imports:
            mod, what = self.imports[n]
            if what is None or mod in ('numpy',) and what is None:
                return VMod({'numpy': 'np'}.get(mod, mod) if n != 'np' else 'np')
            if (mod, what) == ('warnings', 'warn'):
                return VFn('builtin', name='warn')
            if (mod, what) == ('sys', 'stdout'):
                return VMod('stdout')
            if what in smt.EXC_PARENT:
                return VCls(what, what)
            return VFn('builtin', name='%s.%s' % (mod, what))
        if n in PY_BUILTINS:
            return VFn('builtin', name=n)
        if n == 'np':
            return VMod('np')
        return None

    def spec_name(self, eng, st, n):
        if n == 'log':
            return st.globals.get('$log')
        return self.global_name(eng, st, n)

    # ---- spec functions ---------------------------------------------------
    def spec_call(self, eng, st, n, e, bound):
        if n == 'ccount':
            return VInt(len([c for c in st.marks.get('ccalls', []) if c[0] == e.args[0].value]))
        if n == 'ccount_last':
            return VInt(len([c for c in st.marks.get('ccalls', []) if c[0] == e.args[0].value]) - 1)
        if n == 'carg':
            # carg('Class.method', k, 'param'): the argument bound to `param` in the k-th call of that function
            calls = [c for c in st.marks.get('ccalls', []) if c[0] == e.args[0].value]
            ke = e.args[1]
            k = ke.value if isinstance(ke, ast.Constant) else z3.simplify(to_int(eng.sev(ke, st, bound))).as_long()
            if k < 0 or k >= len(calls) or e.args[2].value not in calls[k][1]:
                return VInt(fresh('nocall', I))
            return calls[k][1][e.args[2].value]
        if n == 'ncalls':
            f = eng.sev(e.args[0], st, bound)
            return VInt(st.node(f.log).n)
        if n in ('callarg', 'callret'):
            f = eng.sev(e.args[0], st, bound)
            k = to_int(eng.sev(e.args[1], st, bound))
            lg = st.node(f.log)
            d = lg.args[e.args[2].value] if n == 'callarg' else lg.ret
            if d[0] == 'arr':
                return VArrVal(d[1], d[2][k], d[3][k])
            return eng.wrap(d[1], d[2][k])
        if n == 'eff':
            args = [eng.sev(a, st, bound) for a in e.args]
            V = self.Val
            a = self.to_val(eng, args[1]) if len(args) > 1 else V.vnone
            b = self.to_val(eng, args[2]) if len(args) > 2 else V.vnone
            return VVal(V.veff(args[0].term, a, b))
        if n == 'val':
            return VVal(self.to_val(eng, eng.sev(e.args[0], st, bound)))
        if n == 'fnval':
            return VFn('sym', term=self.to_fn(eng, eng.sev(e.args[0], st, bound)))
        if n == 'is_exc':
            v = eng.sev(e.args[0], st, bound)
            if v.kind == 'exc':
                return VBool(True)
            if v.kind == 'val':
                return VBool(self.Val.is_vexc(v.term))
            return VBool(False)
        if n == 'keys_eq':
            a, b = eng.sev(e.args[0], st, bound), eng.sev(e.args[1], st, bound)
            da, db = eng.as_dict(st, a), eng.as_dict(st, b)
            k = fresh('k', eng.sort_of_kind(da[0]))
            return VBool(z3.ForAll([k], da[2][k] == db[2][k]))
        if n == 'same_dict':
            a, b = eng.sev(e.args[0], st, bound), eng.sev(e.args[1], st, bound)
            return VBool(eng.equal(st, a, b))
        return None

    def spec_method(self, eng, st, f, e, bound):
        recv = eng.sev(f.value, st, bound)
        if recv.kind == 'ref' and isinstance(st.node(recv), Dict) and f.attr == 'get':
            n = st.node(recv)
            kt = eng.unwrap(eng.sev(e.args[0], st, bound), n.kkind)
            dflt = eng.sev(e.args[1], st, bound) if len(e.args) > 1 else NONE
            return eng.ite(n.dom[kt], eng.wrap(n.vkind, n.val[kt]), dflt)
        return None

    # ---- objects --------------------------------------------------------------
    def _class_attr(self, eng, st, cls, attr):
        cnode = self.module_classes.get(cls)
        for m in cnode.body if cnode else []:
            if isinstance(m, ast.Assign) and isinstance(m.targets[0], ast.Name) and m.targets[0].id == attr:
                rs = eng.ev(m.value, st)
                return rs[0].val
        return None

    def _property(self, cls, attr, setter=False):
        cnode = self.module_classes.get(cls)
        for m in cnode.body if cnode else []:
            if isinstance(m, ast.FunctionDef) and m.name == attr:
                is_setter = any(isinstance(d, ast.Attribute) and d.attr == 'setter' for d in m.decorator_list)
                is_getter = any(isinstance(d, ast.Name) and d.id == 'property' for d in m.decorator_list)
                if setter and is_setter:
                    return m
                if not setter and is_getter:
                    return m
        return None

    def obj_attr(self, eng, st, base, n, attr):
        v = self._class_attr(eng, st, n.cls, attr)
        if v is not None:
            return v
        g = self._property(n.cls, attr)
        if g is not None:
            # a read-only look at a property in spec mode: loop-free getter returning a field
            if len(g.body) <= 2 and isinstance(g.body[-1], ast.Return) and isinstance(g.body[-1].value, ast.Attribute):
                return n.fields[g.body[-1].value.attr]
        return None

    def obj_getattr_code(self, eng, st, base, n, attr, node):
        g = self._property(n.cls, attr)
        if g is not None:
            fv = VFn('def', rel=self.rel, qualname='%s.%s' % (n.cls, attr), node=g, self_val=base)
            return eng.call_def(st, fv, [], {}, node)
        return None

    def obj_setattr(self, eng, st, base, n, attr, val, node):
        g = self._property(n.cls, attr, setter=True)
        if g is not None:
            fv = VFn('def', rel=self.rel, qualname='%s.%s.setter' % (n.cls, attr), node=g, self_val=base)
            out = []
            for r in eng.call_def(st, fv, [val], {}, node):
                out.append(Result(r.st, exc=r.exc, flow='raise') if r.exc is not None else Result(r.st))
            return out
        return None

    def obj_contains(self, eng, st, cont, n, x):
        cnode = self.module_classes.get(n.cls)
        for m in cnode.body if cnode else []:
            if isinstance(m, ast.FunctionDef) and m.name == '__contains__':
                # loop-free: inline in spec position
                ret = m.body[-1]
                if isinstance(ret, ast.Return):
                    env = {m.args.args[0].arg: cont, m.args.args[1].arg: x}
                    return eng.truth(st, eng.sev(ret.value, st, env))
        raise EngineError('membership in %s' % n.cls)

    def has_method(self, cls, name):
        c = self.module_classes.get(cls)
        return c is not None and any(isinstance(m, ast.FunctionDef) and m.name == name for m in c.body)

    def obj_index(self, eng, st, base, n, idx, node):
        return None

    def obj_index_store(self, eng, st, base, n, idx, val, node):
        return None

    def cs_transpose(self, eng, st, base, n):
        raise EngineError('.T in spec')

    def may_inline(self, fv):
        return False

    def def_env(self, eng, st, fv):
        return {}

    def call_writes(self, eng, st, call):
        """heap references a call inside a loop body may write (beyond mutating methods)"""
        out = []
        f = call.func
        if isinstance(f, ast.Name):
            try:
                fv = eng.sev(f, st)
            except EngineError:
                return out
            if getattr(fv, 'kind', None) == 'fn' and fv.fk == 'callback':
                out.append(fv.log)
            if getattr(fv, 'kind', None) == 'fn' and fv.fk == 'def':
                out.extend(self._contract_writes(eng, st, '%s::%s' % (fv.rel, fv.qualname), None))
        elif isinstance(f, ast.Attribute):
            try:
                recv = eng.sev(f.value, st)
            except EngineError:
                return out
            if recv.kind == 'ref' and isinstance(st.node(recv), Obj):
                out.extend(self._contract_writes(eng, st, '%s::%s.%s' % (self.rel, st.node(recv).cls, f.attr), recv))
        return out

    def _contract_writes(self, eng, st, key, recv):
        c = self.registry.get(key)
        out = []
        if c is None:
            return out
        for m in c.modifies:
            p = m[:-3] if m.endswith('[*]') else m
            try:
                v = eng.sev(p, st, {'self': recv} if recv is not None else {})
            except EngineError:
                continue
            if v.kind == 'ref':
                out.append(v)
            elif v.kind == 'inner':
                out.append(v.ref)
        return out

    def kwargs_value(self, eng, st, kwargs):
        if not kwargs:
            # no extra keywords: an empty dict of dynamic values
            st_ = st
            return st_.alloc(Dict('str', 'val', z3.K(Str, z3.BoolVal(False)), fresh('nokw', z3.ArraySort(Str, self.Val))))
        keys = [VStr(k) for k in kwargs]
        return eng.dict_literal(st, keys, list(kwargs.values()))

    def unpack(self, eng, st, val, n):
        if val.kind == 'ref' and isinstance(st.node(val), Arr):
            return None
        return None

    def dict_order(self, eng, st, ref):
        """give the dict an iteration order (fresh, consistent with its domain)"""
        n = st.node(ref)
        self.used.add('dict-order')
        if n.keys is None:
            ks = eng.sort_of_kind(n.kkind)
            keys = fresh('keys', z3.ArraySort(I, ks))
            pos = fresh('pos', z3.ArraySort(ks, I))
            nkeys = fresh('nkeys', I)
            i, k = fresh('i', I), fresh('k', ks)
            st.assume(nkeys >= 0,
                      z3.ForAll([i], z3.Implies(z3.And(0 <= i, i < nkeys), z3.And(n.dom[keys[i]], pos[keys[i]] == i)),
                                patterns=[keys[i]]),
                      z3.ForAll([k], z3.Implies(n.dom[k], z3.And(0 <= pos[k], pos[k] < nkeys, keys[pos[k]] == k)),
                                patterns=[n.dom[k]]))
            n = n.replace(keys=keys, nkeys=nkeys, pos=pos)
            st.setnode(ref, n)
        return st, n.keys, n.nkeys

    def iter_spec(self, eng, st, itv, s):
        if itv.kind == 'dictval':
            raise EngineError('iteration over a dict value')
        if itv.kind == 'arrT':
            return z3.IntVal(0), itv.n, (lambda st2, k: VTuple([eng.wrap(kd, a[k]) for kd, a in zip(itv.kinds, itv.arrays)]))
        return None

    def comprehension(self, eng, st, e):
        """[f(x) for x in seq]  (one generator, no filter, f without side effects, possibly raising): the element
        expression is evaluated once for a generic position; the result is the array of its values, or the
        exception of some position"""
        if len(e.generators) == 1 and e.generators[0].ifs and isinstance(e.generators[0].target, ast.Name):
            return self.filtered_comprehension(eng, st, e)
        if len(e.generators) != 1 or e.generators[0].ifs or not isinstance(e.generators[0].target, ast.Name):
            raise EngineError('%s:%d: comprehension outside the supported shapes' % (eng.rel, e.lineno))
        g = e.generators[0]
        out = []
        for r in eng.ev(g.iter, st):
            if r.exc is not None:
                out.append(r)
                continue
            s0, seq = r.st, r.val
            k = fresh('ck', I)
            sk = s0.copy()
            sk.env = dict(sk.env)
            if seq.kind == 'ref' and isinstance(s0.node(seq), Arr):
                n = s0.node(seq)
                sk.env[g.target.id] = eng.wrap(n.elem, n.a[k])
            elif seq.kind == 'ref' and isinstance(s0.node(seq), Dict) and s0.node(seq).seq is not None:
                from .values import VInner
                n = Arr('val', None, s0.node(seq).seq, 'list')
                sk.env[g.target.id] = VInner(seq, k)
            elif hasattr(seq, 'sv_iter'):
                # an extension value that knows how it is iterated (position lo + k of its own sequence)
                lo_, hi_, elem_ = seq.sv_iter(eng, s0, e)
                n = Arr('val', None, hi_ - lo_, 'list')
                sk.env[g.target.id] = elem_(sk, lo_ + k)
            else:
                raise EngineError('%s:%d: comprehension over %s' % (eng.rel, e.lineno, seq.kind))
            sk.assume(0 <= k, k < n.n)
            base_len = len(sk.pc)
            heap0 = dict(sk.heap)
            rs = eng.ev(e.elt, sk)
            normal = [x for x in rs if x.exc is None]
            excs = [x for x in rs if x.exc is not None]
            if not normal or any(x.st.heap.get(h) is not v for x in normal for h, v in heap0.items()):
                raise EngineError('%s:%d: comprehension element must be side-effect free with a normal outcome'
                                  % (eng.rel, e.lineno))
            kinds = {x.val.kind for x in normal}
            if kinds <= {'inner', 'dictval', 'none'} and kinds != {'none'}:
                # a sequence of dicts (held by value), some positions possibly None
                if excs:
                    raise EngineError('%s:%d: raising comprehension of dicts' % (eng.rel, e.lineno))
                rows = [(z3.And(x.st.pc[base_len:] or [z3.BoolVal(True)]), x.val, eng.as_dict(x.st, x.val) if x.val.kind != 'none' else None)
                        for x in normal]
                some = [r for r in rows if r[2] is not None][0][2]
                if some[5] or (some[0], some[1]) != ('str', 'val'):
                    raise EngineError('%s:%d: comprehension of dicts of kind %s -> %s' % (eng.rel, e.lineno, some[0], some[1]))
                empty_d = z3.K(Str, z3.BoolVal(False))
                drow, vrow, none = empty_d, some[3], z3.BoolVal(False)
                for cnd, v, d in reversed(rows):
                    drow = z3.If(cnd, d[2] if d is not None else empty_d, drow)
                    vrow = z3.If(cnd, d[3] if d is not None else some[3], vrow)
                    none = z3.If(cnd, z3.BoolVal(d is None), none)
                q = fresh('q', I)
                sn = s0.copy()
                node = eng.seq_of_dicts(sn, 'comp', n.n)
                nones = fresh('comp_none', z3.ArraySort(I, B))
                sub = lambda t: z3.substitute(t, (k, q))
                sn.assume(z3.ForAll([q], z3.Implies(z3.And(0 <= q, q < n.n),
                                                    z3.And(node.idom[q] == sub(drow), node.val[q] == sub(vrow),
                                                           nones[q] == sub(none))),
                                    patterns=[node.idom[q]]),
                          z3.ForAll([q], z3.Implies(z3.And(0 <= q, q < n.n), nones[q] == sub(none)), patterns=[nones[q]]))
                node.nones = nones
                out.append(Result(sn, sn.alloc(node)))
                continue
            if len(kinds) != 1 or kinds.pop() not in ('int', 'real', 'bool', 'str'):
                raise EngineError('%s:%d: comprehension element kinds %s' % (eng.rel, e.lineno, sorted(x.val.kind for x in normal)))
            # several normal outcomes (mutually exclusive path conditions): the element is their case distinction
            conds = [z3.And(x.st.pc[base_len:] or [z3.BoolVal(True)]) for x in normal]
            ok = z3.Or(conds)
            term = normal[-1].val.term
            for cnd, x in list(zip(conds, normal))[-2::-1]:
                term = z3.If(cnd, x.val.term, term)
            val = eng.wrap(normal[0].val.kind, term)
            q = fresh('q', I)
            sn = s0.copy()
            arr = fresh('comp', z3.ArraySort(I, eng.sort_of_kind(val.kind)))
            pats = [arr[q]]
            if getattr(n, 'a', None) is not None:
                pats.append(n.a[q])        # also triggered by the source element (what was true of every element)
            sn.assume(z3.ForAll([q], z3.Implies(z3.And(0 <= q, q < n.n),
                                                z3.And(z3.substitute(ok, (k, q)), arr[q] == z3.substitute(val.term, (k, q)))),
                                patterns=pats))
            if eng.feasible(sn):
                out.append(Result(sn, sn.alloc(Arr(val.kind, arr, n.n, 'list'))))
            for x in excs:
                # some position raises: k becomes its (Skolem) witness
                sx = s0.copy()
                sx.assume(0 <= k, k < n.n, *x.st.pc[base_len:])
                if eng.feasible(sx):
                    out.append(Result(sx, exc=x.exc, flow='raise'))
        return out

    def filtered_comprehension(self, eng, st, e):
        """[f(x) for x in seq if c(x)] over a sequence: the values at the positions where the condition holds, in
        order (condition and element: side-effect free, non-raising, one outcome each)"""
        g = e.generators[0]
        out = []
        for r in eng.ev(g.iter, st):
            if r.exc is not None:
                out.append(r)
                continue
            s0, seq = r.st, r.val
            if not (seq.kind == 'ref' and isinstance(s0.node(seq), Arr)):
                raise EngineError('%s:%d: filtered comprehension over %s' % (eng.rel, e.lineno, seq.kind))
            n = s0.node(seq)
            k = fresh('ck', I)
            sk = s0.copy()
            sk.env = dict(sk.env)
            sk.env[g.target.id] = eng.wrap(n.elem, n.a[k])
            sk.assume(0 <= k, k < n.n)
            heap0 = dict(sk.heap)
            cond = z3.BoolVal(True)
            for c in g.ifs:
                rs = eng.ev(c, sk)
                if len(rs) != 1 or rs[0].exc is not None or any(rs[0].st.heap.get(h) is not v for h, v in heap0.items()):
                    raise EngineError('%s:%d: comprehension condition must have one side-effect free outcome' % (eng.rel, e.lineno))
                cond = z3.And(cond, eng.truth(rs[0].st, rs[0].val))
            rs = eng.ev(e.elt, sk)
            if len(rs) != 1 or rs[0].exc is not None or rs[0].val.kind not in ('int', 'real', 'bool', 'str') \
                    or any(rs[0].st.heap.get(h) is not v for h, v in heap0.items()):
                raise EngineError('%s:%d: comprehension element must have one scalar, side-effect free outcome' % (eng.rel, e.lineno))
            val = rs[0].val
            q = fresh('q', I)
            sn = s0.copy()
            vals = fresh('cvals', z3.ArraySort(I, eng.sort_of_kind(val.kind)))
            mask = fresh('cmask', z3.ArraySort(I, B))
            sn.assume(z3.ForAll([q], z3.Implies(z3.And(0 <= q, q < n.n),
                                                z3.And(vals[q] == z3.substitute(val.term, (k, q)),
                                                       mask[q] == z3.substitute(cond, (k, q)))),
                                patterns=[vals[q], mask[q]]))
            for r2 in eng.mask_read(sn, Arr(val.kind, vals, n.n, 'list'), Arr('bool', mask, n.n, 'list'), e.lineno):
                if r2.exc is None:
                    nd = r2.st.node(r2.val)
                    r2.st.setnode(r2.val, Arr(nd.elem, nd.a, nd.n, 'list'))
                out.append(r2)
        return out

    def yield_stmt(self, eng, st, s):
        """@contextmanager generator: the with-block runs at the yield.  Two continuations:
        normal resume, and the block's exception raised at the yield."""
        self.used.add('contextmanager')
        c = eng.cur
        if c.kind != 'contextmanager':
            raise EngineError('yield outside a contextmanager contract')
        at = st.copy()
        at.marks = dict(at.marks)
        at.marks['yield'] = st.snapshot()
        for k, e in enumerate(c.extra.get('enter', [])):
            eng.oblige(at, 'enter/post%d' % k, eng.sbool(e, at), s.lineno)
        # the block may do anything the contract's `block_modifies` allows
        for path in c.extra.get('block_modifies', []):
            eng.havoc_path(at, path)
        for e in c.extra.get('block_assumes', []):
            at.assume(eng.sbool(e, at))
        at.marks['resume'] = at.snapshot()
        normal = at.copy()
        normal.marks['__exit__'] = 'ok'
        exc_st = at.copy()
        exc_st.marks['__exit__'] = 'exc'
        injected = VExc(VCls(fresh('block_exc', Cls)), [])
        exc_st.marks['__injected__'] = injected
        return [Result(normal), Result(exc_st, exc=injected, flow='raise')]

    def with_stmt(self, eng, st, s):
        raise EngineError('with statement: no contract-carrying context manager')

    def construct(self, eng, st, cls, args, kwargs, node):
        name = cls.name
        if name in smt.EXC_PARENT or (name is None):
            return [Result(st, VExc(cls, list(args)))]
        raise EngineError('construction of %s' % name)

    # ---- builtins -----------------------------------------------------------
    def call_builtin(self, eng, st, name, args, kwargs, node, starv=None, dstar=None):
        line = getattr(node, 'lineno', 0)
        if name == 'len':
            self.used.add('len')
            v = args[0]
            if v.kind == 'arrval':
                return [Result(st, VInt(v.n))]
            if v.kind == 'ref' and isinstance(st.node(v), Arr) and getattr(st.node(v), 'distinct', None) is not None:
                return [Result(st, VInt(st.node(v).distinct))]
            return [Result(st, eng.length(st, v))]
        if name == 'range':
            self.used.add('range')
            if len(args) == 1:
                return [Result(st, VRange(z3.IntVal(0), to_int(args[0])))]
            if len(args) == 2:
                return [Result(st, VRange(to_int(args[0]), to_int(args[1])))]
            raise EngineError('range with a step')
        if name == 'bool':
            self.used.add('bool')
            out = []
            for s, v in eng.norm_opt(st, args[0]):
                out.append(Result(s, VBool(eng.truth(s, v))))
            return out
        if name == 'int' and args and args[0].kind in ('int', 'bool'):
            return [Result(st, VInt(to_int(args[0])))]
        if name == 'float' and args and is_num(args[0]):
            return [Result(st, VReal(to_real(args[0])))]
        if name in ('np.zeros', 'numpy.zeros'):
            self.used.add('np.zeros')
            n = to_int(args[0])
            dt = kwargs.get('dtype') or (args[1] if len(args) > 1 else None)
            kind, zero = 'real', z3.RealVal(0)
            if dt is not None and dt.kind == 'str' and getattr(dt, 'fmt_template', None) == 'U%d' \
                    and getattr(dt, 'fmt_args', None) is not None and dt.fmt_args.kind == 'int':
                # a unicode array of fixed width: stores that do not fit are obligations (store-fits-string-width)
                self.used.add('np.zeros-U')
                eng.oblige(st, 'nonneg-size', n >= 0, line)
                return [Result(st, st.alloc(Arr('str', z3.K(I, smt.str_lit('')), n, 'ndarray', width=dt.fmt_args.term)))]
            if dt is not None:
                dn = self.dtype_name(dt)
                if dn == 'bool':
                    kind, zero = 'bool', z3.BoolVal(False)
                elif dn.startswith(('int', 'uint')):
                    kind, zero = 'int', z3.IntVal(0)
            eng.oblige(st, 'nonneg-size', n >= 0, line)
            return [Result(st, st.alloc(Arr(kind, z3.K(I, zero), n, 'ndarray')))]
        if name in ('np.empty', 'numpy.empty'):
            self.used.add('np.empty')
            n = to_int(args[0])
            dt = kwargs.get('dtype')
            kind = 'real'
            if dt is not None:
                dn = self.dtype_name(dt)
                kind = 'bool' if dn == 'bool' else ('int' if dn.startswith(('int', 'uint')) else 'real')
            eng.oblige(st, 'nonneg-size', n >= 0, line)
            return [Result(st, st.alloc(Arr(kind, fresh('empty', z3.ArraySort(I, eng.sort_of_kind(kind))), n, 'ndarray')))]
        if name in ('all', 'any') and len(args) == 1 and args[0].kind == 'ref' and isinstance(st.node(args[0]), Arr):
            n = st.node(args[0])
            q = fresh('q', I)
            if n.elem != 'bool':
                raise EngineError('%s:%d: %s() over a list of %s' % (eng.rel, line, name, n.elem))
            rng = z3.And(0 <= q, q < n.n)
            if name == 'all':
                return [Result(st, VBool(z3.ForAll([q], z3.Implies(rng, n.a[q]), patterns=[n.a[q]])))]
            return [Result(st, VBool(z3.Exists([q], z3.And(rng, n.a[q]), patterns=[n.a[q]])))]
        if name == 'abs' and len(args) == 1 and is_num(args[0]):
            x = args[0]
            if x.kind == 'real':
                return [Result(st, VReal(z3.If(x.term >= 0, x.term, -x.term)))]
            t = to_int(x)
            return [Result(st, VInt(z3.If(t >= 0, t, -t)))]
        if name == 'zip' and len(args) == 2:
            return [Result(st, VZip(args[0], args[1]))]
        if name == 'enumerate' and len(args) == 1:
            return [Result(st, VEnumerate(args[0]))]
        if name in ('max', 'min') and len(args) == 2 and all(a.kind in ('int', 'bool') for a in args):
            a, b = to_int(args[0]), to_int(args[1])
            return [Result(st, VInt(z3.If((a >= b) if name == 'max' else (a <= b), a, b)))]
        if name in ('max', 'min') and len(args) == 1 and args[0].kind == 'ref' and isinstance(st.node(args[0]), Arr) \
                and st.node(args[0]).elem == 'int':
            self.used.add('max/min')
            n = st.node(args[0])
            out = []
            yes, no = eng.fork(st, n.n > 0)
            for s in no:
                out.append(eng.exc(s, 'ValueError'))
            for s in yes:
                s = s.copy()
                m, w, k = fresh(name, I), fresh('argm', I), fresh('k', I)
                s.assume(0 <= w, w < n.n, n.a[w] == m,
                         z3.ForAll([k], z3.Implies(z3.And(0 <= k, k < n.n), (n.a[k] <= m) if name == 'max' else (n.a[k] >= m)),
                                   patterns=[n.a[k]]))
                out.append(Result(s, VInt(m)))
            return out
        if name == 'set' and len(args) == 1 and args[0].kind == 'ref' and isinstance(st.node(args[0]), Arr):
            # the set of the elements of a sequence: membership as for the sequence; its length is the number of
            # distinct elements (equal to the sequence's length exactly when no element repeats)
            self.used.add('set-of-seq')
            st = st.copy()
            n0 = st.node(args[0])
            d = fresh('ndistinct', I)
            p_, q_ = fresh('p', I), fresh('q', I)
            wp, wq = fresh('dup1', I), fresh('dup2', I)
            st.assume(0 <= d, d <= n0.n,
                      z3.Implies(d == n0.n, z3.ForAll([p_, q_], z3.Implies(z3.And(0 <= p_, p_ < q_, q_ < n0.n), n0.a[p_] != n0.a[q_]),
                                                      patterns=[z3.MultiPattern(n0.a[p_], n0.a[q_])])),
                      z3.Implies(d != n0.n, z3.And(0 <= wp, wp < wq, wq < n0.n, n0.a[wp] == n0.a[wq])))
            node2 = Arr(n0.elem, n0.a, n0.n, 'set')
            node2.distinct = d
            return [Result(st, st.alloc(node2))]
        if name == 'isinstance':
            return self.isinstance_(eng, st, args[0], args[1], node)
        if name in ('frozenset', 'set', 'tuple', 'list') and len(args) == 1 and args[0].kind == 'tuple':
            return [Result(st, VTuple(list(args[0].items), name == 'list'))]
        if name in ('list', 'tuple') and len(args) == 1 and args[0].kind == 'ref' and isinstance(st.node(args[0]), Dict) \
                and st.node(args[0]).seq is not None:
            st = st.copy()
            n0 = st.node(args[0])
            n1 = n0.replace()
            n1.nones = getattr(n0, 'nones', None)
            return [Result(st, st.alloc(n1))]
        if name in ('list', 'tuple') and len(args) == 1 and args[0].kind == 'ref' and isinstance(st.node(args[0]), Arr):
            st = st.copy()
            n0 = st.node(args[0])
            return [Result(st, st.alloc(Arr(n0.elem, n0.a, n0.n, name)))]
        if name in ('set', 'frozenset') and len(args) == 1 and args[0].kind == 'ref' and isinstance(st.node(args[0]), Arr):
            # only membership is used on such sets in the verified code: the sequence stands for its set of elements
            return [Result(st, args[0])]
        if name == 'warn':
            self.used.add('warn')
            return [Result(self.log_effect(eng, st, 'warn', args[0]), NONE)]
        if name == 'stdout.write':
            self.used.add('stdout.write')
            return [Result(self.log_effect(eng, st, 'print', args[0]), VInt(fresh('written', I)))]
        if name == 'sorted':
            return self.sorted_(eng, st, args[0], node)
        raise EngineError('%s:%d: call of %s has no assumed contract' % (eng.rel, line, name))

    def dtype_name(self, v):
        if v.kind == 'fn' and v.fk == 'builtin':
            return v.name.split('.')[-1]
        if v.kind == 'str':
            return 'str'
        raise EngineError('dtype value of kind %s' % v.kind)

    def log_effect(self, eng, st, tag, a=None, b=None):
        st = st.copy()
        ref = st.globals.get('$log')
        if ref is None:
            raise EngineError('effect outside a verified module with an effect log')
        n = st.node(ref)
        V = self.Val
        t = V.veff(smt.str_lit(tag), self.to_val(eng, a) if a is not None else V.vnone,
                   self.to_val(eng, b) if b is not None else V.vnone)
        st.setnode(ref, n.replace(a=z3.Store(n.a, n.n, t), n=n.n + 1))
        return st

    def isinstance_(self, eng, st, v, cls, node):
        if cls.kind == 'tuple':
            raise EngineError('isinstance with a tuple of classes')
        cname = getattr(cls, 'name', None)
        hook = self.isinstance_hook(eng, st, v, cls, node)
        if hook is not None:
            return hook
        if v.kind == 'exc':
            if cls.kind == 'cls':
                return [Result(st, VBool(smt.subclass(v.cls.term, cls.term)))]
            return [Result(st, VBool(False))]
        if v.kind == 'val':
            if cls.kind == 'cls' and cname in smt.EXC_PARENT:
                t = z3.And(self.Val.is_vexc(v.term), smt.subclass(self.Val.vcls(v.term), cls.term))
                return [Result(st, VBool(t))]
        if v.kind in ('none', 'int', 'bool', 'real', 'str', 'tuple', 'fn') and cls.kind == 'cls' and cname in smt.EXC_PARENT:
            return [Result(st, VBool(False))]
        if v.kind == 'ref' and isinstance(st.node(v), (Arr, Dict, Obj)) and cls.kind == 'cls' and cname in smt.EXC_PARENT:
            return [Result(st, VBool(False))]
        r = self.isinstance_hook(eng, st, v, cls, node)
        if r is not None:
            return r
        raise EngineError('%s:%d: isinstance(%s, %s) not modelled' % (eng.rel, node.lineno, v.kind, cname))

    def isinstance_hook(self, eng, st, v, cls, node):
        return None

    def sorted_(self, eng, st, seq, node):
        """fresh list, permutation of seq: forward and backward position maps"""
        self.used.add('sorted')
        if seq.kind == 'tuple':
            raise EngineError('sorted of a concrete tuple')
        if seq.kind == 'dictkeys':
            st2, keys, nkeys = self.dict_order(eng, st, seq.ref)
            elem, a0, n0 = st.node(seq.ref).kkind, keys, nkeys
        elif seq.kind == 'ref' and isinstance(st.node(seq), Arr):
            n = st.node(seq)
            elem, a0, n0 = n.elem, n.a, n.n
        elif seq.kind == 'ref' and isinstance(st.node(seq), Dict):
            st2, keys, nkeys = self.dict_order(eng, st, seq)
            elem, a0, n0 = st.node(seq).kkind, keys, nkeys
        else:
            raise EngineError('sorted of %s' % seq.kind)
        st = st.copy()
        srt = eng.sort_of_kind(elem)
        out = fresh('sorted', z3.ArraySort(I, srt))
        fwd = fresh('perm', z3.ArraySort(I, I))
        bwd = fresh('permInv', z3.ArraySort(I, I))
        i = fresh('i', I)
        st.assume(z3.ForAll([i], z3.Implies(z3.And(0 <= i, i < n0), z3.And(0 <= fwd[i], fwd[i] < n0, out[fwd[i]] == a0[i],
                                                                         bwd[fwd[i]] == i)), patterns=[a0[i]]),
                  z3.ForAll([i], z3.Implies(z3.And(0 <= i, i < n0), z3.And(0 <= bwd[i], bwd[i] < n0, a0[bwd[i]] == out[i],
                                                                         fwd[bwd[i]] == i)), patterns=[out[i]]))
        return [Result(st, st.alloc(Arr(elem, out, n0, 'list')))]

    # ---- methods ------------------------------------------------------------
    def call_method(self, eng, st, recv, name, args, kwargs, node, starv=None, dstar=None):
        line = getattr(node, 'lineno', 0)
        if recv.kind == 'mod':
            return self.call_builtin(eng, st, recv.name + '.' + name, args, kwargs, node, starv, dstar)
        if recv.kind == 'opt':
            out = []
            for s, v in eng.norm_opt(st, recv):
                if v.kind == 'none':
                    out.append(eng.exc(s, 'AttributeError'))
                else:
                    out.extend(self.call_method(eng, s, v, name, args, kwargs, node, starv, dstar))
            return out
        if recv.kind == 'ref':
            n = st.node(recv)
            if isinstance(n, Dict):
                return self.dict_method(eng, st, recv, n, name, args, kwargs, node)
            if isinstance(n, Arr):
                return self.arr_method(eng, st, recv, n, name, args, kwargs, node)
            if isinstance(n, Obj):
                return self.obj_method(eng, st, recv, n, name, args, kwargs, node, starv, dstar)
        if recv.kind == 'dictval':
            if name == 'items' or name == 'keys':
                raise EngineError('iteration over a detached dict value')
        if recv.kind == 'inner' and name == 'update' and len(args) == 1 and not kwargs:
            # d.update(e) on a dict held by value inside its container: keys of e are set / overwritten, others kept
            src = eng.as_dict(st, args[0])
            n = st.node(recv.ref)
            if src is None or src[5] or src[0] != n.inner[0] or src[1] != n.inner[1]:
                raise EngineError('%s:%d: update with %s' % (eng.rel, line, args[0].kind))
            st = st.copy()
            k = fresh('k', eng.sort_of_kind(n.inner[0]))
            drow = fresh('upd_dom', n.idom[recv.key].sort())
            vrow = fresh('upd_val', n.val[recv.key].sort())
            od, ov = n.idom[recv.key], n.val[recv.key]
            st.assume(z3.ForAll([k], drow[k] == z3.Or(od[k], src[2][k]), patterns=[drow[k]]),
                      z3.ForAll([k], vrow[k] == z3.If(src[2][k], src[3][k], ov[k]), patterns=[vrow[k]]))
            n2 = st.node(recv.ref)
            st.setnode(recv.ref, n2.replace(idom=z3.Store(n2.idom, recv.key, drow), val=z3.Store(n2.val, recv.key, vrow)))
            return [Result(st, NONE)]
        raise EngineError('%s:%d: method %s on %s' % (eng.rel, line, name, recv.kind))

    def dict_method(self, eng, st, recv, n, name, args, kwargs, node):
        if name == 'copy':
            return [Result(st, st.alloc(n.replace()))]
        if name == 'get':
            kt = eng.unwrap(args[0], n.kkind)
            dflt = args[1] if len(args) > 1 else NONE
            out = []
            yes, no = eng.fork(st, n.dom[kt])
            for s in yes:
                out.append(Result(s, eng.wrap(n.vkind, n.val[kt])))
            for s in no:
                out.append(Result(s, dflt))
            return out
        if name == 'pop':
            kt = eng.unwrap(args[0], n.kkind)
            out = []
            yes, no = eng.fork(st, n.dom[kt])
            for s in yes:
                s = s.copy()
                if n.inner:
                    val = VDictVal(n.inner[0], n.inner[1], n.idom[kt], n.val[kt])
                else:
                    val = eng.wrap(n.vkind, n.val[kt])
                s.setnode(recv, n.replace(dom=z3.Store(n.dom, kt, z3.BoolVal(False)), keys=None, nkeys=None, pos=None))
                out.append(Result(s, val))
            for s in no:
                if len(args) > 1:
                    out.append(Result(s, args[1]))
                else:
                    out.append(eng.exc(s, 'KeyError', args[0]))
            return out
        if name == 'values' and not n.inner:
            st2, keys, nkeys = self.dict_order(eng, st, recv)
            n = st.node(recv)
            k = fresh('k', I)
            vals = fresh('dictvals', z3.ArraySort(I, eng.sort_of_kind(n.vkind)))
            st = st.copy()
            st.assume(z3.ForAll([k], z3.Implies(z3.And(0 <= k, k < nkeys), vals[k] == n.val[keys[k]]), patterns=[vals[k]]))
            return [Result(st, st.alloc(Arr(n.vkind, vals, nkeys, 'list')))]
        if name == 'keys':
            return [Result(st, VDictKeys(recv))]
        if name == 'items':
            st2, keys, nkeys = self.dict_order(eng, st, recv)
            n = st.node(recv)
            if n.inner:
                # (key, the dict stored under it - read through the container)
                return [Result(st, VItemsNested(recv, keys, nkeys, n.kkind))]
            k = fresh('k', I)
            vals = fresh('itemvals', z3.ArraySort(I, eng.sort_of_kind(n.vkind)))
            st = st.copy()
            st.assume(z3.ForAll([k], z3.Implies(z3.And(0 <= k, k < nkeys), vals[k] == n.val[keys[k]]), patterns=[vals[k]]))
            return [Result(st, VArrT([n.kkind, n.vkind], [keys, vals], nkeys))]
        raise EngineError('%s:%d: dict method %s' % (eng.rel, node.lineno, name))

    def arr_method(self, eng, st, recv, n, name, args, kwargs, node):
        if name == 'copy':
            return [Result(st, st.alloc(n.replace()))]
        if name == 'extend' and n.flavour == 'list' and args[0].kind == 'ref' and isinstance(st.node(args[0]), Arr):
            other = st.node(args[0])
            if other.elem != n.elem:
                raise EngineError('extend with a sequence of another element kind')
            st = st.copy()
            k = fresh('k', I)
            a2 = fresh('extended', n.a.sort())
            st.assume(z3.ForAll([k], a2[k] == z3.If(k < n.n, n.a[k], other.a[k - n.n]), patterns=[a2[k]]))
            st.setnode(recv, n.replace(a=a2, n=n.n + other.n))
            return [Result(st, NONE)]
        if name == 'append' and n.flavour == 'list' and len(args) == 1:
            v = args[0]
            if v.kind != n.elem and not (n.elem == 'val'):
                raise EngineError('%s:%d: append of %s to a list of %s' % (eng.rel, node.lineno, v.kind, n.elem))
            st = st.copy()
            t = self.to_val(eng, v) if n.elem == 'val' else v.term
            st.setnode(recv, n.replace(a=z3.Store(n.a, n.n, t), n=n.n + 1))
            return [Result(st, NONE)]
        raise EngineError('%s:%d: array/list method %s' % (eng.rel, node.lineno, name))

    def obj_method(self, eng, st, recv, n, name, args, kwargs, node, starv=None, dstar=None):
        cls = self.module_classes.get(n.cls)
        if cls is not None:
            for m in cls.body:
                if isinstance(m, ast.FunctionDef) and m.name == name and not any(
                        isinstance(d, ast.Attribute) and d.attr == 'setter' for d in m.decorator_list):
                    static = any(isinstance(d, ast.Name) and d.id == 'staticmethod' for d in m.decorator_list)
                    fv = VFn('def', rel=self.rel, qualname='%s.%s' % (n.cls, name), node=m, self_val=None if static else recv)
                    return eng.call_def(st, fv, args, kwargs, node, starv, dstar)
        raise EngineError('%s:%d: method %s of %s' % (eng.rel, node.lineno, name, n.cls))

    # ---- callbacks & symbolic functions ------------------------------------------
    def call_callback(self, eng, st, fv, args, kwargs, node):
        st = st.copy()
        lg = st.node(fv.log)
        k = lg.n
        newargs = []
        if len(args) != len(lg.args):
            raise EngineError('callback %s called with %d arguments, declared %d' % (fv.name, len(args), len(lg.args)))
        for d, a in zip(lg.args, args):
            if d[0] == 'arr':
                if a.kind == 'ref' and isinstance(st.node(a), Arr):
                    an = st.node(a)
                    newargs.append(('arr', d[1], z3.Store(d[2], k, an.a), z3.Store(d[3], k, an.n)))
                else:
                    raise EngineError('callback array argument of kind %s' % a.kind)
            else:
                newargs.append(('val', d[1], z3.Store(d[2], k, eng.unwrap(a, d[1]))))
        rd = lg.ret
        if rd[0] == 'arr':
            ra = fresh(fv.name + '_r', z3.ArraySort(I, eng.sort_of_kind(rd[1])))
            rn = fresh(fv.name + '_rlen', I)
            st.assume(rn >= 0)
            if lg.extra.get('samelen') is not None:
                a0 = st.node(args[lg.extra['samelen']])
                st.assume(rn == a0.n)
            res = st.alloc(Arr(rd[1], ra, rn, 'ndarray'))
            newret = ('arr', rd[1], z3.Store(rd[2], k, ra), z3.Store(rd[3], k, rn))
        else:
            rt = fresh(fv.name + '_r', eng.sort_of_kind(rd[1]))
            res = eng.wrap(rd[1], rt)
            newret = ('val', rd[1], z3.Store(rd[2], k, rt))
        st.setnode(fv.log, lg.replace(n=k + 1, args=newargs, ret=newret))
        return [Result(st, res)]

    def call_symbolic_fn(self, eng, st, term, args, kwargs, node):
        """case split over the constructors of Fn"""
        out = []
        Fn = self.Fn
        for ci in range(Fn.num_constructors()):
            ctor = Fn.constructor(ci)
            rec = Fn.recognizer(ci)
            s = st.copy()
            s.assume(rec(term))
            if not eng.feasible(s, full=True):     # which functions a value can be is known from quantified facts
                continue
            cname = ctor.name()
            if cname in ('ext', 'pure'):
                # external function: uninterpreted result; effectful ones are logged
                a0 = self.to_val(eng, args[0]) if args else self.Val.vnone
                if cname == 'ext' and '$log' in s.globals:
                    s = self.log_effect(eng, s, 'call', VFn('sym', term=term), VVal(a0))
                self.used.add('callback')
                out.append(Result(s, VVal(self.apply_ext(term, a0))))
            elif cname.startswith('lam_'):
                lam, caps = self.lambdas[cname]
                env = {}
                for j, (nm, kind) in enumerate(caps):
                    env[nm] = eng.wrap(kind, Fn.accessor(ci, j)(term))
                out.extend(eng.call_inline(s, lam, env, args, kwargs, node))
            elif cname.startswith('def_'):
                nm = cname[4:]
                c = self.registry.get('%s::%s' % (self.rel, nm))
                if c is not None and c.extra.get('pure_uninterpreted'):
                    a0 = self.to_val(eng, args[0]) if args else self.Val.vnone
                    out.append(Result(s, VVal(self.apply_ext(term, a0))))
                    continue
                fv = VFn('def', rel=self.rel, qualname=nm, node=self.module_defs[nm])
                out.extend(eng.call_def(s, fv, args, kwargs, node))
            else:
                raise EngineError('constructor %s' % cname)
        return out


class VDictKeys(SV):
    kind = 'dictkeys'

    def __init__(self, ref):
        self.ref = ref


class VArrT(SV):
    """sequence of tuples by value: parallel arrays"""
    kind = 'arrT'

    def __init__(self, kinds, arrays, n):
        self.kinds, self.arrays, self.n = kinds, arrays, n


def _split_types(s):
    out, depth, cur = [], 0, ''
    for ch in s:
        if ch == '[':
            depth += 1
        elif ch == ']':
            depth -= 1
        if ch == ',' and depth == 0:
            out.append(cur)
            cur = ''
        else:
            cur += ch
    if cur.strip():
        out.append(cur)
    return out
