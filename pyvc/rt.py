"""Run-time side of the contracts (DESIGN.md section 5): table states, views,
the representation invariant, snapshots, and the kernels extracted from the
.pyx sources installed in place of the (possibly stale) compiled .so files.

Everything here observes tables through raw fields only, never through the
public accessors that change the representation.
"""
import itertools
import os
import sys
import types
import warnings

import numpy as np
import scipy.sparse as sp

from . import source

warnings.filterwarnings('ignore')

_installed = {}


def install_extracted_kernels():
    """Replace biom.table._filter/_transform/subsample (compiled .so, which
    cannot be rebuilt here) by the kernels mechanically extracted from the
    .pyx *sources* in /repo.  Returns {name: Extracted}.  Idempotent."""
    if _installed:
        return _installed
    import biom
    import biom.table as bt
    ex_f = source.extract_pyx('biom/_filter.pyx')
    ex_t = source.extract_pyx('biom/_transform.pyx')
    ex_s = source.extract_pyx('biom/_subsample.pyx')
    ns_f, ns_t, ns_s = ex_f.namespace(), ex_t.namespace(), ex_s.namespace()
    _installed['so'] = {'_filter': bt._filter, '_transform': bt._transform,
                        'subsample': bt.subsample}
    _installed['ns'] = {'_filter': ns_f, '_transform': ns_t, '_subsample': ns_s}
    _installed['ex'] = {'_filter': ex_f, '_transform': ex_t, '_subsample': ex_s}
    bt._filter = ns_f['_filter']
    bt._transform = ns_t['_transform']
    bt.subsample = ns_s['subsample']
    biom.subsample = ns_s['subsample']
    return _installed


def compiled_kernels():
    install_extracted_kernels()
    return _installed['so']


def extracted_ns(name):
    install_extracted_kernels()
    return _installed['ns'][name]


class use_compiled:
    """context: temporarily put the compiled kernels back (fidelity runs)"""
    def __enter__(self):
        import biom
        import biom.table as bt
        install_extracted_kernels()
        self.saved = (bt._filter, bt._transform, bt.subsample)
        so = _installed['so']
        bt._filter, bt._transform, bt.subsample = so['_filter'], so['_transform'], so['subsample']
        return self

    def __exit__(self, *a):
        import biom.table as bt
        bt._filter, bt._transform, bt.subsample = self.saved
        return False


# --------------------------------------------------------------------------
# views
# --------------------------------------------------------------------------

def plain(x):
    """metadata value -> plain comparable python value"""
    if isinstance(x, dict):
        return {plain(k): plain(v) for k, v in x.items()}
    if isinstance(x, (list, tuple)):
        return [plain(v) for v in x]
    if isinstance(x, np.ndarray):
        return [plain(v) for v in x.tolist()]
    if isinstance(x, np.generic):
        return x.item()
    if isinstance(x, bytes):
        return x
    return x


def md_view(md):
    if md is None:
        return None
    return [None if m is None else plain(dict(m)) for m in md]


def dense_of(m):
    """dense float matrix of a scipy matrix without touching it"""
    if sp.issparse(m):
        c = m.copy()
        return np.asarray(c.toarray(), dtype=float)
    return np.asarray(m, dtype=float)


class View:
    FIELDS = ('obs', 'samp', 'A', 'obs_md', 'samp_md', 'type', 'table_id',
              'create_date', 'generated_by', 'obs_gmd', 'samp_gmd')

    def __init__(self, t):
        self.obs = [str(x) for x in t._observation_ids.tolist()]
        self.samp = [str(x) for x in t._sample_ids.tolist()]
        self.A = dense_of(t._data)
        self.obs_md = md_view(t._observation_metadata)
        self.samp_md = md_view(t._sample_metadata)
        self.type = t.type
        self.table_id = t.table_id
        self.create_date = t.create_date
        self.generated_by = t.generated_by
        self.obs_gmd = plain(t._observation_group_metadata) if t._observation_group_metadata else None
        self.samp_gmd = plain(t._sample_group_metadata) if t._sample_group_metadata else None

    def ids(self, axis):
        return self.samp if axis == 'sample' else self.obs

    def md(self, axis):
        return self.samp_md if axis == 'sample' else self.obs_md

    def vec(self, axis, k):
        return self.A[:, k] if axis == 'sample' else self.A[k, :]

    def diff(self, other, fields=None, exact=True):
        """list of field names in which two views differ"""
        out = []
        for f in fields or self.FIELDS:
            a, b = getattr(self, f), getattr(other, f)
            if f == 'A':
                if a.shape != b.shape or not _mat_eq(a, b, exact):
                    out.append(f)
            elif a != b:
                out.append(f)
        return out

    def core(self):
        return (tuple(self.obs), tuple(self.samp), self.A.shape, self.A.tobytes(),
                repr(self.obs_md), repr(self.samp_md), self.type)

    def describe(self):
        return {'obs': self.obs, 'samp': self.samp, 'A': self.A.tolist(),
                'obs_md': self.obs_md, 'samp_md': self.samp_md, 'type': self.type,
                'table_id': self.table_id}


def _mat_eq(a, b, exact=True):
    if exact:
        return a.shape == b.shape and np.array_equal(
            np.ascontiguousarray(a + 0.0).view(np.int64), np.ascontiguousarray(b + 0.0).view(np.int64))
    return a.shape == b.shape and np.array_equal(a, b)


def view(t):
    return View(t)


def layout(t):
    """raw description of the sparse layout (no mutation)"""
    d = t._data
    fmt = d.getformat()
    info = {'format': fmt, 'shape': tuple(int(x) for x in d.shape)}
    if fmt in ('csr', 'csc'):
        ip, ix, da = d.indptr, d.indices, d.data
        srt = True
        for k in range(len(ip) - 1):
            seg = ix[ip[k]:ip[k + 1]]
            if len(seg) > 1 and not np.all(seg[1:] > seg[:-1]):
                srt = False
        info['sorted'] = srt
        info['stored'] = int(len(da))
        info['stored_zeros'] = int(np.sum(da == 0))
    return info


# --------------------------------------------------------------------------
# representation invariant (DESIGN.md 4.2) - returns violated clause names
# --------------------------------------------------------------------------

def inv(t, allow_empty_axis=True):
    bad = []
    d = t._data
    if not sp.issparse(d) or d.getformat() not in ('csr', 'csc'):
        bad.append('data-format:%s' % (d.getformat() if sp.issparse(d) else type(d).__name__))
        return bad
    if d.dtype != np.float64:
        bad.append('dtype:%s' % d.dtype)
    O, S = t._observation_ids, t._sample_ids
    if not isinstance(O, np.ndarray) or O.ndim != 1 or not isinstance(S, np.ndarray) or S.ndim != 1:
        bad.append('ids-not-1d-arrays')
        return bad
    if tuple(d.shape) != (len(O), len(S)):
        bad.append('shape!=ids:%s vs (%d,%d)' % (tuple(d.shape), len(O), len(S)))
    major = d.shape[0] if d.getformat() == 'csr' else d.shape[1]
    minor = d.shape[1] if d.getformat() == 'csr' else d.shape[0]
    ip, ix, da = d.indptr, d.indices, d.data
    if len(ip) != major + 1 or (len(ip) and ip[0] != 0):
        bad.append('indptr-shape')
    elif np.any(np.diff(ip) < 0) or ip[-1] > len(da) or len(da) != len(ix):
        bad.append('indptr-monotone/length')
    else:
        for k in range(major):
            seg = ix[ip[k]:ip[k + 1]]
            if len(seg) and (seg.min() < 0 or seg.max() >= minor):
                bad.append('index-out-of-range')
                break
            if len(set(seg.tolist())) != len(seg):
                bad.append('duplicate-index-in-slice')
                break
        if d.getformat() == 'csc' and not layout(t)['sorted']:
            bad.append('csc-unsorted')
    for name, ids, index in (('obs', O, t._obs_index), ('samp', S, t._sample_index)):
        lst = ids.tolist()
        if len(set(lst)) != len(lst):
            bad.append(name + '-ids-duplicated')
        if ids.dtype.kind == 'U':
            pass
        elif len(lst) and ids.dtype.kind not in 'UO':
            bad.append(name + '-ids-dtype:%s' % ids.dtype)
        if index is None or dict(index) != {x: i for i, x in enumerate(lst)}:
            bad.append(name + '-index-stale')
    for name, md, n in (('obs', t._observation_metadata, len(O)), ('samp', t._sample_metadata, len(S))):
        if md is not None:
            if not isinstance(md, tuple):
                bad.append(name + '-md-not-tuple')
            if len(md) != n:
                bad.append(name + '-md-length')
            elif not all(isinstance(m, dict) for m in md):
                bad.append(name + '-md-entry-not-mapping')
    return bad


# --------------------------------------------------------------------------
# state enumeration (through the public API only)
# --------------------------------------------------------------------------

LAYOUTS = ('csr', 'csr_unsorted', 'csc')
ZEROS = ('nz', 'z1', 'zall')

def _rep(k):
    # the alphabets list six shapes; wider axes reuse them with a round number so ids stay unique
    return '' if k < 6 else str(k // 6)


ID_ALPHABETS = {
    'plain': (lambda ax, k: '%s%d' % ('O' if ax == 'observation' else 'S', k + 1)),
    'punct': (lambda ax, k: ['a b/c', 'x;y|z', "q'r\"s", 'k,l.m', 'p:q=r', '(t)[u]'][k % 6] + ('o' if ax == 'observation' else 's') + _rep(k)),
    'nonascii': (lambda ax, k: ['öb%s', '日本%s', 'éè%s', 'αβ%s', 'Ж%s', 'ü%s'][k % 6] % (('o' if ax == 'observation' else 's') + _rep(k))),
    'long': (lambda ax, k: ('L%d' % k) + 'x' * 300 + ('o' if ax == 'observation' else 's')),
    'numeric': (lambda ax, k: '%d%s' % (10 ** k, '.5' if ax == 'observation' else '')),
    # leading / trailing / inner blanks (in the C01 domain; not used for TSV, whose domain excludes outer blanks)
    'padded': (lambda ax, k: [' lead%s', 'trail%s ', ' both%s ', 'in ner%s', '  two%s', 'x%s  '][k % 6] % (('o' if ax == 'observation' else 's') + _rep(k))),
}


def make_ids(kind, axis, n):
    return [ID_ALPHABETS[kind](axis, k) for k in range(n)]


def make_md(kind, axis, n):
    if kind == 'none':
        return None
    if kind == 'text':
        return [{'grp': 'g%d' % (k % 2), 'name': 'n%d%s' % (k, axis[0])} for k in range(n)]
    if kind == 'num':
        return [{'depth': float(k) + 0.5, 'count': k * 3, 'flag': bool(k % 2)} for k in range(n)]
    if kind == 'tax':
        key = 'taxonomy'
        return [{key: ['k__A', 'p__B%d' % (k % 2), 's__C%d' % k]} for k in range(n)]
    if kind == 'slash':
        return [{'a/b': 'v%d' % k, 'grp': 'g%d' % (k % 2)} for k in range(n)]
    if kind == 'precise':
        # floats that need all their digits (an export that formats with a fixed precision shows here)
        return [{'ratio': 6.8712345678 + k / 7.0, 'tiny': 1.2345678901234e-7 * (k + 1), 'big': 123456789.123456 + k}
                for k in range(n)]
    if kind == 'jagged':
        # differing key sets per id (what add_metadata on a subset of the ids leaves behind); the first id lacks 'extra'
        out = []
        for k in range(n):
            d = {'grp': 'g%d' % (k % 2)} if k % 3 != 2 else {}
            if k >= 1:
                d['extra'] = 'e%d' % k
            if k % 2 == 0:
                d['name'] = 'n%d%s' % (k, axis[0])
            out.append(d)
        return out
    raise ValueError(kind)


def _csr_with(dense, unsorted=False, zeros='nz'):
    """scipy csr matrix for `dense` with chosen index order and stored zeros
    ('nz' none, 'z1' the first zero cell stored, 'zall' every zero cell)."""
    dense = np.asarray(dense, dtype=float)
    m, n = dense.shape
    indptr, indices, data = [0], [], []
    first_zero_done = False
    for i in range(m):
        cols = []
        for j in range(n):
            v = dense[i, j]
            if v != 0:
                cols.append(j)
            elif zeros == 'zall':
                cols.append(j)
            elif zeros == 'z1' and not first_zero_done:
                cols.append(j)
                first_zero_done = True
        if unsorted:
            cols = cols[::-1]
        indices.extend(cols)
        data.extend(dense[i, j] for j in cols)
        indptr.append(len(indices))
    return sp.csr_matrix((np.array(data, dtype=float), np.array(indices, dtype=np.int32),
                          np.array(indptr, dtype=np.int32)), shape=(m, n))


def _identity_f(v, i, md):
    return v


def make_table(dense, layout_='csr', zeros='nz', ids='plain', obs_md='none', samp_md='none',
               type=None, table_id=None, **kw):
    """Build a Table in a given layout through public API routes only:
    constructor from a caller-supplied scipy matrix, then (for csc) one
    read accessor that converts the layout in place."""
    from biom import Table
    dense = np.asarray(dense, dtype=float)
    m, n = dense.shape
    mat = _csr_with(dense, unsorted=(layout_ == 'csr_unsorted'), zeros=zeros)
    oid = ids['observation'] if isinstance(ids, dict) else make_ids(ids, 'observation', m)
    sid = ids['sample'] if isinstance(ids, dict) else make_ids(ids, 'sample', n)
    omd = obs_md if not isinstance(obs_md, str) else make_md(obs_md, 'observation', m)
    smd = samp_md if not isinstance(samp_md, str) else make_md(samp_md, 'sample', n)
    t = Table(mat, oid, sid, omd, smd, table_id=table_id, type=type, **kw)
    if layout_ == 'csc' and n > 0 and m > 0:
        # reach the CSC layout through public routes only (whichever converts in place in this tree); if none
        # does, the layout is not reachable here and the state stays as it is
        routes = (lambda: t.data(sid[0], axis='sample', dense=False),           # read accessor
                  lambda: t.transform(_identity_f, axis='sample', inplace=True),   # identity transform
                  lambda: t.filter(list(sid), axis='sample', inplace=True))        # keep-everything filter
        for route in routes:
            if t._data.getformat() == 'csc':
                break
            route()
    return t


def matrices(max_rows, max_cols, values=(0, 1, 2), min_rows=1, min_cols=1, shapes=None):
    """all matrices over `values` for the given shapes"""
    if shapes is None:
        shapes = [(r, c) for r in range(min_rows, max_rows + 1) for c in range(min_cols, max_cols + 1)]
    for (r, c) in shapes:
        for cells in itertools.product(values, repeat=r * c):
            yield np.array(cells, dtype=float).reshape(r, c)


STRESS_VALUES = [-1.0, 0.5, 1.0 / 3.0, 1e-7, 1e22, 5e-324, 1.7976931348623157e308, -2.5, 1.23456789012, 3.0]


def stress_matrices():
    v = STRESS_VALUES
    yield np.array([[v[0], 0.0, v[1]], [v[2], v[3], 0.0]])
    yield np.array([[v[4], v[5]], [0.0, v[6]], [v[7], v[8]]])
    yield np.array([[0.0, 0.0], [0.0, v[9]]])
    yield np.array([[v[3]]])
    yield np.array([[1.0, -1.0, 0.0], [0.0, 0.0, 0.0], [-3.0, 1.0, 2.0]])


def states(mats, layouts=LAYOUTS, zeros=ZEROS, **kw):
    """(description, table-factory) for every matrix x layout x stored-zero
    mode.  Factories build a fresh table on each call."""
    for dm in mats:
        for lay in layouts:
            for z in zeros:
                if z != 'nz' and not np.any(dm == 0):
                    continue
                desc = {'A': dm.tolist(), 'layout': lay, 'zeros': z}
                desc.update({k: v for k, v in kw.items() if isinstance(v, (str, type(None)))})
                yield desc, (lambda dm=dm, lay=lay, z=z: make_table(dm, lay, z, **kw))


def state_key(desc):
    return repr(sorted(desc.items(), key=lambda kv: kv[0]))


def subsets(seq):
    seq = list(seq)
    for r in range(len(seq) + 1):
        for c in itertools.combinations(seq, r):
            yield list(c)


# --------------------------------------------------------------------------
# running a bounded scope over many cases, in parallel
# --------------------------------------------------------------------------

def _chunks(it, n):
    buf = []
    for x in it:
        buf.append(x)
        if len(buf) >= n:
            yield buf
            buf = []
    if buf:
        yield buf


_RUN_CASE = None


def _worker(chunk):
    import traceback
    out = {'n': 0, 'keys': set(), 'fails': [], 'samples': [], 'errors': []}
    for case in chunk:
        try:
            res = _RUN_CASE(case)
        except Exception:
            out['errors'].append((case, traceback.format_exc(limit=6)))
            continue
        out['n'] += res.get('n', 1)
        if res.get('nontrivial', True):
            out['keys'].add(hash(repr(case)))
        for k in res.get('keys', ()):
            out['keys'].add(k)
        for f in res.get('fails', ()):
            out['fails'].append((case, f))
        if len(out['samples']) < 1:
            out['samples'].append(case)
    return out


def run_scope(rep, name, bound, cases, run_case, procs=None, chunk=64, exhaustive=None, module=None):
    """Evaluate ``run_case(case)`` for every case.  run_case returns
    {'n': evaluations, 'nontrivial': bool, 'fails': [fail...]} where a fail is
    a dict(clause, wclass, expected, observed[, witness]).  Harness crashes are
    checker errors (exit 3), not violations."""
    import multiprocessing as mp
    global _RUN_CASE
    install_extracted_kernels()
    sc = rep.scope(name, bound)
    _RUN_CASE = run_case
    procs = procs or min(16, os.cpu_count() or 1)
    # cases are streamed: at most a few chunks per worker exist at any time (thorough scopes have millions of cases)
    chunks = _chunks(cases, chunk)
    first = list(itertools.islice(chunks, 2))
    if procs > 1 and len(first) > 1:
        import threading
        sem = threading.BoundedSemaphore(procs * 4)

        def feed():
            for c in itertools.chain(first, chunks):
                sem.acquire()
                yield c

        def drain(pool):
            for r in pool.imap_unordered(_worker, feed()):
                sem.release()
                yield r
        ctx = mp.get_context('fork')
        pool = ctx.Pool(procs)
        results = drain(pool)
    else:
        pool = None
        results = (_worker(c) for c in itertools.chain(first, chunks))
    nerr = 0
    for r in results:
        sc.evaluations += r['n']
        sc.nontrivial |= r['keys']
        for s in r['samples']:
            if len(sc.samples) < 3:
                sc.samples.append(s)
        for case, f in r['fails']:
            rep.violation('%s/%s' % (name, f['clause']), f['wclass'], f.get('witness', case),
                          f.get('expected'), f.get('observed'),
                          replay={'module': module or rep.pid, 'scope': name, 'case': case}, tier='B')
        for case, tb in r['errors']:
            nerr += 1
            if nerr <= 3:
                rep.error('harness crash in scope %s on case %r: %s' % (name, case, tb.strip().splitlines()[-1]))
                sys.stderr.write(tb)
    if pool is not None:
        pool.close()
        pool.join()
    sc.done(exhaustive)
    return sc


def fail(clause, wclass, expected=None, observed=None, witness=None):
    d = {'clause': clause, 'wclass': wclass, 'expected': expected, 'observed': observed}
    if witness is not None:
        d['witness'] = witness
    return d


def table_from_case(case):
    """case keys: A, layout, zeros, ids, obs_md, samp_md, type"""
    return make_table(np.array(case['A'], dtype=float).reshape(case.get('shape', np.shape(case['A']))),
                      case.get('layout', 'csr'), case.get('zeros', 'nz'),
                      ids=case.get('ids', 'plain'), obs_md=case.get('obs_md', 'none'),
                      samp_md=case.get('samp_md', 'none'), type=case.get('type'),
                      table_id=case.get('table_id'))


def state_class(case):
    """witness class of a table state: which representation features it has"""
    parts = []
    if case.get('layout') == 'csr_unsorted':
        parts.append('unsorted-indices')
    elif case.get('layout') == 'csc':
        parts.append('csc')
    if case.get('zeros', 'nz') != 'nz':
        parts.append('stored-zeros')
    A = np.asarray(case['A'], dtype=float)
    if A.size and A.min() < 0:
        parts.append('negative-values')
    if case.get('ids', 'plain') != 'plain':
        parts.append('ids-' + case['ids'])
    return '+'.join(parts) or 'canonical'


def replay_case(module, case):
    """generic --replay implementation for bounded cases"""
    import importlib
    if (case.get('replay') or {}).get('kind') == 'obligation':
        return replay_obligation(module, case)
    install_extracted_kernels()
    mod = importlib.import_module('props.%s' % module)
    rc = getattr(mod, 'SCOPES')[case['replay']['scope']]
    res = rc(case['replay']['case'])
    fails = res.get('fails', [])
    want = case['obligation'].split('/', 1)[1] if '/' in case['obligation'] else case['obligation']
    hit = [f for f in fails if f['clause'] == want]
    print('replay case:', case['replay']['case'])
    for f in fails:
        print('  FAILS clause=%s class=%s\n    expected=%r\n    observed=%r' % (f['clause'], f['wclass'], f['expected'], f['observed']))
    if hit:
        print('VIOLATION property=%s replay=(replayed: the recorded clause fails again)' % case['property'])
        return 1
    print('replay: recorded clause %s holds on the current tree' % want)
    return 0


def replay_obligation(module, case):
    """--replay of a deductive violation: the obligation is generated again from /repo's current source and handed
    to the solvers; when the run that reported it also had a failing input from the bounded tier, that input is
    replayed on the real code as well"""
    from . import prove
    key = case['replay']['contract']
    want = prove.noline(case['obligation'])
    res = prove.prove_contracts([key], budget_s=10.0)[key]
    if res['error']:
        print('replay: the prover refuses %s on the current tree: %s' % (key, res['error'][:300]))
        return 3
    st = {prove.noline(a['name']): a['status'] for a in prove.aggregate(res['obligations'])}
    status = st.get(want)
    print('replay obligation %s: %s on the current tree' % (want, status or 'no longer generated'))
    rb = case['replay'].get('related_bounded_replay')
    rc = 0
    if rb and rb.get('scope'):
        print('replaying the failing input of the same run on the real code:')
        rc = replay_case(rb.get('module', module), {'property': case['property'], 'obligation': case['replay'].get('related_bounded_obligation') or '',
                                                    'replay': rb})
    if status is not None and status != 'proved':
        print('VIOLATION property=%s replay=(replayed: obligation %s is %s again)%s'
              % (case['property'], want, status, '' if rc == 1 else ' no-failing-input-found'))
        return 1
    return rc
