"""SMT plumbing: sorts shared by the encoder, and the solver portfolio that
discharges obligations (z3 5.1 in-process API on SMT-LIB text, then
/usr/bin/z3 4.8.12 and cvc5 on `unknown`)."""
import multiprocessing as mp
import os
import shutil
import subprocess
import tempfile
import time

import z3

# ---- sorts -----------------------------------------------------------------
Str = z3.DeclareSort('Str')
Cls = z3.DeclareSort('Cls')
I, R, B = z3.IntSort(), z3.RealSort(), z3.BoolSort()

len_s = z3.Function('len_s', Str, I)
concat_s = z3.Function('concat_s', Str, Str, Str)
lt_s = z3.Function('lt_s', Str, Str, B)
subclass = z3.Function('subclass', Cls, Cls, B)

_str_lits = {}
_cls_consts = {}


def str_lit(s):
    if s not in _str_lits:
        _str_lits[s] = z3.Const('str!%d!%s' % (len(_str_lits), ''.join(c if c.isalnum() else '_' for c in s)[:20]), Str)
    return _str_lits[s]


def lit_text(term):
    """python text of a string-literal constant, or None"""
    for k, c in _str_lits.items():
        if c is term or c.eq(term):
            return k
    return None


def cls_const(name):
    if name not in _cls_consts:
        _cls_consts[name] = z3.Const('cls!' + name, Cls)
    return _cls_consts[name]


# python exception hierarchy used by the verified code (builtins) - repo classes
# are added from biom/exception.py by the engine
BUILTIN_EXC = {
    'BaseException': None, 'Exception': 'BaseException', 'KeyError': 'LookupError', 'LookupError': 'Exception',
    'IndexError': 'LookupError', 'ValueError': 'Exception', 'TypeError': 'Exception',
    'AttributeError': 'Exception', 'RuntimeError': 'Exception', 'ZeroDivisionError': 'ArithmeticError',
    'ArithmeticError': 'Exception', 'AssertionError': 'Exception', 'StopIteration': 'Exception',
    'NotImplementedError': 'RuntimeError', 'OSError': 'Exception', 'UnicodeDecodeError': 'ValueError',
}
EXC_PARENT = dict(BUILTIN_EXC)


def is_subclass_py(a, b):
    while a is not None:
        if a == b:
            return True
        a = EXC_PARENT.get(a)
    return False


def background():
    """facts about literals: distinct string literals with their lengths, distinct
    classes with the concrete subclass relation among the known ones"""
    out = []
    lits = list(_str_lits.items())
    if len(lits) > 1:
        out.append(z3.Distinct(*[c for _, c in lits]))
    for s, c in lits:
        out.append(len_s(c) == len(s))
    cl = list(_cls_consts.items())
    if len(cl) > 1:
        out.append(z3.Distinct(*[c for _, c in cl]))
    for a, ca in cl:
        for b, cb in cl:
            out.append(subclass(ca, cb) == z3.BoolVal(is_subclass_py(a, b)))
    x = z3.Const('s!x', Str)
    y = z3.Const('s!y', Str)
    out.append(z3.ForAll([x], len_s(x) >= 0, patterns=[len_s(x)]))
    out.append(z3.ForAll([x, y], len_s(concat_s(x, y)) == len_s(x) + len_s(y), patterns=[concat_s(x, y)]))
    if '' in _str_lits:
        # the empty string is the only string of length 0
        out.append(z3.ForAll([x], z3.Implies(len_s(x) == 0, x == _str_lits['']), patterns=[len_s(x)]))
    return out


# ---- discharging -----------------------------------------------------------

class Query:
    """one proof obligation: valid iff  hyps /\\ not goal  is unsat"""
    __slots__ = ('name', 'smt2', 'meta', 'qf')

    def __init__(self, name, hyps, goal, meta=None):
        s = z3.Solver()
        for h in hyps:
            s.add(h)
        s.add(z3.Not(goal))
        self.name = name
        self.smt2 = s.to_smt2()
        self.meta = meta or {}
        self.qf = 'forall' not in self.smt2 and 'exists' not in self.smt2


# parameter variations tried (in this order) when the default configuration answers `unknown`: quantifier
# instantiation is heuristic, and a query that times out under one configuration is often immediate under another
VARIANTS = [{'smt.mbqi': False}, {'smt.random_seed': 7}, {'smt.mbqi': False, 'smt.random_seed': 3},
            {'smt.qi.eager_threshold': 100.0, 'smt.random_seed': 11}, {'smt.arith.solver': 2, 'smt.mbqi': False}]


def _run_z3_api(smt2, timeout_ms, want_model, params=None):
    ctx = z3.Context()
    s = z3.Solver(ctx=ctx)
    s.set('timeout', timeout_ms)
    for k, v in (params or {}).items():
        s.set(k, v)
    s.from_string(smt2)
    t0 = time.time()
    r = s.check()
    secs = time.time() - t0
    res = str(r)
    model = None
    reason = ''
    if res == 'sat' and want_model:
        m = s.model()
        model = {str(d): str(m[d]) for d in m.decls()}
    if res == 'unknown':
        reason = s.reason_unknown()
    return res, secs, model, reason


def _run_cli(cmd, smt2, timeout_s):
    with tempfile.NamedTemporaryFile('w', suffix='.smt2', delete=False) as fh:
        fh.write(smt2)
        path = fh.name
    t0 = time.time()
    try:
        p = subprocess.run(cmd + [path], capture_output=True, text=True, timeout=timeout_s)
        out = (p.stdout or '').strip().split('\n')[0].strip()
    except subprocess.TimeoutExpired:
        out = 'timeout'
    finally:
        os.unlink(path)
    return out, time.time() - t0


def discharge_one(args):
    name, smt2, budget_s, want_model, portfolio = args
    trail = []
    # two rounds: every configuration first gets a short budget (a query that the default heuristics do not settle
    # within seconds is usually immediate under another seed), then the full one
    short = min(3.0, budget_s)
    rounds = [short] if (not portfolio or short >= budget_s) else [short, budget_s]
    reason = ''
    for rnd, b in enumerate(rounds):
        if not portfolio and rnd == 0:
            b = budget_s
        try:
            res, secs, model, reason = _run_z3_api(smt2, int(b * 1000), want_model)
        except Exception as e:  # parser or solver crash
            res, secs, model, reason = 'error', 0.0, None, repr(e)
        trail.append(('z3-%s' % z3.get_version_string(), res, round(secs, 3)))
        if res in ('unsat', 'sat') or not portfolio:
            return name, res, trail, model, reason
        # same solver, other heuristics
        for vi, params in enumerate(VARIANTS):
            try:
                res2, secs, model2, reason2 = _run_z3_api(smt2, int(b * 1000), want_model, params)
            except Exception as e:
                res2, secs, model2, reason2 = 'error', 0.0, None, repr(e)
            trail.append(('z3-%s/v%d' % (z3.get_version_string(), vi + 1), res2, round(secs, 3)))
            if res2 in ('unsat', 'sat'):
                return name, res2, trail, model2, reason2
    # portfolio on unknown / timeout
    if shutil.which('/usr/bin/z3'):
        out, secs = _run_cli(['/usr/bin/z3', '-T:%d' % int(budget_s * 3)], smt2, budget_s * 3 + 5)
        trail.append(('z3-4.8.12-cli', out, round(secs, 3)))
        if out in ('unsat', 'sat'):
            return name, out, trail, None, reason
    if shutil.which('/usr/bin/cvc5'):
        out, secs = _run_cli(['/usr/bin/cvc5', '--tlimit=%d' % int(budget_s * 3000), '--full-saturate-quant'],
                             'set-logic ALL'.join(['(', ')\n']) + smt2, budget_s * 3 + 5)
        trail.append(('cvc5-1.0.3-cli', out, round(secs, 3)))
        if out in ('unsat', 'sat'):
            return name, out, trail, None, reason
    return name, 'unknown', trail, None, reason


def recheck_one(args):
    """independent re-check of a query the primary solver proved: the two CLI solvers, short budget"""
    name, smt2, budget_s = args
    out = {}
    if shutil.which('/usr/bin/cvc5'):
        r, secs = _run_cli(['/usr/bin/cvc5', '--tlimit=%d' % int(budget_s * 1000), '--full-saturate-quant'],
                           'set-logic ALL'.join(['(', ')\n']) + smt2, budget_s + 5)
        out['cvc5-1.0.3-cli'] = r if r in ('unsat', 'sat') else 'undecided'
    if shutil.which('/usr/bin/z3'):
        r, secs = _run_cli(['/usr/bin/z3', '-T:%d' % int(budget_s)], smt2, budget_s + 5)
        out['z3-4.8.12-cli'] = r if r in ('unsat', 'sat') else 'undecided'
    return name, out


def recheck(queries, budget_s=5.0, procs=None):
    procs = procs or int(os.environ.get('PYVC_PROCS', 0)) or min(16, os.cpu_count() or 1)
    jobs = [(q.name, q.smt2, budget_s) for q in queries]
    out = {}
    if not jobs:
        return out
    ctx = mp.get_context('fork')
    with ctx.Pool(min(procs, len(jobs))) as pool:
        for name, res in pool.imap_unordered(recheck_one, jobs, chunksize=4):
            out[name] = res
    return out


def discharge(queries, budget_s=10.0, procs=None, want_model=True, portfolio=True):
    """returns {name: (status, trail, model, reason)}; status unsat = proved"""
    procs = procs or int(os.environ.get('PYVC_PROCS', 0)) or min(16, os.cpu_count() or 1)
    if os.environ.get('PYVC_NO_PORTFOLIO'):
        portfolio = False
    jobs = [(q.name, q.smt2, budget_s, want_model, portfolio) for q in queries]
    out = {}
    if procs > 1 and len(jobs) > 1:
        ctx = mp.get_context('fork')
        with ctx.Pool(min(procs, len(jobs))) as pool:
            for name, res, trail, model, reason in pool.imap_unordered(discharge_one, jobs, chunksize=1):
                out[name] = (res, trail, model, reason)
    else:
        for j in jobs:
            name, res, trail, model, reason = discharge_one(j)
            out[name] = (res, trail, model, reason)
    return out


# optional: bound the feasibility checks by z3's resource counter instead of wall-clock time (tried: it did not make the set
# of explored paths reproducible and was slower; 0 = time-outs, the default)
RLIMIT_GROUND = int(os.environ.get('PYVC_RLIMIT_GROUND', '0'))
RLIMIT_FULL = int(os.environ.get('PYVC_RLIMIT_FULL', '0'))


def _ground(h):
    """no quantifier anywhere inside"""
    todo, seen = [h], set()
    while todo:
        t = todo.pop()
        if t.get_id() in seen:
            continue
        seen.add(t.get_id())
        if z3.is_quantifier(t):
            return False
        todo.extend(t.children())
    return True


_GROUND_CACHE = {}


def quick_unsat(hyps, timeout_ms=250, full=False):
    """path pruning: True only when the path condition is definitely unsat.  Two stages: the quantifier-free
    hypotheses alone first (a subset that is unsat makes the whole unsat; a model of it is taken as "feasible" -
    exploring a path that only quantifier instantiation would have refuted costs time, never soundness), the full set
    only when that stage is undecided."""
    if not full and os.environ.get('PYVC_FEAS', 'ground') == 'ground':
        g = []
        for h in hyps:
            k = h.get_id()
            if k not in _GROUND_CACHE:
                _GROUND_CACHE[k] = _ground(h)
            if _GROUND_CACHE[k]:
                g.append(h)
        s = z3.Solver()
        if RLIMIT_GROUND:
            s.set('rlimit', RLIMIT_GROUND)   # a deterministic resource bound: the same paths on every machine and load
        else:
            s.set('timeout', 500)
        for h in g:
            s.add(h)
        r = s.check()
        if r == z3.unsat:
            return True
        if r == z3.sat:
            return False
    s = z3.Solver()
    if RLIMIT_FULL:
        s.set('rlimit', RLIMIT_FULL)
    else:
        s.set('timeout', timeout_ms)
    for h in hyps:
        s.add(h)
    return s.check() == z3.unsat
